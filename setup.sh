#!/bin/sh
# Builds the framework from files on disk only (offline).
set -e
cd "$(dirname "$0")"
mkdir -p .cache evidence replays
(cd lean && lake build OrxPar driver)
(cd harness && python3 gen_chains.py src/chains.rs 3 1 && CARGO_NET_OFFLINE=true cargo build --offline)
# supporting search under Miri (C13, C14): pre-build; its absence is not an error of the setup
(cd miri && CARGO_NET_OFFLINE=true MIRIFLAGS="-Zmiri-num-cpus=4" cargo +nightly miri run >/dev/null 2>&1) || echo "note: Miri battery could not be pre-built (the checks report it as unavailable)"
