#!/bin/sh
# Builds the framework from files on disk only (offline).
set -e
cd "$(dirname "$0")"
mkdir -p .cache evidence replays
(cd lean && lake build OrxPar driver)
(cd harness && python3 gen_chains.py src/chains.rs 3 1 && CARGO_NET_OFFLINE=true cargo build --offline)
