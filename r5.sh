#!/bin/sh
# usage: r5.sh <round-prefix> <Cxx> [extra props]  — confirm a seeded change in its worktree and run the checks
R="$1"; P="$2"; shift 2
W=/tmp/wt/${R}_$P
/verif/confirm_mut.sh $W > /tmp/wt/confirm_${R}_$P.log 2>&1
echo "== $P confirm: $(grep -E 'test result|suite passed' /tmp/wt/confirm_${R}_$P.log | tr '\n' '|' | cut -c1-300)"
/verif/try_mutant.sh $W/mutation/patch.diff $P "$@" 2>&1 | grep -v "^KNOWN" | grep -E "^VIOL|^C[0-9]+:|HARNESS|BUILD" | cut -c1-230
