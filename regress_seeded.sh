#!/bin/sh
# Re-runs the check of its property against every stored seeded change (and my own mutants) and
# prints one verdict line each.  /repo is restored after every change; evidence/ is kept.
cd /verif
mkdir -p .cache/evidence_keep && cp evidence/*.json .cache/evidence_keep/
for d in seeded/*/ mutants/*.diff; do
  if [ -d "$d" ]; then P="$d/patch.diff"; N=$(basename "$d"); else P="$d"; N=$(basename "$d" .diff); fi
  [ -f "$d/equivalent_on_fixed_tree.diff" ] && P="$d/equivalent_on_fixed_tree.diff"
  case "$N" in
    C[0-9][0-9]_*) PROP=$(echo "$N" | cut -c1-3);;
    M01*) PROP=C02;; M02*) PROP=C11;; M03*) PROP=C08;; M04*) PROP=C10;; M05*) PROP=C12;; M18*) PROP=C08;; M21*) PROP=C05;; M22*) PROP=C09;; M23*) PROP=C15;;
    revert_fix_826920e) PROP=C06;; revert_fix_c6a1e56) PROP=C14;; revert_fix_f3134ea) PROP=C15;; revert_fix_dec7df0) PROP=C09;;
    *) PROP=C01;;
  esac
  # changes whose violated behaviour belongs to a neighbouring property (see their meta.json)
  case "$N" in C03_r3_*) PROP=C14;; C16_r3_*|C16_r4_*|C16_r5_*) PROP=C12;; esac
  if ! git -C /repo apply --check "/verif/$P" 2>/dev/null; then echo "REGRESS $N $PROP patch-does-not-apply"; continue; fi
  git -C /repo apply "/verif/$P"
  out=$(./check $PROP 2>&1); rc=$?
  v=$(echo "$out" | grep -E "^VIOLATION" | head -1 | sed 's/replay=.*json//')
  s=$(echo "$out" | grep -E "^$PROP:" | sed 's/.*model disagreements/md/' )
  echo "REGRESS $N $PROP rc=$rc $v | $s"
  git -C /repo checkout -- . && git -C /repo clean -fdq src tests
done
cp .cache/evidence_keep/*.json evidence/
(cd /verif/harness && CARGO_NET_OFFLINE=true cargo build --offline >/dev/null 2>&1)
echo "REGRESS done"
