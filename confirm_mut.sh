#!/bin/sh
# confirm a seeded change in its scratch worktree: demo fails with it, passes without it,
# the existing suite passes with it.  usage: confirm_mut.sh <worktree>
W="$1"; cd "$W" || exit 9
export CARGO_NET_OFFLINE=true
DEMO=$(ls tests/seeded_demo*.rs 2>/dev/null | head -1)
[ -z "$DEMO" ] && { echo "no demo test file"; exit 8; }
T=$(basename "$DEMO" .rs)
echo "--- demo WITH patch"; cargo test --offline --test "$T" 2>&1 | grep -E "^test result|panicked|error(\[|:)" | head -5
echo "--- suite WITH patch"; mkdir -p /tmp/demo_aside_$$; mv tests/seeded_demo*.rs /tmp/demo_aside_$$/
cargo test --workspace --no-fail-fast --offline 2>&1 | grep -E "^test result" | awk '{p+=$4; f+=$6} END {print "suite passed",p,"failed",f}'
mv /tmp/demo_aside_$$/* tests/; rmdir /tmp/demo_aside_$$
echo "--- demo WITHOUT patch"; git apply -R mutation/patch.diff && cargo test --offline --test "$T" 2>&1 | grep -E "^test result|panicked|error(\[|:)" | head -5; git apply mutation/patch.diff
