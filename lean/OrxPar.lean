import OrxPar.Model.Settings
import OrxPar.Model.Spawn
import OrxPar.Lemmas.Spawn
import OrxPar.Lemmas.Settings
import OrxPar.Model.Stream
import OrxPar.Model.Par
import OrxPar.Model.Kernels
import OrxPar.Model.Terminals
