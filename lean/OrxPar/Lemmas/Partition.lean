/- Regrouping of chunks by worker: the per-worker chunk lists are a partition of the assignment.
   Generic fold lemmas used by `Lemmas/Fold.lean`. -/
import OrxPar.Model.Accept
namespace OrxPar
open K

theorem flatMap_congr' {α β : Type} (l : List α) (f g : α → List β) (h : ∀ x ∈ l, f x = g x) :
    l.flatMap f = l.flatMap g := by
  induction l with
  | nil => rfl
  | cons x xs ih =>
    simp only [List.flatMap_cons]
    rw [h x List.mem_cons_self, ih (fun y hy => h y (List.mem_cons_of_mem _ hy))]

/-- the chunks of the workers, concatenated in spawn order, are a permutation of the assignment -/
theorem partition_perm (order : List Nat) : ∀ (asg : List Chunk), order.Nodup →
    (∀ c ∈ asg, c.tid ∈ order) →
    (order.flatMap fun t => asg.filter (·.tid == t)).Perm asg := by
  induction order with
  | nil =>
    intro asg _ hall
    cases asg with
    | nil => simp
    | cons c cs => exact absurd (hall c List.mem_cons_self) (by simp)
  | cons t ts ih =>
    intro asg hnd hall
    rw [List.nodup_cons] at hnd
    simp only [List.flatMap_cons]
    have h1 : ts.flatMap (fun t' => asg.filter (·.tid == t'))
        = ts.flatMap (fun t' => (asg.filter (fun c => !(c.tid == t))).filter (·.tid == t')) := by
      apply flatMap_congr'
      intro t' ht'
      rw [List.filter_filter]
      apply List.filter_congr
      intro c _
      have hne : t' ≠ t := fun e => hnd.1 (e ▸ ht')
      by_cases hc : c.tid = t'
      · subst hc; simp [hne]
      · simp [hc]
    rw [h1]
    have h2 := ih (asg.filter (fun c => !(c.tid == t))) hnd.2 (by
      intro c hc
      simp only [List.mem_filter, Bool.not_eq_eq_eq_not, Bool.not_true, beq_eq_false_iff_ne,
        ne_eq] at hc
      have := hall c hc.1
      rcases List.mem_cons.1 this with h | h
      · exact absurd h hc.2
      · exact h)
    exact (List.Perm.append_left _ h2).trans (List.filter_append_perm _ _)

theorem tiles_elems {cs : List Chunk} {p : Nat} {xs : List Val} (h : Tiles cs p xs) :
    elems cs = xs := by
  induction cs generalizing p xs with
  | nil => simpa [Tiles, elems] using h.symm
  | cons c cs ih =>
    obtain ⟨_, _, rest, rfl, hr⟩ := h
    have := ih hr
    simp only [elems] at this ⊢
    simp [this]

/-- a survivor function that distributes over append, applied to a worker's elements -/
theorem hom_elems (S : List Val → List Val) (h0 : S [] = [])
    (hS : ∀ a b, S (a ++ b) = S a ++ S b) (chunks : List Chunk) :
    S (elems chunks) = chunks.flatMap (fun ch => S ch.items) := by
  induction chunks with
  | nil => simpa [elems] using h0
  | cons c cs ih =>
    simp only [elems] at ih
    simp [elems, hS, ih]

/-- the survivors of the workers, in spawn order, are a permutation of the sequential survivors -/
theorem survivors_perm (S : List Val → List Val) (h0 : S [] = [])
    (hS : ∀ a b, S (a ++ b) = S a ++ S b) (xs : List Val) (ex : Exec) (h : ex.Accepts xs) :
    (ex.order.flatMap fun t => S (elems (ex.chunksOf t))).Perm (S xs) := by
  have e1 : (ex.order.flatMap fun t => S (elems (ex.chunksOf t)))
      = (ex.order.flatMap fun t => ex.asg.filter (·.tid == t)).flatMap (fun ch => S ch.items) := by
    rw [List.flatMap_assoc]
    apply flatMap_congr'
    intro t _
    rw [hom_elems S h0 hS]; rfl
  rw [e1, ← tiles_elems h.tiles, hom_elems S h0 hS]
  exact List.Perm.flatMap_right _ (partition_perm _ _ h.nodup h.tids)

/-! ### counts -/

theorem foldl_count {β : Type} (L : β → List Val) (l : List β) (n : Nat) :
    l.foldl (fun count x => count + (L x).length) n = n + (l.flatMap L).length := by
  induction l generalizing n with
  | nil => simp
  | cons x xs ih => simp [ih]; omega

theorem reduceList_add_getD (l : List Nat) : (reduceList (· + ·) l).getD 0 = l.sum := by
  cases l with
  | nil => rfl
  | cons x xs =>
    simp only [reduceList, Option.getD_some, List.sum_cons]
    induction xs generalizing x with
    | nil => simp
    | cons y ys ih => simp [ih]; omega

/-- a count task that returns the number of survivors of the worker's elements -/
theorem count_correct (S : List Val → List Val) (h0 : S [] = [])
    (hS : ∀ a b, S (a ++ b) = S a ++ S b) (task : Nat → List Chunk → Nat)
    (ht : ∀ c chunks, task c chunks = (S (elems chunks)).length)
    (xs : List Val) (ex : Exec) (h : ex.Accepts xs) :
    (ex.reduce task (· + ·)).getD 0 = (S xs).length := by
  unfold Exec.reduce Exec.runMap
  rw [reduceList_add_getD, ← (survivors_perm S h0 hS xs ex h).length_eq, List.length_flatMap]
  simp [ht]

/-! ### reductions: an invariant relating the survivors seen so far and the partial result -/

structure RedInv (op : Val → Val → Val) (P : List Val → Option Val → Prop) : Prop where
  nil : P [] none
  app : ∀ S₁ S₂ r₁ r₂, P S₁ r₁ → P S₂ r₂ → P (S₁ ++ S₂) (maybeReduce op r₁ r₂)
  perm : ∀ S S' r, S.Perm S' → P S r → P S' r
  red : ∀ S, P S (reduceList op S)

theorem foldl_inv {β : Type} {op : Val → Val → Val} {P : List Val → Option Val → Prop}
    (hP : RedInv op P) (L : β → List Val) (r : β → Option Val) (hr : ∀ x, P (L x) (r x))
    (l : List β) (Sacc : List Val) (acc : Option Val) (hacc : P Sacc acc) :
    P (Sacc ++ l.flatMap L) (l.foldl (fun a x => maybeReduce op a (r x)) acc) := by
  induction l generalizing Sacc acc with
  | nil => simpa using hacc
  | cons x xs ih =>
    simp only [List.flatMap_cons, List.foldl_cons, ← List.append_assoc]
    exact ih _ _ (hP.app _ _ _ _ hacc (hr x))

theorem reduceList_mr_getD {op : Val → Val → Val} (l : List (Option Val)) :
    (reduceList (maybeReduce op) l).getD none = l.foldl (maybeReduce op) none := by
  cases l with
  | nil => rfl
  | cons x xs =>
    simp only [reduceList, Option.getD_some, List.foldl_cons]
    cases x <;> rfl

/-- the chunked path of a reduce task -/
theorem chunked_inv {op : Val → Val → Val} {P : List Val → Option Val → Prop}
    (hP : RedInv op P) (S : List Val → List Val) (h0 : S [] = [])
    (hS : ∀ a b, S (a ++ b) = S a ++ S b) (chunks : List Chunk) :
    P (S (elems chunks))
      (chunks.foldl (fun acc ch => maybeReduce op acc (reduceList op (S ch.items))) none) := by
  rw [hom_elems S h0 hS]
  have := foldl_inv hP (fun ch : Chunk => S ch.items) (fun ch => reduceList op (S ch.items))
    (fun ch => hP.red _) chunks [] none hP.nil
  simpa using this

/-- a reduce task whose result satisfies the invariant w.r.t. the worker's survivors -/
theorem reduce_inv {op : Val → Val → Val} {P : List Val → Option Val → Prop}
    (hP : RedInv op P) (S : List Val → List Val) (h0 : S [] = [])
    (hS : ∀ a b, S (a ++ b) = S a ++ S b) (task : Nat → List Chunk → Option Val)
    (ht : ∀ c chunks, P (S (elems chunks)) (task c chunks))
    (xs : List Val) (ex : Exec) (h : ex.Accepts xs) :
    P (S xs) ((ex.reduce task (maybeReduce op)).getD none) := by
  unfold Exec.reduce Exec.runMap
  rw [reduceList_mr_getD, List.foldl_map]
  have := foldl_inv hP (fun t => S (elems (ex.chunksOf t))) (fun t => task (ex.cs t) (ex.chunksOf t))
    (fun t => ht _ _) ex.order [] none hP.nil
  simp only [List.nil_append] at this
  exact hP.perm _ _ _ (survivors_perm S h0 hS xs ex h) this

/-! ### the two invariants -/

theorem maybeReduce_none_left {op : Val → Val → Val} (r : Option Val) :
    maybeReduce op none r = r := by cases r <;> rfl
theorem maybeReduce_none_right {op : Val → Val → Val} (r : Option Val) :
    maybeReduce op r none = r := by cases r <;> rfl

theorem foldl_op_assoc {op : Val → Val → Val} (hA : ∀ a b c, op (op a b) c = op a (op b c))
    (a b : Val) (l : List Val) : l.foldl op (op a b) = op a (l.foldl op b) := by
  induction l generalizing b with
  | nil => rfl
  | cons x xs ih => simp only [List.foldl_cons]; rw [hA, ih]

theorem reduceList_append {op : Val → Val → Val} (hA : ∀ a b c, op (op a b) c = op a (op b c))
    (l₁ l₂ : List Val) :
    reduceList op (l₁ ++ l₂) = maybeReduce op (reduceList op l₁) (reduceList op l₂) := by
  cases l₁ with
  | nil => simp [reduceList, maybeReduce_none_left]
  | cons a as =>
    cases l₂ with
    | nil => simp [reduceList, maybeReduce]
    | cons b bs =>
      simp only [reduceList, maybeReduce, List.cons_append, List.foldl_append, List.foldl_cons]
      rw [foldl_op_assoc hA]

theorem reduceList_perm {op : Val → Val → Val} (hA : ∀ a b c, op (op a b) c = op a (op b c))
    (hC : ∀ a b, op a b = op b a) {l₁ l₂ : List Val} (h : l₁.Perm l₂) :
    reduceList op l₁ = reduceList op l₂ := by
  induction h with
  | nil => rfl
  | cons x _ ih =>
    rename_i l₁ l₂
    have e : ∀ l, reduceList op (x :: l) = maybeReduce op (some x) (reduceList op l) :=
      fun l => reduceList_append hA [x] l
    rw [e, e, ih]
  | swap x y l =>
    simp only [reduceList, List.foldl_cons]
    rw [hC y x]
  | trans _ _ ih₁ ih₂ => rw [ih₁, ih₂]

/-- associative and commutative operator: the partial result is the sequential reduction -/
theorem redInv_ac {op : Val → Val → Val} (hA : ∀ a b c, op (op a b) c = op a (op b c))
    (hC : ∀ a b, op a b = op b a) : RedInv op (fun S r => r = reduceList op S) where
  nil := rfl
  app := by
    intro S₁ S₂ r₁ r₂ h₁ h₂
    rw [h₁, h₂, reduceList_append hA]
  perm := by
    intro S S' r hp h
    rw [h]; exact reduceList_perm hA hC hp
  red := fun _ => rfl

end OrxPar
