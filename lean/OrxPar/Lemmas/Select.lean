/-
  What the by-key selections return on ties: `reduce` with the library's `min_by` operator yields
  the FIRST of the minimal elements, with its `max_by` operator (since fix dec7df0) the LAST of
  the maximal ones — the documented behaviour of `Iterator::min_by(_key)` / `max_by(_key)`.
-/
import OrxPar.Model.Terminals
namespace OrxPar
open K

theorem foldl_selMax_spec (key : Val → Nat) (l : List Val) :
    ∀ (pre : List Val) (a : Val) (mid : List Val),
      (∀ y ∈ pre, key y ≤ key a) → (∀ y ∈ mid, key y < key a) →
      ∃ pre' r post', pre ++ a :: (mid ++ l) = pre' ++ r :: post' ∧ l.foldl (selMaxBy key) a = r ∧
        (∀ y ∈ pre', key y ≤ key r) ∧ (∀ y ∈ post', key y < key r) := by
  induction l with
  | nil =>
    intro pre a mid hpre hmid
    exact ⟨pre, a, mid, by simp, rfl, hpre, hmid⟩
  | cons y l ih =>
    intro pre a mid hpre hmid
    simp only [List.foldl_cons]
    by_cases h : key a > key y
    · have hs : selMaxBy key a y = a := by simp [selMaxBy, h]
      rw [hs]
      obtain ⟨pre', r, post', heq, hr, h1, h2⟩ := ih pre a (mid ++ [y]) hpre (by
        intro z hz
        rcases List.mem_append.mp hz with hz | hz
        · exact hmid z hz
        · simp only [List.mem_singleton] at hz; subst hz; exact h)
      exact ⟨pre', r, post', by rw [← heq]; simp [List.append_assoc], hr, h1, h2⟩
    · have hs : selMaxBy key a y = y := by simp [selMaxBy, h]
      rw [hs]
      have hay : key a ≤ key y := Nat.le_of_not_gt h
      obtain ⟨pre', r, post', heq, hr, h1, h2⟩ := ih (pre ++ a :: mid) y [] (by
        intro z hz
        rcases List.mem_append.mp hz with hz | hz
        · exact Nat.le_trans (hpre z hz) hay
        · rcases List.mem_cons.mp hz with hz | hz
          · subst hz; exact hay
          · exact Nat.le_trans (Nat.le_of_lt (hmid z hz)) hay) (by simp)
      exact ⟨pre', r, post', by rw [← heq]; simp [List.append_assoc], hr, h1, h2⟩

/-- **max_by(_key) = the last maximal element** -/
theorem reduce_selMax_last (key : Val → Nat) (xs : List Val) (hne : xs ≠ []) :
    ∃ pre r post, xs = pre ++ r :: post ∧ reduceList (selMaxBy key) xs = some r ∧
      (∀ y ∈ pre, key y ≤ key r) ∧ (∀ y ∈ post, key y < key r) := by
  cases xs with
  | nil => exact absurd rfl hne
  | cons a l =>
    obtain ⟨pre', r, post', heq, hr, h1, h2⟩ := foldl_selMax_spec key l [] a [] (by simp) (by simp)
    exact ⟨pre', r, post', by simpa using heq, by simp [reduceList, hr], h1, h2⟩

theorem foldl_selMin_spec (key : Val → Nat) (l : List Val) :
    ∀ (pre : List Val) (a : Val) (mid : List Val),
      (∀ y ∈ pre, key a < key y) → (∀ y ∈ mid, key a ≤ key y) →
      ∃ pre' r post', pre ++ a :: (mid ++ l) = pre' ++ r :: post' ∧ l.foldl (selMinBy key) a = r ∧
        (∀ y ∈ pre', key r < key y) ∧ (∀ y ∈ post', key r ≤ key y) := by
  induction l with
  | nil =>
    intro pre a mid hpre hmid
    exact ⟨pre, a, mid, by simp, rfl, hpre, hmid⟩
  | cons y l ih =>
    intro pre a mid hpre hmid
    simp only [List.foldl_cons]
    by_cases h : key a ≤ key y
    · have hs : selMinBy key a y = a := by simp [selMinBy, h]
      rw [hs]
      obtain ⟨pre', r, post', heq, hr, h1, h2⟩ := ih pre a (mid ++ [y]) hpre (by
        intro z hz
        rcases List.mem_append.mp hz with hz | hz
        · exact hmid z hz
        · simp only [List.mem_singleton] at hz; subst hz; exact h)
      exact ⟨pre', r, post', by rw [← heq]; simp [List.append_assoc], hr, h1, h2⟩
    · have hs : selMinBy key a y = y := by simp [selMinBy, h]
      rw [hs]
      have hya : key y < key a := Nat.lt_of_not_ge h
      obtain ⟨pre', r, post', heq, hr, h1, h2⟩ := ih (pre ++ a :: mid) y [] (by
        intro z hz
        rcases List.mem_append.mp hz with hz | hz
        · exact Nat.lt_trans hya (hpre z hz)
        · rcases List.mem_cons.mp hz with hz | hz
          · subst hz; exact hya
          · exact Nat.lt_of_lt_of_le hya (hmid z hz)) (by simp)
      exact ⟨pre', r, post', by rw [← heq]; simp [List.append_assoc], hr, h1, h2⟩

/-- **min_by(_key) = the first minimal element** -/
theorem reduce_selMin_first (key : Val → Nat) (xs : List Val) (hne : xs ≠ []) :
    ∃ pre r post, xs = pre ++ r :: post ∧ reduceList (selMinBy key) xs = some r ∧
      (∀ y ∈ pre, key r < key y) ∧ (∀ y ∈ post, key r ≤ key y) := by
  cases xs with
  | nil => exact absurd rfl hne
  | cons a l =>
    obtain ⟨pre', r, post', heq, hr, h1, h2⟩ := foldl_selMin_spec key l [] a [] (by simp) (by simp)
    exact ⟨pre', r, post', by simpa using heq, by simp [reduceList, hr], h1, h2⟩

end OrxPar
