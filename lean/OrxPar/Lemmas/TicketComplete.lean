/-
  Completeness of the ticket protocol when nobody calls `skip_to_end` (the full-visit kernels):
  the handle can only be marked COMPLETED by a thread that saw the inner iterator run dry, so once
  it is COMPLETED every element of the inner iterator has been handed out, each exactly once and at
  its true position.  With `skip_to_end` this fails: the reservation of a waiting thread is lost.
-/
import OrxPar.Lemmas.Ticket
namespace OrxPar
namespace Ticket

/-- nobody calls `skip_to_end` -/
def NoSkip (sched : List (Nat × Act)) : Prop := ∀ p ∈ sched, p.2 ≠ .skip

structure Dry (l : Nat) (s : State) : Prop where
  len : s.innerLen = some l
  le : s.innerPos ≤ l
  comp : s.y = .completed → s.innerPos = l
  dry : ∀ (i t n got : Nat), s.ths[i]? = some ⟨.inside t n got true⟩ → s.innerPos = l

theorem dry_init (n l : Nat) : Dry l (init n (some l)) := by
  refine ⟨rfl, Nat.zero_le _, ?_, ?_⟩
  · intro h; simp [init] at h
  · intro i t n' got h
    simp only [init, List.getElem?_replicate] at h
    split at h <;> simp at h

/-- moving one thread to a pc that is not "inside and dry" keeps the `dry` clause -/
theorem dry_setPc {l : Nat} {s s' : State} (h : Dry l s) (tid : Nat) (pc : PC)
    (hths : s'.ths = s.ths) (hpos : s'.innerPos = s.innerPos)
    (hpc : ∀ t n got, pc = .inside t n got true → s.innerPos = l) :
    ∀ (i t n got : Nat), (setPc s' tid pc).ths[i]? = some ⟨.inside t n got true⟩ →
      (setPc s' tid pc).innerPos = l := by
  intro i t n got hi
  show s'.innerPos = l
  rw [hpos]
  rcases getElem?_setPc hi with ⟨_, heq⟩ | ⟨_, hold⟩
  · exact hpc t n got (by cases heq; rfl)
  · rw [hths] at hold
    exact h.dry i t n got hold

theorem dry_step {l : Nat} {s : State} (h : Dry l s) (tid : Nat) (a : Act) (ha : a ≠ .skip) :
    Dry l (step s tid a) := by
  unfold step
  split
  · exact absurd rfl ha
  · -- start
    split
    · exact h
    · refine ⟨h.len, h.le, h.comp, ?_⟩
      exact dry_setPc h tid _ rfl rfl (by intro t n got e; cases e)
  · -- tryAcquire
    rename_i t n hth
    split
    · rename_i hy
      refine ⟨h.len, h.le, (by intro e; cases e), ?_⟩
      exact dry_setPc h tid _ rfl rfl (by intro t' n' got e; cases e)
    · split
      · refine ⟨h.len, h.le, h.comp, ?_⟩
        exact dry_setPc h tid _ rfl rfl (by intro t' n' got e; cases e)
      · exact h
  · -- readOne
    rename_i t n got dry hth
    have hlen := h.len
    split
    · rename_i hc
      split
      · rename_i l' hl'
        have hll : l' = l := by rw [hlen] at hl'; exact (Option.some.inj hl').symm
        subst hll
        split
        · rename_i hlt
          refine ⟨hlen, by show s.innerPos + 1 ≤ l'; omega, ?_, ?_⟩
          · intro hy
            have := h.comp hy
            omega
          · intro i t' n' got' hi
            rcases getElem?_setPc hi with ⟨_, heq⟩ | ⟨_, hold⟩
            · cases heq
            · have := h.dry i t' n' got' hold
              omega
        · rename_i hge
          have hl : s.innerPos = l' := by have := h.le; omega
          refine ⟨hlen, h.le, h.comp, ?_⟩
          exact dry_setPc h tid _ rfl rfl (by intro _ _ _ _; exact hl)
      · rename_i hnone
        rw [hlen] at hnone; cases hnone
    · exact h
  · -- release
    rename_i t n got dry hth
    have key : ∀ y' : Y, (y' = .completed → s.innerPos = l) →
        Dry l (match s.y with
          | .mutating => setPc { s with y := y' } tid .idle
          | .completed => setPc s tid .idle
          | .val _ => setPc { s with assertFailed := true } tid .idle) := by
      intro y' hy'
      split
      · refine ⟨h.len, h.le, hy', ?_⟩
        exact dry_setPc h tid _ rfl rfl (by intro t' n' got' e; cases e)
      · refine ⟨h.len, h.le, h.comp, ?_⟩
        exact dry_setPc h tid _ rfl rfl (by intro t' n' got' e; cases e)
      · refine ⟨h.len, h.le, h.comp, ?_⟩
        exact dry_setPc h tid _ rfl rfl (by intro t' n' got' e; cases e)
    split
    · rename_i hc
      refine key _ ?_
      intro hy
      by_cases e : got = n
      · simp [e] at hy
      · have hd : dry = true := by
          rcases (Bool.or_eq_true _ _).mp hc with h1 | h1
          · exact absurd (by simpa using h1) e
          · exact h1
        subst hd
        exact h.dry tid t n got hth
    · exact h
  · exact h

theorem dry_run {l : Nat} {s : State} (h : Dry l s) (sched : List (Nat × Act)) (hs : NoSkip sched) :
    Dry l (run s sched) := by
  induction sched generalizing s with
  | nil => exact h
  | cons p ps ih =>
    exact ih (dry_step h p.1 p.2 (hs p (by simp))) (fun q hq => hs q (by simp [hq]))

/-- **completeness.** without `skip_to_end`, once the handle is COMPLETED the source has been
    handed out completely: positions `0 … l-1`, each exactly once, each at its true index -/
theorem complete_without_skip (n l : Nat) (sched : List (Nat × Act)) (hs : NoSkip sched)
    (hc : (run (init n (some l)) sched).y = .completed) :
    (run (init n (some l)) sched).handed.map (·.2) = List.range l ∧
    ∀ p ∈ (run (init n (some l)) sched).handed, p.1 = p.2 := by
  have hd := dry_run (dry_init n l) sched hs
  have hpos := hd.comp hc
  refine ⟨?_, index_contract n (some l) sched⟩
  rw [handed_positions n (some l) sched, hpos]

/-- **why the full-visit kernels must not call `skip_to_end`.** two threads over a 2-element
    source with chunk size 1: thread 0 holds the handle, thread 1 has reserved position 1 and
    waits; a `skip_to_end` (by anybody) in that window makes thread 1 give up, and position 1 is
    never handed out although the protocol ends in the COMPLETED state -/
theorem skip_loses_reservation :
    let s := run (init 3 (some 2))
      [(0, .start 1), (1, .start 1), (0, .tryAcquire), (2, .skip), (0, .readOne), (0, .release),
       (1, .tryAcquire), (0, .start 1), (0, .tryAcquire)]
    s.y = .completed ∧ s.handed = [(0, 0)] ∧ s.ths.all (fun t => t.pc == .idle) = true := by
  decide

end Ticket
end OrxPar
