/- Panic propagation through `Runner::{run, run_map, reduce}`. -/
import OrxPar.Model.Panic
import OrxPar.Lemmas.Logged
namespace OrxPar
open Scope

theorem any_isPanicked_map_ok {β : Type} (bs : List β) :
    (bs.map (WRes.ok)).any WRes.isPanicked = false := by
  induction bs with
  | nil => rfl
  | cons b bs ih => simp [WRes.isPanicked, ih]

/-! ### the join loops -/

theorem joinAllExpect_ok {β : Type} (bs : List β) :
    joinAllExpect (bs.map WRes.ok) = (.ret bs, []) := by
  induction bs with
  | nil => rfl
  | cons b bs ih => simp [joinAllExpect, ih]

theorem joinAllExpect_panics {β : Type} (ws : List (WRes β)) (h : ws.any WRes.isPanicked = true) :
    (joinAllExpect ws).1 = .panic := by
  induction ws with
  | nil => simp at h
  | cons w ws ih =>
    cases w with
    | panicked => rfl
    | ok b =>
      have h' : ws.any WRes.isPanicked = true := by simpa [WRes.isPanicked] using h
      have := ih h'
      simp only [joinAllExpect]
      split
      · rename_i heq; rw [heq] at this; cases this
      · rfl

theorem joinReduceExpect_ok {β : Type} (op : β → β → β) (acc : Option β) (bs : List β) :
    joinReduceExpect op acc (bs.map WRes.ok)
      = (.ret (match acc with
          | none => K.reduceList op bs
          | some a => some (bs.foldl op a)), []) := by
  induction bs generalizing acc with
  | nil => cases acc <;> rfl
  | cons b bs ih =>
    cases acc with
    | none => simp [joinReduceExpect, ih, K.reduceList]
    | some a => simp [joinReduceExpect, ih]

theorem joinReduceExpect_panics {β : Type} (op : β → β → β) (acc : Option β) (ws : List (WRes β))
    (h : ws.any WRes.isPanicked = true) : (joinReduceExpect op acc ws).1 = .panic := by
  induction ws generalizing acc with
  | nil => simp at h
  | cons w ws ih =>
    cases w with
    | panicked => cases acc <;> rfl
    | ok b =>
      have h' : ws.any WRes.isPanicked = true := by simpa [WRes.isPanicked] using h
      cases acc with
      | none => simpa [joinReduceExpect] using ih (some b) h'
      | some a => simpa [joinReduceExpect] using ih (some (op a b)) h'

/-! ### the three entry points -/

theorem RunnerP.run_eq (ws : List (WRes Unit)) :
    RunnerP.run ws = if ws.any WRes.isPanicked then .panic else .ret ws.length := rfl

theorem RunnerP.runMap_panics {β : Type} (ws : List (WRes β)) (h : ws.any WRes.isPanicked = true) :
    RunnerP.runMap ws = .panic := by
  unfold RunnerP.runMap
  simp only [joinAllExpect_panics ws h, scope]

theorem RunnerP.runMap_ok {β : Type} (bs : List β) :
    RunnerP.runMap (bs.map WRes.ok) = .ret bs := by
  unfold RunnerP.runMap
  simp [joinAllExpect_ok, scope]

theorem RunnerP.reduce_panics {β : Type} (ws : List (WRes β)) (op : β → β → β)
    (h : ws.any WRes.isPanicked = true) : RunnerP.reduce ws op = .panic := by
  unfold RunnerP.reduce
  simp only [joinReduceExpect_panics op none ws h, scope]

theorem RunnerP.reduce_ok {β : Type} (bs : List β) (op : β → β → β) :
    RunnerP.reduce (bs.map WRes.ok) op = .ret (bs.length, K.reduceList op bs) := by
  unfold RunnerP.reduce
  simp [joinReduceExpect_ok, scope]

/-! ### workers -/

theorem workerRes_map_ok {β : Type} (evs : Nat → List Event) (pe : Event) (val : Nat → β)
    (order : List Nat) (h : ∀ t ∈ order, pe ∉ evs t) :
    order.map (workerRes evs pe val) = (order.map val).map WRes.ok := by
  rw [List.map_map]
  apply List.map_congr_left
  intro t ht
  simp [workerRes, h t ht]

theorem workerRes_any_panicked {β : Type} (evs : Nat → List Event) (pe : Event) (val : Nat → β)
    (order : List Nat) (h : ∃ t ∈ order, pe ∈ evs t) :
    (order.map (workerRes evs pe val)).any WRes.isPanicked = true := by
  obtain ⟨t, ht, hp⟩ := h
  rw [List.any_map, List.any_eq_true]
  exact ⟨t, ht, by simp [workerRes, hp, WRes.isPanicked]⟩

/-- in an accepted full-visit execution every invocation of the sequential evaluation is
    evaluated by some worker -/
theorem Par.some_worker_evaluates (P : Par) (ex : Exec) (h : ex.Accepts P.src.items) (pe : Event)
    (hpe : pe ∈ P.stream.log) : ∃ t ∈ ex.order, pe ∈ P.workerEvents ex t := by
  have hp : pe ∈ P.parLog ex := (Par.parLog_perm P ex h).mem_iff.mpr hpe
  unfold Par.parLog at hp
  rw [List.mem_flatMap] at hp
  obtain ⟨t, ht, hm⟩ := hp
  exact ⟨t, ht, hm⟩

/-- … and nothing else is -/
theorem Par.no_worker_evaluates (P : Par) (ex : Exec) (h : ex.Accepts P.src.items) (pe : Event)
    (hpe : pe ∉ P.stream.log) : ∀ t ∈ ex.order, pe ∉ P.workerEvents ex t := by
  intro t ht hm
  apply hpe
  apply (Par.parLog_perm P ex h).mem_iff.mp
  unfold Par.parLog
  rw [List.mem_flatMap]
  exact ⟨t, ht, hm⟩

end OrxPar

namespace OrxPar

/-! ### the panic prediction (`panicPred`) is sound -/

/-- full-visit terminals: under every accepted execution the terminal phase performs exactly the
    invocations of `possibleLog` (= `certainLog`), as a multiset -/
theorem Par.termLog_perm_full (P : Par) (ex : Exec) (t : Terminal) (hsc : t.isShortCircuit = false)
    (h : (P.forTerminal t).1.params.isSequential = true ∨ ex.Accepts (P.forTerminal t).1.src.items) :
    (P.termLog ex t).Perm (P.possibleLog t) := by
  have hp : t.pred? = none := by cases t <;> simp [Terminal.isShortCircuit] at hsc <;> rfl
  simp only [Par.termLog, Par.possibleLog, hp, hsc]
  apply List.Perm.append_left
  unfold Par.fullLog
  cases hs : (P.forTerminal t).1.params.isSequential with
  | true => simp
  | false =>
    simp only [Bool.false_eq_true, if_false]
    rcases h with h | h
    · rw [hs] at h; cases h
    · exact Par.parLog_perm _ ex h

theorem Par.certain_eq_possible_full (P : Par) (t : Terminal) (hsc : t.isShortCircuit = false) :
    P.certainLog t = P.possibleLog t := by
  have hp : t.pred? = none := by cases t <;> simp [Terminal.isShortCircuit] at hsc <;> rfl
  simp only [Par.certainLog, Par.possibleLog, hp, hsc]

/-- workers scanning the chunks of a tiled prefix evaluate only invocations of the complete
    evaluation of the source -/
theorem scan_mem (g : Val → Prod) (ex : Exec) (xs : List Val) (n : Nat)
    (ht : Tiles ex.asg 0 (xs.take n)) (hn : ex.order.Nodup) (htid : ∀ c ∈ ex.asg, c.tid ∈ ex.order)
    (e : Event) (he : e ∈ ex.order.flatMap fun t => scanLog g (K.elems (ex.chunksOf t))) :
    e ∈ xs.flatMap fun x => (g x).log := by
  rw [List.mem_flatMap] at he
  obtain ⟨t, ht', hm⟩ := he
  have hpre := scanLog_prefix g (K.elems (ex.chunksOf t))
  rw [Prod.log_bindList] at hpre
  have h1 : e ∈ ex.order.flatMap fun t => (K.elems (ex.chunksOf t)).flatMap fun x => (g x).log :=
    List.mem_flatMap.mpr ⟨t, ht', hpre.subset hm⟩
  have h2 := (regroup_perm (fun x => (g x).log) ex _ 0 ht hn htid).mem_iff.mp h1
  rw [List.mem_flatMap] at h2 ⊢
  obtain ⟨x, hx, hxe⟩ := h2
  exact ⟨x, List.mem_of_mem_take hx, hxe⟩

/-- short-circuit terminals: whatever prefix of the source was pulled and however it was
    distributed, only invocations of `possibleLog` are performed -/
theorem Par.termLog_sub_possible_short (P : Par) (ex : Exec) (t : Terminal)
    (hsc : t.isShortCircuit = true) (n : Nat)
    (h : P.params.isSequential = true ∨
      (Tiles ex.asg 0 (P.src.items.take n) ∧ ex.order.Nodup ∧ ∀ c ∈ ex.asg, c.tid ∈ ex.order))
    (e : Event) (he : e ∈ P.termLog ex t) : e ∈ P.possibleLog t := by
  cases hs : P.params.isSequential with
  | true =>
    cases hp : t.pred? with
    | none => simpa [Par.termLog, Par.possibleLog, hp, hsc, hs] using he
    | some q => simpa [Par.termLog, Par.possibleLog, hp, hs] using he
  | false =>
    rcases h with h | ⟨ht, hn, htid⟩
    · rw [hs] at h; cases h
    · cases hp : t.pred? with
      | none =>
        simp only [Par.termLog, Par.possibleLog, hp, hsc, hs, Bool.false_eq_true, if_false] at he ⊢
        have := scan_mem P.elem ex P.src.items n ht hn htid e he
        unfold Par.stream
        rwa [Prod.log_bindList]
      | some q =>
        simp only [Par.termLog, Par.possibleLog, hp, hs, Bool.false_eq_true, if_false] at he ⊢
        have := scan_mem (P.elemQ q) ex P.src.items n ht hn htid e he
        unfold Par.stream
        rw [Prod.filterW_bindList, Prod.log_bindList]
        exact this

end OrxPar
