/- The terminals of all eight types, for every accepted execution, in terms of the
   sequential stream of the pipeline. -/
import OrxPar.Lemmas.Collect
import OrxPar.Lemmas.Fold
import OrxPar.Lemmas.BagFind
import OrxPar.Lemmas.Chain
import OrxPar.Lemmas.TerminalsAux
namespace OrxPar
open K Kern
set_option linter.unusedSimpArgs false

/-- does source element `x` yield an output satisfying `q` -/
def Par.hit (P : Par) (q : Val → Bool) : Val → Bool := fun x => (P.elem x).vals.any q

/-- when is an execution context acceptable for a full-visit terminal of `P`: either the
    computation is sequential (the context is ignored) or it is an accepted execution over the
    source of `P` -/
def Par.Ok (P : Par) (ex : Exec) : Prop := P.params.isSequential = true ∨ ex.Accepts P.src.items

/-- … and for a short-circuit terminal with predicate `q` -/
def Par.OkFind (P : Par) (ex : Exec) (q : Val → Bool) : Prop :=
  P.params.isSequential = true ∨ ex.AcceptsFind P.src.items (P.hit q)

/-- collect, collect_vec, collect_into for all three targets, known and unknown length -/
theorem Par.core_collectInto (P : Par) (ex : Exec) (h : P.Ok ex) (t : Target) (pre : List Val) :
    P.core ex (.collectInto t pre) = .vals (pre ++ P.stream.vals) := by
  cases P with
  | empty p s => simp only [Par.core]; rw [Par.stream_vals_empty]
  | map p s m =>
    simp only [Par.core]
    rw [Kern.mapInto_eq p s ex t pre (pv m) h, Par.stream_vals_map]
  | fil p s f =>
    simp only [Par.core]; rw [Kern.mapFilterInto_eq p s ex pre _ _ h, Par.kvals_fil]
  | mapFil p s m f =>
    simp only [Par.core]; rw [Kern.mapFilterInto_eq p s ex pre _ _ h, Par.kvals_mapFil]
  | filterMap p s fm =>
    simp only [Par.core]; rw [Kern.filtermapFilterInto_eq p s ex pre _ _ h, Par.kvals_filterMap]
  | filterMapFil p s fm f =>
    simp only [Par.core]; rw [Kern.filtermapFilterInto_eq p s ex pre _ _ h, Par.kvals_filterMapFil]
  | flatMap p s g =>
    simp only [Par.core]; rw [Kern.flatmapFilterInto_eq p s ex pre _ _ h, Par.kvals_flatMap]
  | flatMapFil p s g f =>
    simp only [Par.core]; rw [Kern.flatmapFilterInto_eq p s ex pre _ _ h, Par.kvals_flatMapFil]

theorem Par.core_count (P : Par) (ex : Exec) (h : P.Ok ex) :
    P.core ex .count = .num P.stream.vals.length := by
  cases P with
  | empty p s => simp only [Par.core]; rw [Kern.mapFilCnt_eq p s ex _ _ h, Par.kvals_empty]
  | map p s m => simp only [Par.core]; rw [Kern.mapFilCnt_eq p s ex _ _ h, Par.kvals_map]
  | fil p s f => simp only [Par.core]; rw [Kern.mapFilCnt_eq p s ex _ _ h, Par.kvals_fil]
  | mapFil p s m f => simp only [Par.core]; rw [Kern.mapFilCnt_eq p s ex _ _ h, Par.kvals_mapFil]
  | filterMap p s fm =>
    simp only [Par.core]; rw [Kern.filtermapFilCnt_eq p s ex _ _ h, Par.kvals_filterMap]
  | filterMapFil p s fm f =>
    simp only [Par.core]; rw [Kern.filtermapFilCnt_eq p s ex _ _ h, Par.kvals_filterMapFil]
  | flatMap p s g => simp only [Par.core]; rw [Kern.flatmapFilCnt_eq p s ex _ _ h, Par.kvals_flatMap]
  | flatMapFil p s g f =>
    simp only [Par.core]; rw [Kern.flatmapFilCnt_eq p s ex _ _ h, Par.kvals_flatMapFil]

/-- all three `reduce` theorems at once: `R` relates the sequential values and the result -/
theorem Par.core_reduce_gen (P : Par) (ex : Exec) (op : Val → Val → Val)
    (R : List Val → Option Val → Prop) (hseq : ∀ S, R S (reduceList op S))
    (h : P.params.isSequential = true ∨
      ((∀ m f, R ((P.src.items.map m).filter f)
          ((ex.reduce (mapFilRedTask m f op) (maybeReduce op)).getD none)) ∧
       (∀ fm f, R ((((P.src.items.map fm).filter (·.isSome)).filterMap id).filter f)
          ((ex.reduce (filtermapFilRedTask fm f op) (maybeReduce op)).getD none)) ∧
       (∀ g f, R ((P.src.items.flatMap g).filter f)
          ((ex.reduce (flatmapFilRedTask g f op) (maybeReduce op)).getD none)))) :
    ∃ r, P.core ex (.reduce op) = .opt r ∧ R P.stream.vals r := by
  cases P with
  | empty p s =>
    refine ⟨_, rfl, ?_⟩
    rw [Par.kvals_empty]
    exact Kern.mapFilRed_gen p s ex R op hseq _ _ (h.imp id fun h => h.1 _ _)
  | map p s m =>
    refine ⟨_, rfl, ?_⟩
    rw [Par.kvals_map]
    exact Kern.mapFilRed_gen p s ex R op hseq _ _ (h.imp id fun h => h.1 _ _)
  | fil p s f =>
    refine ⟨_, rfl, ?_⟩
    rw [Par.kvals_fil]
    exact Kern.mapFilRed_gen p s ex R op hseq _ _ (h.imp id fun h => h.1 _ _)
  | mapFil p s m f =>
    refine ⟨_, rfl, ?_⟩
    rw [Par.kvals_mapFil]
    exact Kern.mapFilRed_gen p s ex R op hseq _ _ (h.imp id fun h => h.1 _ _)
  | filterMap p s fm =>
    refine ⟨_, rfl, ?_⟩
    rw [Par.kvals_filterMap]
    exact Kern.filtermapFilRed_gen p s ex R op hseq _ _ (h.imp id fun h => h.2.1 _ _)
  | filterMapFil p s fm f =>
    refine ⟨_, rfl, ?_⟩
    rw [Par.kvals_filterMapFil]
    exact Kern.filtermapFilRed_gen p s ex R op hseq _ _ (h.imp id fun h => h.2.1 _ _)
  | flatMap p s g =>
    refine ⟨_, rfl, ?_⟩
    rw [Par.kvals_flatMap]
    exact Kern.flatmapFilRed_gen p s ex R op hseq _ _ (h.imp id fun h => h.2.2 _ _)
  | flatMapFil p s g f =>
    refine ⟨_, rfl, ?_⟩
    rw [Par.kvals_flatMapFil]
    exact Kern.flatmapFilRed_gen p s ex R op hseq _ _ (h.imp id fun h => h.2.2 _ _)

/-- associative + commutative operator: any execution -/
theorem Par.core_reduce (P : Par) (ex : Exec) (h : P.Ok ex) (op : Val → Val → Val)
    (hA : ∀ a b c, op (op a b) c = op a (op b c)) (hC : ∀ a b, op a b = op b a) :
    P.core ex (.reduce op) = .opt (reduceList op P.stream.vals) := by
  obtain ⟨r, h1, h2⟩ := Par.core_reduce_gen P ex op (fun S r => r = reduceList op S)
    (fun _ => rfl) (h.imp id fun h =>
      ⟨fun m f => mapFilRed_correct m f op hA hC _ ex h,
       fun fm f => filtermapFilRed_correct fm f op hA hC _ ex h,
       fun g f => flatmapFilRed_correct g f op hA hC _ ex h⟩)
  rw [h1, h2]

/-- arbitrary operator in sequential mode: exactly the left fold -/
theorem Par.core_reduce_seq (P : Par) (ex : Exec) (h : P.params.isSequential = true)
    (op : Val → Val → Val) :
    P.core ex (.reduce op) = .opt (reduceList op P.stream.vals) := by
  obtain ⟨r, h1, h2⟩ := Par.core_reduce_gen P ex op (fun S r => r = reduceList op S)
    (fun _ => rfl) (Or.inl h)
  rw [h1, h2]

/-- selection operators (min_by_key & co): a minimal survivor, no commutativity needed -/
theorem Par.core_reduce_select (P : Par) (ex : Exec) (h : P.Ok ex) (key : Val → Nat)
    (op : Val → Val → Val) (hop : IsMinSel key op) :
    ∃ r, P.core ex (.reduce op) = .opt r ∧ IsMinOf key P.stream.vals r :=
  Par.core_reduce_gen P ex op (IsMinOf key) (reduceList_select key op hop)
    (h.imp id fun h =>
      ⟨fun m f => mapFilRed_select m f key op hop _ ex h,
       fun fm f => filtermapFilRed_select fm f key op hop _ ex h,
       fun g f => flatmapFilRed_select g f key op hop _ ex h⟩)

theorem Par.core_collectX_seq' (P : Par) (ex : Exec) (h : P.params.isSequential = true) :
    P.core ex .collectX = .bag P.stream.vals := by
  cases P with
  | empty p s => simp only [Par.core]; rw [Par.stream_vals_empty]
  | map p s m =>
    replace h : p.isSequential = true := h
    simp only [Par.core]
    rw [if_pos h, Kern.mapFilterInto_eq p s ex [] _ _ (Or.inl h), Par.kvals_map, List.nil_append]
  | fil p s f =>
    replace h : p.isSequential = true := h
    simp only [Par.core]
    rw [if_pos h, Kern.mapFilterInto_eq p s ex [] _ _ (Or.inl h), Par.kvals_fil, List.nil_append]
  | mapFil p s m f =>
    replace h : p.isSequential = true := h
    simp only [Par.core]
    rw [if_pos h, Kern.mapFilterInto_eq p s ex [] _ _ (Or.inl h), Par.kvals_mapFil, List.nil_append]
  | filterMap p s fm =>
    replace h : p.isSequential = true := h
    simp only [Par.core]
    rw [if_pos h, Kern.filtermapFilterInto_eq p s ex [] _ _ (Or.inl h), Par.kvals_filterMap,
      List.nil_append]
  | filterMapFil p s fm f =>
    replace h : p.isSequential = true := h
    simp only [Par.core]
    rw [if_pos h, Kern.filtermapFilterInto_eq p s ex [] _ _ (Or.inl h), Par.kvals_filterMapFil,
      List.nil_append]
  | flatMap p s g =>
    replace h : p.isSequential = true := h
    simp only [Par.core]
    rw [if_pos h, Kern.flatmapFilterInto_eq p s ex [] _ _ (Or.inl h), Par.kvals_flatMap,
      List.nil_append]
  | flatMapFil p s g f =>
    replace h : p.isSequential = true := h
    simp only [Par.core]
    rw [if_pos h, Kern.flatmapFilterInto_eq p s ex [] _ _ (Or.inl h), Par.kvals_flatMapFil,
      List.nil_append]

theorem Par.core_collectX (P : Par) (ex : Exec) (h : P.Ok ex) :
    ∃ v, P.core ex .collectX = .bag v ∧ v.Perm P.stream.vals := by
  cases hs : P.params.isSequential with
  | true => exact ⟨_, Par.core_collectX_seq' P ex hs, List.Perm.refl _⟩
  | false =>
    have ha : ex.Accepts P.src.items := by
      rcases h with h | h
      · rw [hs] at h; cases h
      · exact h
    have hn : ¬ (P.params.isSequential = true) := by rw [hs]; exact Bool.false_ne_true
    cases P with
    | empty p s => exact ⟨_, rfl, by rw [Par.stream_vals_empty]⟩
    | map p s m =>
      replace hn : ¬ (p.isSequential = true) := hn
      simp only [Par.core]; rw [if_neg hn, Par.kvals_map]
      exact ⟨_, rfl, mapFilColX_perm _ _ _ ex ha⟩
    | fil p s f =>
      replace hn : ¬ (p.isSequential = true) := hn
      simp only [Par.core]; rw [if_neg hn, Par.kvals_fil]
      exact ⟨_, rfl, mapFilColX_perm _ _ _ ex ha⟩
    | mapFil p s m f =>
      replace hn : ¬ (p.isSequential = true) := hn
      simp only [Par.core]; rw [if_neg hn, Par.kvals_mapFil]
      exact ⟨_, rfl, mapFilColX_perm _ _ _ ex ha⟩
    | filterMap p s fm =>
      replace hn : ¬ (p.isSequential = true) := hn
      simp only [Par.core]; rw [if_neg hn, Par.kvals_filterMap]
      exact ⟨_, rfl, filtermapFilColX_perm _ _ _ ex ha⟩
    | filterMapFil p s fm f =>
      replace hn : ¬ (p.isSequential = true) := hn
      simp only [Par.core]; rw [if_neg hn, Par.kvals_filterMapFil]
      exact ⟨_, rfl, filtermapFilColX_perm _ _ _ ex ha⟩
    | flatMap p s g =>
      replace hn : ¬ (p.isSequential = true) := hn
      simp only [Par.core]; rw [if_neg hn, Par.kvals_flatMap]
      exact ⟨_, rfl, flatmapFilColX_perm _ _ _ ex ha⟩
    | flatMapFil p s g f =>
      replace hn : ¬ (p.isSequential = true) := hn
      simp only [Par.core]; rw [if_neg hn, Par.kvals_flatMapFil]
      exact ⟨_, rfl, flatmapFilColX_perm _ _ _ ex ha⟩

/-- in sequential mode `collect_x` is even equal -/
theorem Par.core_collectX_seq (P : Par) (ex : Exec) (h : P.params.isSequential = true) :
    P.core ex .collectX = .bag P.stream.vals :=
  Par.core_collectX_seq' P ex h

/-! ### the hit function of each type, in the shape the find kernels use -/

theorem Par.hit_empty (p s) (q : Val → Bool) :
    (Par.empty p s).hit q = fun x => q (pv Par.mapSelf x) := by
  funext x; simp [Par.hit, Par.elem_vals_empty, pv_mapSelf]
theorem Par.hit_map (p s m) (q : Val → Bool) :
    (Par.map p s m).hit q = fun x => q (pv m x) := by
  funext x; simp [Par.hit, Par.elem_vals_map]
theorem Par.hit_fil (p s f) (q : Val → Bool) :
    (Par.fil p s f).hit q = fun x => (fun y => pv f y && q y) (pv Par.mapSelf x) := by
  funext x; cases h : pv f x <;> simp [Par.hit, Par.elem_vals_fil, pv_mapSelf, h]
theorem Par.hit_mapFil (p s m f) (q : Val → Bool) :
    (Par.mapFil p s m f).hit q = fun x => (fun y => pv f y && q y) (pv m x) := by
  funext x; cases h : pv f (pv m x) <;> simp [Par.hit, Par.elem_vals_mapFil, h]
theorem Par.hit_filterMap (p s fm) (q : Val → Bool) :
    (Par.filterMap p s fm).hit q = fun x =>
      match pv fm x with | none => false | some v => (fun y => pv Par.noFilter y && q y) v := by
  funext x; cases h : pv fm x <;> simp [Par.hit, Par.elem_vals_filterMap, pv_noFilter, h]
theorem Par.hit_filterMapFil (p s fm f) (q : Val → Bool) :
    (Par.filterMapFil p s fm f).hit q = fun x =>
      match pv fm x with | none => false | some v => (fun y => pv f y && q y) v := by
  funext x
  cases h : pv fm x with
  | none => simp [Par.hit, Par.elem_vals_filterMapFil, h]
  | some v => cases hb : pv f v <;> simp [Par.hit, Par.elem_vals_filterMapFil, h, hb]
theorem Par.hit_flatMap (p s g) (q : Val → Bool) :
    (Par.flatMap p s g).hit q = fun x => (pvs g x).any (fun y => pv Par.noFilter y && q y) := by
  funext x; simp [Par.hit, Par.elem_vals_flatMap, pv_noFilter]
theorem Par.hit_flatMapFil (p s g f) (q : Val → Bool) :
    (Par.flatMapFil p s g f).hit q = fun x => (pvs g x).any (fun y => pv f y && q y) := by
  funext x; simp [Par.hit, Par.elem_vals_flatMapFil, List.any_filter]

theorem Par.core_find (P : Par) (ex : Exec) (q : Val → Bool) (h : P.OkFind ex q) :
    P.core ex (.find q) = .opt (P.stream.vals.find? q) := by
  unfold Par.OkFind at h
  cases P with
  | empty p s =>
    rw [Par.hit_empty] at h
    simp only [Par.core]
    rw [Kern.mapFilFind_eq p s ex _ _ h, seqMapFilFind_value, Par.stream_vals_empty, map_mapSelf]
  | map p s m =>
    rw [Par.hit_map] at h
    simp only [Par.core]
    rw [Kern.mapFilFind_eq p s ex _ _ h, seqMapFilFind_value, Par.stream_vals_map]
  | fil p s f =>
    rw [Par.hit_fil] at h
    simp only [Par.core]
    rw [Kern.mapFilFind_eq p s ex (pv Par.mapSelf) (fun y => pv f y && q y) h, seqMapFilFind_value, Par.stream_vals_fil, map_mapSelf,
      find_filter_and]
  | mapFil p s m f =>
    rw [Par.hit_mapFil] at h
    simp only [Par.core]
    rw [Kern.mapFilFind_eq p s ex (pv m) (fun y => pv f y && q y) h, seqMapFilFind_value, Par.stream_vals_mapFil,
      find_filter_and]
  | filterMap p s fm =>
    rw [Par.hit_filterMap] at h
    simp only [Par.core]
    rw [Kern.filtermapFilFind_eq p s ex _ _ h, seqFiltermapFilFind_value,
      Par.stream_vals_filterMap, find_noFilter_and]
  | filterMapFil p s fm f =>
    rw [Par.hit_filterMapFil] at h
    simp only [Par.core]
    rw [Kern.filtermapFilFind_eq p s ex _ _ h, seqFiltermapFilFind_value,
      Par.stream_vals_filterMapFil, find_filter_and]
  | flatMap p s g =>
    rw [Par.hit_flatMap] at h
    simp only [Par.core]
    rw [Kern.flatmapFilFind_eq p s ex _ _ h, Par.stream_vals_flatMap]
    exact congrArg _ (find_noFilter_and q _)
  | flatMapFil p s g f =>
    rw [Par.hit_flatMapFil] at h
    simp only [Par.core]
    rw [Kern.flatmapFilFind_eq p s ex _ _ h, Par.stream_vals_flatMapFil, find_filter_and]
    rfl

theorem Par.core_first_eq (P : Par) (ex : Exec) :
    P.core ex .first = P.core ex (.find fun _ => true) := by
  have e : ∀ f : Val → Bool, (fun x => f x && true) = f := by
    intro f; funext x; exact Bool.and_true _
  cases P <;> simp only [Par.core, e] <;> rfl

theorem Par.core_first (P : Par) (ex : Exec) (h : P.OkFind ex (fun _ => true)) :
    P.core ex .first = .opt P.stream.vals.head? := by
  rw [Par.core_first_eq, Par.core_find P ex _ h]
  congr 1
  cases P.stream.vals <;> rfl

/-- the types with the inherent index terminals (`Par.hasIdx` below) -/
def Par.idxTypes : Par → Bool
  | .empty .. | .map .. | .fil .. | .mapFil .. | .filterMapFil .. => true
  | _ => false

theorem specIdx_eq (P : Par) (q : Val → Bool) (F : Val × Nat → Option (Nat × Val))
    (hF : ∀ x i, ((P.elem x).vals.find? q).map (fun v => (i, v)) = F (x, i)) :
    specIdx P q = (P.src.items.zipIdx 0).findSome? F := by
  unfold specIdx
  congr 1
  funext a
  exact hF a.1 a.2

theorem Par.core_findIdx_idxTypes (P : Par) (ex : Exec) (q : Val → Bool) (hs : P.idxTypes = true)
    (h : P.OkFind ex q) : P.core ex (.findIdx q) = .optIdx (specIdx P q) := by
  unfold Par.OkFind at h
  cases P with
  | empty p s =>
    rw [Par.hit_empty] at h
    simp only [Par.core]
    rw [Kern.mapFilFind_eq p s ex _ _ h, seqMapFilFind_spec]
    refine congrArg _ (specIdx_eq (Par.empty p s) q _ fun x i => ?_).symm
    cases hq : q x <;> simp [Par.elem_vals_empty, pv_mapSelf, hq]
  | map p s m =>
    rw [Par.hit_map] at h
    simp only [Par.core]
    rw [Kern.mapFilFind_eq p s ex _ _ h, seqMapFilFind_spec]
    refine congrArg _ (specIdx_eq (Par.map p s m) q _ fun x i => ?_).symm
    cases hq : q (pv m x) <;> simp [Par.elem_vals_map, hq]
  | fil p s f =>
    rw [Par.hit_fil] at h
    simp only [Par.core]
    rw [Kern.mapFilFind_eq p s ex (pv Par.mapSelf) (fun y => pv f y && q y) h, seqMapFilFind_spec]
    refine congrArg _ (specIdx_eq (Par.fil p s f) q _ fun x i => ?_).symm
    cases hf : pv f x <;> cases hq : q x <;> simp [Par.elem_vals_fil, pv_mapSelf, hq, hf]
  | mapFil p s m f =>
    rw [Par.hit_mapFil] at h
    simp only [Par.core]
    rw [Kern.mapFilFind_eq p s ex (pv m) (fun y => pv f y && q y) h, seqMapFilFind_spec]
    refine congrArg _ (specIdx_eq (Par.mapFil p s m f) q _ fun x i => ?_).symm
    cases hf : pv f (pv m x) <;> cases hq : q (pv m x) <;> simp [Par.elem_vals_mapFil, hq, hf]
  | filterMapFil p s fm f =>
    rw [Par.hit_filterMapFil] at h
    simp only [Par.core]
    rw [Kern.filtermapFilFind_eq p s ex (pv fm) (fun y => pv f y && q y) h,
      seqFiltermapFilFind_spec]
    refine congrArg _ (specIdx_eq (Par.filterMapFil p s fm f) q _ fun x i => ?_).symm
    cases hm : pv fm x with
    | none => simp [Par.elem_vals_filterMapFil, hm]
    | some v =>
      cases hf : pv f v <;> cases hq : q v <;> simp [Par.elem_vals_filterMapFil, hm, hq, hf]
  | filterMap p s fm => cases hs
  | flatMap p s g => cases hs
  | flatMapFil p s g f => cases hs

/-- the `*_with_index` terminals exist on five types; where they exist they report the least
    source position with a matching output -/
theorem Par.core_findIdx (P : Par) (ex : Exec) (q : Val → Bool) (h : P.OkFind ex q) :
    P.core ex (.findIdx q) = .unsupported ∨ P.core ex (.findIdx q) = .optIdx (specIdx P q) := by
  cases hs : P.idxTypes with
  | true => exact Or.inr (Par.core_findIdx_idxTypes P ex q hs h)
  | false => cases P <;> first | exact Or.inl rfl | cases hs

theorem Par.core_firstIdx_eq (P : Par) (ex : Exec) :
    P.core ex .firstIdx = P.core ex (.findIdx fun _ => true) := by
  have e : ∀ f : Val → Bool, (fun x => f x && true) = f := by
    intro f; funext x; exact Bool.and_true _
  cases P <;> simp only [Par.core, e] <;> rfl

theorem Par.core_firstIdx (P : Par) (ex : Exec) (h : P.OkFind ex (fun _ => true)) :
    P.core ex .firstIdx = .unsupported ∨ P.core ex .firstIdx = .optIdx (specIdx P (fun _ => true)) := by
  rw [Par.core_firstIdx_eq]
  exact Par.core_findIdx P ex _ h

/-- which types have the inherent index terminals -/
def Par.hasIdx : Par → Bool
  | .empty .. | .map .. | .fil .. | .mapFil .. | .filterMapFil .. => true
  | _ => false

theorem Par.core_findIdx_supported (P : Par) (ex : Exec) (q : Val → Bool) (hs : P.hasIdx = true)
    (h : P.OkFind ex q) : P.core ex (.findIdx q) = .optIdx (specIdx P q) := by
  have e : P.idxTypes = P.hasIdx := by cases P <;> rfl
  exact Par.core_findIdx_idxTypes P ex q (e.trans hs) h

/-- the index a `*_with_index` terminal reports, read on the sequential stream: for the types
    that have these terminals every source element yields at most one output, and the reported
    index is the number of source elements strictly before the one producing the match -/
theorem specIdx_value (P : Par) (q : Val → Bool) :
    (specIdx P q).map (·.2) = P.stream.vals.find? q := by
  unfold specIdx
  rw [Par.stream_vals_aux]
  exact findSome_zipIdx_value (fun x => (P.elem x).vals) q _ 0

/-- the eager sites materialise exactly what `collect_vec` returns under any accepted execution
    of that stage: the model's use of the sequential evaluation there loses nothing -/
theorem Par.collectEager_eq_collectVec (P : Par) (ex : Exec) (h : P.Ok ex) :
    P.core ex (.collectInto .vec []) = .vals (P.collectEager).1.items := by
  rw [Par.core_collectInto P ex h]
  rfl

/-- `for_each f` = `map(f).count()`: the multiset of arguments of `f` is the sequential result.
    `P'` is the pipeline after the `map` site (which is an eager site for `ParFlatMapFilter`). -/
theorem Par.forEach_args (P : Par) (hfresh : ∀ e ∈ P.stream.log, e.stage ≠ stForEach) :
    let P' := (P.applyT (.map stForEach fun _ => 0)).1
    ((P'.stream.log.filter (·.stage == stForEach)).map (·.arg)).Perm P.stream.vals := by
  intro P'
  apply List.Perm.of_eq
  cases h : P.isEagerSite (.map stForEach fun _ => 0) with
  | false =>
    have e : P'.stream = P.stream.mapW (callW stForEach fun _ => 0) :=
      Par.applyT_lazy_stream P _ h
    rw [e]
    exact Prod.mapW_call_args _ _ _ hfresh
  | true =>
    have e : P'.stream = (Prod.ofList P.stream.vals).mapW (callW stForEach fun _ => 0) :=
      (Par.applyT_eager P _ h).1
    rw [e, Prod.mapW_call_args _ _ _ (by simp [Prod.log_ofList]), Prod.vals_ofList]

/-- the stage id of a transformation (setters have none) -/
def Op.stage? : Op → Option Nat
  | .map k _ | .filter k _ | .flatMap k _ | .filterMap k _ => some k
  | _ => none

theorem Op.applySeq_log_stage (op : Op) (S : Prod) :
    ∀ e ∈ (op.applySeq S).log, e ∈ S.log ∨ op.stage? = some e.stage := by
  intro e he
  rw [(Op.applySeq_log_perm op S).mem_iff, List.mem_append] at he
  rcases he with he | he
  · exact Or.inl he
  · cases op with
    | map k f => exact Or.inr (congrArg some (Prod.stage_mapW_ofList k f _ e he).symm)
    | filter k f => exact Or.inr (congrArg some (Prod.stage_filterW_ofList k f _ e he).symm)
    | flatMap k g => exact Or.inr (congrArg some (Prod.stage_flatMapW_ofList k g _ e he).symm)
    | filterMap k f => exact Or.inr (congrArg some (Prod.stage_filterMapW_ofList k f _ e he).symm)
    | numThreads v => simp [Op.applySeq, Prod.log_ofList] at he
    | chunkSize v => simp [Op.applySeq, Prod.log_ofList] at he

theorem foldl_applySeq_log_stage (ops : List Op) (S : Prod) :
    ∀ e ∈ (ops.foldl Op.applySeq S).log, e ∈ S.log ∨ ∃ op ∈ ops, op.stage? = some e.stage := by
  induction ops generalizing S with
  | nil => intro e he; exact Or.inl he
  | cons op ops ih =>
    intro e he
    rw [List.foldl_cons] at he
    rcases ih (op.applySeq S) e he with h | ⟨op', hm, hs⟩
    · rcases Op.applySeq_log_stage op S e h with h | h
      · exact Or.inl h
      · exact Or.inr ⟨op, List.mem_cons_self, h⟩
    · exact Or.inr ⟨op', List.mem_cons_of_mem _ hm, hs⟩

/-- every event of the std chain carries the stage id of one of its transformations -/
theorem seqStream_log_stages (src : List Val) (ops : List Op) :
    ∀ e ∈ (seqStream src ops).log, ∃ op ∈ ops, op.stage? = some e.stage := by
  intro e he
  rcases foldl_applySeq_log_stage ops (Prod.ofList src) e he with h | h
  · rw [Prod.log_ofList] at h; cases h
  · exact h

/-- hence so does every event of a built computation (construction effects and stream) -/
theorem build_log_stages (s : Src) (ops : List Op) :
    ∀ e ∈ (Par.build s ops).2 ++ (Par.build s ops).1.stream.log,
      ∃ op ∈ ops, op.stage? = some e.stage := by
  intro e he
  exact seqStream_log_stages s.items ops e ((build_log_perm s ops).mem_iff.1 he)

end OrxPar
