/- Lemmas about the spawner model (`Model/Spawn.lean`). -/
import OrxPar.Model.Spawn
namespace OrxPar

theorem inner_bound (r : Runner) (env) (k : Nat) (s : Sp) (hm : 1 ≤ r.maxThreads)
    (h : s.workers.length ≤ r.maxThreads - 1) :
    (inner r env k s).1.workers.length ≤ r.maxThreads - 1 := by
  induction k generalizing s with
  | zero => simpa [inner] using h
  | succ k ih =>
    unfold inner
    split
    · rename_i hs
      apply ih
      simp only [Runner.doSpawn] at hs
      split at hs
      · simp at hs
      · simp; omega
    · simpa using h

theorem outer_bound (r : Runner) (lag) (env) (f : Nat) (s s' : Sp) (hm : 1 ≤ r.maxThreads)
    (h : s.workers.length ≤ r.maxThreads - 1) (hr : outer r lag env f s = some s') :
    s'.workers.length ≤ r.maxThreads - 1 := by
  induction f generalizing s with
  | zero => simp [outer] at hr
  | succ f ih =>
    unfold outer at hr
    have hb := inner_bound r env lag s hm h
    split at hr
    · rename_i s1 he
      simp at hr; subst hr
      rw [he] at hb; exact hb
    · rename_i s1 he
      rw [he] at hb
      split at hr
      · simp at hr; subst hr; exact hb
      · exact ih { s1 with chunk := _, calls := s1.calls + 1 } hb hr

/-- C08 (spawn bound): whatever the workers' progress looks like to the spawning thread
    (any stream of `has_more()` observations), at most `maxThreads` workers are spawned -/
theorem spawn_bound (r : Runner) (lag) (env) (fuel) (s : Sp) (hm : 1 ≤ r.maxThreads)
    (hr : spRunFuel r lag env fuel = some s) : s.workers.length ≤ r.maxThreads := by
  unfold spRunFuel at hr
  cases ho : outer r lag env fuel ⟨[], r.chunk.inner, 0⟩ with
  | none => simp [ho] at hr
  | some s0 =>
    simp [ho] at hr; subst hr
    have := outer_bound r lag env fuel _ s0 hm (by simp) ho
    simp; omega

/-- the loop needs at most `maxThreads` periods when `lag ≥ 1` (so `fuel = maxThreads + 1` always suffices) -/
theorem inner_progress (r : Runner) (env) (k : Nat) (s : Sp) :
    (inner r env k s).2 = false → (inner r env k s).1.workers.length = s.workers.length + k := by
  induction k generalizing s with
  | zero => intro _; simp [inner]
  | succ k ih =>
    unfold inner
    split
    · intro h; rw [ih _ h]; simp; omega
    · simp

theorem outer_terminates (r : Runner) (lag) (hl : 1 ≤ lag) (env) (f : Nat) (s : Sp)
    (hf : r.maxThreads - 1 - s.workers.length < f) : (outer r lag env f s).isSome := by
  induction f generalizing s with
  | zero => omega
  | succ f ih =>
    unfold outer
    split
    · simp
    · rename_i s1 he
      have hp := inner_progress r env lag s (by rw [he])
      rw [he] at hp; simp only at hp
      split
      · simp
      · rename_i c hc
        apply ih
        simp only
        -- next_chunk_size returned `some`, hence s1.workers.length < maxThreads - 1
        have : s1.workers.length < r.maxThreads - 1 := by
          unfold Runner.nextChunkSize at hc
          split at hc
          · simp at hc
          · split at hc
            · simp at hc
            · omega
          · split at hc
            · simp at hc
            · omega
        omega

/-- C11 (workers): under `Exact c` every worker ever spawned is handed `c` -/
theorem inner_exact (r : Runner) (env) (c : Nat) (k : Nat) (s : Sp)
    (h : s.chunk = c ∧ ∀ w ∈ s.workers, w = c) :
    (inner r env k s).1.chunk = c ∧ ∀ w ∈ (inner r env k s).1.workers, w = c := by
  induction k generalizing s with
  | zero => simpa [inner] using h
  | succ k ih =>
    unfold inner
    split
    · apply ih
      refine ⟨h.1, ?_⟩
      intro w hw
      simp only [List.mem_append, List.mem_singleton] at hw
      rcases hw with hw | hw
      · exact h.2 w hw
      · rw [hw]; exact h.1
    · simpa using h

theorem nextChunk_exact (r : Runner) (c n : Nat) (h : HasMore) (hc : r.chunk = .exact c) (x : Nat)
    (hx : r.nextChunkSize n h = some x) : x = c := by
  unfold Runner.nextChunkSize at hx
  split at hx
  · simp at hx
  · split at hx
    · simp at hx
    · simp [hc, Resolved.inner] at hx; omega
  · split at hx
    · simp at hx
    · simp [hc] at hx; omega

theorem outer_exact (r : Runner) (lag) (env) (c : Nat) (hc : r.chunk = .exact c) (f : Nat) (s s' : Sp)
    (h : s.chunk = c ∧ ∀ w ∈ s.workers, w = c) (hr : outer r lag env f s = some s') :
    s'.chunk = c ∧ ∀ w ∈ s'.workers, w = c := by
  induction f generalizing s with
  | zero => simp [outer] at hr
  | succ f ih =>
    unfold outer at hr
    have hb := inner_exact r env c lag s h
    split at hr
    · rename_i s1 he
      simp at hr; subst hr; rw [he] at hb; exact hb
    · rename_i s1 he
      rw [he] at hb
      split at hr
      · simp at hr; subst hr; exact hb
      · rename_i x hx
        have := nextChunk_exact r c _ _ hc x hx
        exact ih { s1 with chunk := x, calls := s1.calls + 1 } ⟨this, hb.2⟩ hr

theorem workers_exact (r : Runner) (lag) (env) (fuel) (c : Nat) (hc : r.chunk = .exact c) (s : Sp)
    (hr : spRunFuel r lag env fuel = some s) : ∀ w ∈ s.workers, w = c := by
  unfold spRunFuel at hr
  cases ho : outer r lag env fuel ⟨[], r.chunk.inner, 0⟩ with
  | none => simp [ho] at hr
  | some s0 =>
    simp [ho] at hr; subst hr
    have := outer_exact r lag env c hc fuel _ s0 ⟨by simp [hc, Resolved.inner], by simp⟩ ho
    intro w hw
    simp only [List.mem_append, List.mem_singleton] at hw
    rcases hw with hw | hw
    · exact this.2 w hw
    · rw [hw]; exact this.1


theorem spRun_isSome (r : Runner) (lag) (hl : 1 ≤ lag) (env) : (spRun r lag env).isSome := by
  unfold spRun spRunFuel
  have := outer_terminates r lag hl env (r.maxThreads + 1) ⟨[], r.chunk.inner, 0⟩ (by simp; omega)
  cases h : outer r lag env (r.maxThreads + 1) ⟨[], r.chunk.inner, 0⟩ with
  | none => simp [h] at this
  | some s => simp

end OrxPar
