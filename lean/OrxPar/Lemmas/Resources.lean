/- Ownership ledgers of the unsafe protocols (`Model/Resources.lean`). -/
import OrxPar.Model.Resources
import OrxPar.Lemmas.Merge
import OrxPar.Lemmas.ResHeap
import OrxPar.Lemmas.ResBag
import OrxPar.Lemmas.ResSrc
namespace OrxPar
namespace Res
open K

/-- the workers' vectors as memory: every cell initialised with its token -/
def cvecs (tv : List (List (Key × Val))) : List CVec := tv.map fun v => v.map fun p => (p.1, Cell.init p.2)

/-- strictly increasing keys inside a vector -/
def SortedVec (v : List (Key × Val)) : Prop := v.Pairwise fun a b => Key.lt a.1 b.1 = true

/-- **heap sort ledger.** With every vector strictly sorted and all keys distinct, the cell-level
    loop reads every cell exactly once, in the order of the abstract k-way merge, no cell is read
    twice or left behind, and after `set_len(0)` dropping the vectors drops nothing. -/
theorem heapSort_ledger (pre : List Val) (tv : List (List (Key × Val)))
    (hs : ∀ v ∈ tv, SortedVec v) (hd : (tv.flatten.map (·.1)).Nodup) :
    heapSort true pre (cvecs tv) = { out := heapSortInto pre tv, dropped := [], leaked := [], bad := 0 } := by
  have _ := hs -- not needed: distinct keys alone make `selMin` and `popMin` agree
  have hcv : cvecs tv = tv.map cv := rfl
  have hf := loop_final tv hd
  dsimp only at hf
  obtain ⟨h1, h2, h3, _⟩ := hf
  unfold heapSort
  rw [hcv]
  simp only [if_true]
  rw [h1, h2, held_eq_nil h3]
  rfl

/-- the tokens handed to the caller are exactly the existing contents plus every produced token -/
theorem heapSort_out_perm (pre : List Val) (tv : List (List (Key × Val)))
    (hs : ∀ v ∈ tv, SortedVec v) (hd : (tv.flatten.map (·.1)).Nodup) :
    (heapSort true pre (cvecs tv)).out.Perm (pre ++ tv.flatten.map (·.2)) := by
  rw [heapSort_ledger pre tv hs hd]
  show (heapSortInto pre tv).Perm _
  unfold heapSortInto
  have hs' : ∀ v ∈ tv, Srt v := by
    intro v hv
    refine (hs v hv).imp ?_
    intro a b hab
    exact (keyLt_iff _ _).1 hab
  have := (kmerge_perm_sorted (tv.map List.length).sum tv
    (by rw [List.length_flatten]; exact Nat.le_refl _) hs').1
  exact List.Perm.append_left pre (this.map (·.2))

/-- why `set_len(0)` is there: without it every element that was read is dropped again -/
theorem heapSort_without_setLen0_bad (pre : List Val) (tv : List (List (Key × Val)))
    (hs : ∀ v ∈ tv, SortedVec v) (hd : (tv.flatten.map (·.1)).Nodup) (hne : tv.flatten ≠ []) :
    0 < (heapSort false pre (cvecs tv)).bad := by
  have _ := hs -- not needed
  have hcv : cvecs tv = tv.map cv := rfl
  have hf := loop_final tv hd
  dsimp only at hf
  obtain ⟨_, _, h3, h4⟩ := hf
  unfold heapSort
  rw [hcv]
  simp only [Bool.false_eq_true, if_false]
  generalize (HS.loop _ _).vecs.flatten.map (·.2) = cells at h3 h4 ⊢
  cases cells with
  | nil =>
    exfalso
    apply hne
    exact List.length_eq_zero_iff.1 h4.symm
  | cons c cs =>
    have hc : c = Cell.moved := h3 c List.mem_cons_self
    subst hc
    simp [dropCell]
    omega

/-! ### ordered bag -/

def Bag.writes (b : Bag) (ws : List (Nat × Nat)) : Bag := ws.foldl (fun b w => b.write w.1 w.2) b

/-- **bag ledger, normal completion.** the writes of an accepted execution — every position
    `pre.length + i` exactly once with token `toks[i]`, in any order — give back `pre ++ toks`,
    nothing leaked, no bad event -/
theorem bag_finish_ledger (pre toks : List Nat) (extra : Nat) (he : toks.length ≤ extra)
    (ws : List (Nat × Nat))
    (hperm : ws.Perm ((toks.zipIdx pre.length).map fun p => (p.2, p.1))) :
    ((Bag.new pre extra).writes ws).finish
      = some { out := pre ++ toks, dropped := [], leaked := [], bad := 0 } := by
  exact Bag.finish_wr pre toks extra he ws hperm

/-- **bag ledger, unwinding (guarded).** whatever subset of positions inside the capacity has
    been written when a closure panics (other workers may have written any other positions),
    unwinding with the bag in `ManuallyDrop` drops nothing and produces no bad event -/
theorem bag_unwind_guarded (pre : List Nat) (extra : Nat) (ws : List (Nat × Nat))
    (hin : ∀ w ∈ ws, w.1 < pre.length + extra) :
    ((Bag.new pre extra).writes ws).unwindGuarded.bad = 0 ∧
    ((Bag.new pre extra).writes ws).unwindGuarded.dropped = [] := by
  refine ⟨?_, rfl⟩
  have := (Bag.wr_in_cap ws (Bag.new pre extra) (by
    intro w hw
    rw [Bag.new_cells]
    simpa using hin w hw)).1
  exact this

/-- the pinned behaviour: a gap makes the bag's drop touch never-written cells -/
theorem bag_unwind_unguarded_witness :
    0 < ((Bag.new [] 3).writes [(2, 7)]).unwindUnguarded.bad := by
  decide

/-- … for every execution that panics with a gap: some position below the maximal written one
    (or below the capacity) was never written -/
theorem bag_unwind_unguarded_bad (pre : List Nat) (extra : Nat) (ws : List (Nat × Nat))
    (hin : ∀ w ∈ ws, pre.length ≤ w.1 ∧ w.1 < pre.length + extra)
    (hnd : (ws.map (·.1)).Nodup) (hgap : ws.length < extra) (hne : ws ≠ [])
    (hmis : ((Bag.new pre extra).writes ws).numPushed ≠ ((Bag.new pre extra).writes ws).len) :
    0 < ((Bag.new pre extra).writes ws).unwindUnguarded.bad := by
  have _ := hne -- not needed: `hgap` alone leaves a never-written cell below the capacity
  exact Bag.unguarded_wr pre extra ws hin hnd hgap hmis

/-! ### owning source -/

inductive SrcOp
  | pull (c : Nat)      -- reserve `c` positions, take the ones that exist
  | skip                -- `skip_to_end`

def VecSrc.apply (st : VecSrc × List Nat) : SrcOp → VecSrc × List Nat
  | .pull c =>
    let (s, start) := st.1.reserve c
    let n := Nat.min c (s.cells.length - start)
    let (s', ts) := s.take start n
    (s', st.2 ++ ts)
  | .skip => (st.1.skipToEnd, st.2)

theorem Inv.apply {toks : List Nat} {st : VecSrc × List Nat} (h : Inv toks st.1 st.2) (op : SrcOp) :
    Inv toks (VecSrc.apply st op).1 (VecSrc.apply st op).2 := by
  cases op with
  | pull c => exact h.pull c
  | skip => exact h.skip

theorem Inv.foldl {toks : List Nat} (ops : List SrcOp) : ∀ (st : VecSrc × List Nat),
    Inv toks st.1 st.2 → Inv toks (ops.foldl VecSrc.apply st).1 (ops.foldl VecSrc.apply st).2 := by
  induction ops with
  | nil => intro st h; exact h
  | cons op ops ih => intro st h; exact ih _ (h.apply op)

/-- **source ledger.** for every sequence of pulls (any sizes) and `skip_to_end` calls, followed
    by the iterator's drop: every token was either taken by exactly one pull or dropped exactly
    once, nothing remains, no bad event -/
theorem src_ledger (toks : List Nat) (ops : List SrcOp) :
    let st := ops.foldl VecSrc.apply (VecSrc.new toks, [])
    let s' := st.1.drop
    (st.2 ++ s'.dropped).Perm toks ∧ s'.bad = 0 ∧ held s'.cells = [] := by
  intro st s'
  exact (Inv.foldl ops (VecSrc.new toks, []) (Inv.init toks)).drop

/-- non-vacuity: two pulls, an early exit, the drop -/
example :
    let st := [SrcOp.pull 2, .pull 2, .skip, .pull 2].foldl VecSrc.apply (VecSrc.new [10, 11, 12, 13, 14, 15, 16], [])
    st.2 = [10, 11, 12, 13] ∧ st.1.drop.dropped = [14, 15, 16] ∧ st.1.drop.bad = 0 := by
  decide

end Res
end OrxPar
