/- The k-way merge of strictly key-sorted vectors is a key-sorted permutation of their union. -/
import OrxPar.Model.Accept
namespace OrxPar
open K

/-- strict lexicographic order on the keys of keyed values -/
def KLt (a b : Key × Val) : Prop := a.1.1 < b.1.1 ∨ (a.1.1 = b.1.1 ∧ a.1.2 < b.1.2)
/-- non-strict lexicographic order on the keys of keyed values -/
def KLe (a b : Key × Val) : Prop := a.1.1 < b.1.1 ∨ (a.1.1 = b.1.1 ∧ a.1.2 ≤ b.1.2)

theorem Key.le_iff (a b : Key) :
    Key.le a b = true ↔ (a.1 < b.1 ∨ (a.1 = b.1 ∧ a.2 ≤ b.2)) := by
  simp [Key.le]

theorem KLe_of_le {a b : Key × Val} (h : Key.le a.1 b.1 = true) : KLe a b :=
  (Key.le_iff _ _).1 h

theorem KLt_of_not_le {a b : Key × Val} (h : ¬ Key.le a.1 b.1 = true) : KLt b a := by
  rw [Key.le_iff] at h
  unfold KLt
  omega

theorem KLt.le {a b : Key × Val} (h : KLt a b) : KLe a b := by
  unfold KLt at h; unfold KLe; omega

theorem KLe.trans {a b c : Key × Val} (h1 : KLe a b) (h2 : KLe b c) : KLe a c := by
  unfold KLe at *; omega

theorem KLt.trans_le {a b c : Key × Val} (h1 : KLt a b) (h2 : KLe b c) : KLe a c := by
  unfold KLe KLt at *; omega

/-- strictly sorted by key -/
def Srt (v : List (Key × Val)) : Prop := v.Pairwise KLt

theorem popMin_none {vs : List (List (Key × Val))} (h : popMin vs = none) : vs.flatten = [] := by
  fun_induction popMin vs <;> simp_all
  assumption

theorem popMin_perm {vs : List (List (Key × Val))} {x vs'} (h : popMin vs = some (x, vs')) :
    (x :: vs'.flatten).Perm vs.flatten := by
  fun_induction popMin vs generalizing x vs' with
  | case1 => simp at h
  | case2 vs hn ih => simp at h
  | case3 vs y vs1 hp ih =>
    simp at h; obtain ⟨rfl, rfl⟩ := h
    simpa using ih hp
  | case4 x0 v vs hn =>
    simp at h; obtain ⟨rfl, rfl⟩ := h; simp
  | case5 x0 v vs y vs1 hp hle ih =>
    simp at h; obtain ⟨rfl, rfl⟩ := h; simp
  | case6 x0 v vs y vs1 hp hlt ih =>
    simp at h; obtain ⟨rfl, rfl⟩ := h
    simp only [List.flatten_cons, List.cons_append]
    refine (List.Perm.swap _ _ _).trans (List.Perm.cons _ ?_)
    exact List.perm_middle.symm.trans (List.Perm.append_left v (ih hp))

theorem popMin_mem {vs : List (List (Key × Val))} {y vs1} (h : popMin vs = some (y, vs1)) :
    ∀ z, z ∈ vs.flatten ↔ (z = y ∨ z ∈ vs1.flatten) := by
  intro z
  have := (popMin_perm h).mem_iff (a := z)
  simp only [List.mem_cons] at this
  exact this.symm

/-- every vector sorted ⇒ the popped element is ≤ everything else -/
theorem popMin_min {vs : List (List (Key × Val))} {x vs'} (h : popMin vs = some (x, vs'))
    (hs : ∀ v ∈ vs, Srt v) : ∀ y ∈ vs'.flatten, KLe x y := by
  fun_induction popMin vs generalizing x vs' with
  | case1 => simp at h
  | case2 vs hn ih => simp at h
  | case3 vs y vs1 hp ih =>
    simp at h; obtain ⟨rfl, rfl⟩ := h
    have := ih hp (fun v hv => hs v (by simp [hv]))
    simpa using this
  | case4 x0 v vs hn =>
    simp at h; obtain ⟨rfl, rfl⟩ := h
    have h0 := hs _ (List.mem_cons_self)
    have hnil := popMin_none hn
    intro y hy
    simp only [List.flatten_cons, List.mem_append, hnil, List.not_mem_nil, or_false] at hy
    exact (List.rel_of_pairwise_cons h0 hy).le
  | case5 x0 v vs y vs1 hp hle ih =>
    simp at h; obtain ⟨rfl, rfl⟩ := h
    have h0 := hs _ (List.mem_cons_self)
    have ih' := ih hp (fun v hv => hs v (by simp [hv]))
    intro z hz
    simp only [List.flatten_cons, List.mem_append] at hz
    rcases hz with hz | hz
    · exact (List.rel_of_pairwise_cons h0 hz).le
    · rcases (popMin_mem hp z).1 hz with rfl | hz
      · exact KLe_of_le hle
      · exact (KLe_of_le hle).trans (ih' z hz)
  | case6 x0 v vs y vs1 hp hlt ih =>
    simp at h; obtain ⟨rfl, rfl⟩ := h
    have ih' := ih hp (fun v hv => hs v (by simp [hv]))
    have h0 := hs _ (List.mem_cons_self)
    intro z hz
    simp only [List.flatten_cons, List.mem_append, List.mem_cons] at hz
    have hlt' : KLt y x0 := KLt_of_not_le hlt
    rcases hz with (rfl | hz) | hz
    · exact hlt'.le
    · exact hlt'.trans_le (List.rel_of_pairwise_cons h0 hz).le
    · exact ih' z hz

theorem popMin_sorted {vs : List (List (Key × Val))} {x vs'} (h : popMin vs = some (x, vs'))
    (hs : ∀ v ∈ vs, Srt v) : ∀ v ∈ vs', Srt v := by
  fun_induction popMin vs generalizing x vs' with
  | case1 => simp at h
  | case2 vs hn ih => simp at h
  | case3 vs y vs1 hp ih =>
    simp at h; obtain ⟨rfl, rfl⟩ := h
    intro v hv
    simp only [List.mem_cons] at hv
    rcases hv with rfl | hv
    · exact List.Pairwise.nil
    · exact ih hp (fun v hv => hs v (by simp [hv])) v hv
  | case4 x0 v vs hn =>
    simp at h; obtain ⟨rfl, rfl⟩ := h
    intro w hw
    simp only [List.mem_cons] at hw
    rcases hw with rfl | hw
    · exact (List.pairwise_cons.1 (hs _ List.mem_cons_self)).2
    · exact hs w (by simp [hw])
  | case5 x0 v vs y vs1 hp hle ih =>
    simp at h; obtain ⟨rfl, rfl⟩ := h
    intro w hw
    simp only [List.mem_cons] at hw
    rcases hw with rfl | hw
    · exact (List.pairwise_cons.1 (hs _ List.mem_cons_self)).2
    · exact hs w (by simp [hw])
  | case6 x0 v vs y vs1 hp hlt ih =>
    simp at h; obtain ⟨rfl, rfl⟩ := h
    intro w hw
    simp only [List.mem_cons] at hw
    rcases hw with rfl | hw
    · exact hs _ List.mem_cons_self
    · exact ih hp (fun v hv => hs v (by simp [hv])) w hw

/-- the merged output is a permutation of all pairs, and sorted (non-strictly) by key -/
theorem kmerge_perm_sorted (n : Nat) (vs : List (List (Key × Val))) (hn : vs.flatten.length ≤ n)
    (hs : ∀ v ∈ vs, Srt v) :
    (kmergeFuel n vs).Perm vs.flatten ∧ (kmergeFuel n vs).Pairwise KLe := by
  induction n generalizing vs with
  | zero =>
    have : vs.flatten = [] := List.length_eq_zero_iff.1 (Nat.le_zero.1 hn)
    simp [kmergeFuel, this]
  | succ n ih =>
    unfold kmergeFuel
    split
    · rename_i hnone
      simp [popMin_none hnone]
    · rename_i x vs' hsome
      have hp := popMin_perm hsome
      have hlen : vs'.flatten.length ≤ n := by
        have := hp.length_eq
        simp only [List.length_cons] at this
        omega
      obtain ⟨ihp, ihs⟩ := ih vs' hlen (popMin_sorted hsome hs)
      refine ⟨(List.Perm.cons x ihp).trans hp, List.pairwise_cons.2 ⟨?_, ihs⟩⟩
      intro y hy
      exact popMin_min hsome hs y (ihp.mem_iff.1 hy)

/-- in a strictly key-sorted list, the key determines the element -/
theorem Srt.eq_of_key_eq {l : List (Key × Val)} (hl : Srt l) {a b : Key × Val}
    (ha : a ∈ l) (hb : b ∈ l) (h1 : a.1.1 = b.1.1) (h2 : a.1.2 = b.1.2) : a = b := by
  induction l with
  | nil => simp at ha
  | cons c l ih =>
    have hc := List.pairwise_cons.1 hl
    simp only [List.mem_cons] at ha hb
    rcases ha with rfl | ha <;> rcases hb with rfl | hb
    · rfl
    · have := hc.1 _ hb; unfold KLt at this; omega
    · have := hc.1 _ ha; unfold KLt at this; omega
    · exact ih hc.2 ha hb

/-- a key-sorted permutation of a strictly key-sorted list is that list -/
theorem eq_of_perm_sorted {l₁ l₂ : List (Key × Val)} (hp : l₁.Perm l₂)
    (h1 : l₁.Pairwise KLe) (h2 : Srt l₂) : l₁ = l₂ := by
  refine List.Perm.eq_of_pairwise ?_ h1 (h2.imp KLt.le) hp
  intro a b ha hb hab hba
  have ha' := hp.mem_iff.1 ha
  unfold KLe at hab hba
  exact h2.eq_of_key_eq ha' hb (by omega) (by omega)

/-- the merge of strictly sorted vectors whose union is a permutation of a strictly sorted list
    `all` delivers `all` -/
theorem heapSortInto_eq (pre : List Val) (vs : List (List (Key × Val))) (all : List (Key × Val))
    (hs : ∀ v ∈ vs, Srt v) (hp : vs.flatten.Perm all) (hall : Srt all) :
    heapSortInto pre vs = pre ++ all.map (·.2) := by
  unfold heapSortInto
  obtain ⟨h1, h2⟩ := kmerge_perm_sorted (vs.map List.length).sum vs
    (by rw [List.length_flatten]; exact Nat.le_refl _) hs
  rw [eq_of_perm_sorted (h1.trans hp) h2 hall]

end OrxPar
