/- Helper lemmas for `BagFind.lean`: shape of `idxElems`, the per-worker partition, the
   `minIdx` fold, `bagFinish` read-out. -/
import OrxPar.Model.Accept
namespace OrxPar
open K

namespace Aux

/-! ### `idxElems` -/

theorem idxElems_nil : idxElems [] = [] := rfl

theorem idxElems_cons (c : Chunk) (cs : List Chunk) :
    idxElems (c :: cs) = (c.items.zipIdx c.start).map (fun p => (p.2, p.1)) ++ idxElems cs := by
  simp [idxElems]

theorem idxElems_of_tiles {cs : List Chunk} {p : Nat} {ys : List Val} (h : Tiles cs p ys) :
    idxElems cs = (ys.zipIdx p).map fun q => (q.2, q.1) := by
  induction cs generalizing p ys with
  | nil =>
    have : ys = [] := h
    subst this; rfl
  | cons c cs ih =>
    obtain ⟨hs, _, rest, rfl, hr⟩ := h
    rw [idxElems_cons, ih hr, List.zipIdx_append, List.map_append, hs]

theorem idxElems_filter_sublist (P : Chunk → Bool) (asg : List Chunk) :
    (idxElems (asg.filter P)).Sublist (idxElems asg) := by
  induction asg with
  | nil => exact List.Sublist.refl _
  | cons c cs ih =>
    rw [List.filter_cons]
    split
    · rw [idxElems_cons, idxElems_cons]
      exact List.Sublist.append (List.Sublist.refl _) ih
    · rw [idxElems_cons]
      exact List.sublist_append_of_sublist_right ih

theorem mem_idxElems_filter {asg : List Chunk} {order : List Nat}
    (hall : ∀ c ∈ asg, c.tid ∈ order) {p : Nat × Val} (hp : p ∈ idxElems asg) :
    ∃ t ∈ order, p ∈ idxElems (asg.filter (·.tid == t)) := by
  unfold idxElems at hp
  obtain ⟨c, hc, hpc⟩ := List.mem_flatMap.1 hp
  refine ⟨c.tid, hall c hc, ?_⟩
  unfold idxElems
  exact List.mem_flatMap.2 ⟨c, List.mem_filter.2 ⟨hc, by simp⟩, hpc⟩

theorem pairwise_zipIdx_swap (ys : List Val) (p : Nat) :
    ((ys.zipIdx p).map fun q => ((q.2, q.1) : Nat × Val)).Pairwise (fun a b => a.1 < b.1) := by
  induction ys generalizing p with
  | nil => simp
  | cons y ys ih =>
    rw [List.zipIdx_cons, List.map_cons, List.pairwise_cons]
    refine ⟨?_, ih (p + 1)⟩
    intro b hb
    obtain ⟨q, hq, rfl⟩ := List.mem_map.1 hb
    have := List.le_snd_of_mem_zipIdx hq
    show p < q.2
    omega

/-! ### partition of the chunks among the workers -/

theorem flatMap_congr' {α β : Type} {l : List α} {f g : α → List β} (h : ∀ a ∈ l, f a = g a) :
    l.flatMap f = l.flatMap g := by
  induction l with
  | nil => rfl
  | cons a l ih =>
    rw [List.flatMap_cons, List.flatMap_cons, h a List.mem_cons_self,
      ih (fun b hb => h b (List.mem_cons_of_mem _ hb))]

theorem flatMap_ite_perm {β : Type} (G : Nat → List β) (X : List β) (t₀ : Nat) (order : List Nat)
    (hnd : order.Nodup) (hm : t₀ ∈ order) :
    (order.flatMap fun t => if (t₀ == t) = true then X ++ G t else G t).Perm
      (X ++ order.flatMap G) := by
  induction order with
  | nil => simp at hm
  | cons t ts ih =>
    rw [List.nodup_cons] at hnd
    rw [List.flatMap_cons, List.flatMap_cons]
    by_cases h : t₀ = t
    · subst h
      have e : (ts.flatMap fun t => if (t₀ == t) = true then X ++ G t else G t) = ts.flatMap G := by
        apply flatMap_congr'
        intro t' ht'
        have : (t₀ == t') = false := by
          simp; intro h; exact hnd.1 (h ▸ ht')
        simp [this]
      rw [e]; simp
    · have hm' : t₀ ∈ ts := by
        rcases List.mem_cons.1 hm with h' | h'
        · exact absurd h' h
        · exact h'
      have hb : (t₀ == t) = false := by simp [h]
      simp only [hb]
      have := ih hnd.2 hm'
      refine (List.Perm.append_left (G t) this).trans ?_
      rw [← List.append_assoc, ← List.append_assoc]
      exact List.Perm.append_right _ List.perm_append_comm

theorem flatMap_filter_perm {β : Type} (F : Chunk → List β) (asg : List Chunk) (order : List Nat)
    (hnd : order.Nodup) (hall : ∀ c ∈ asg, c.tid ∈ order) :
    (order.flatMap fun t => (asg.filter (·.tid == t)).flatMap F).Perm (asg.flatMap F) := by
  induction asg with
  | nil => simp
  | cons c cs ih =>
    have ih' := ih (fun c hc => hall c (List.mem_cons_of_mem _ hc))
    have hc := hall c List.mem_cons_self
    rw [List.flatMap_cons]
    refine List.Perm.trans ?_ (List.Perm.append_left (F c) ih')
    refine List.Perm.trans (List.Perm.of_eq ?_)
      (flatMap_ite_perm (fun t => (cs.filter (·.tid == t)).flatMap F) (F c) c.tid order hnd hc)
    apply flatMap_congr'
    intro t _
    rw [List.filter_cons]
    split <;> simp

/-! ### folding `maybeReduce minIdx` over the workers' answers -/

/-- an answer that cannot displace `r`: nothing, `r` itself, or something with a larger index -/
def Good (r : Nat × Val) (o : Option (Nat × Val)) : Prop :=
  o = none ∨ o = some r ∨ ∃ r', o = some r' ∧ r.1 < r'.1

theorem good_op {r : Nat × Val} {a b : Option (Nat × Val)} (ha : Good r a) (hb : Good r b) :
    Good r (maybeReduce minIdx a b) := by
  rcases ha with rfl | rfl | ⟨a', rfl, ha'⟩ <;> rcases hb with rfl | rfl | ⟨b', rfl, hb'⟩
  · exact Or.inl rfl
  · exact Or.inr (Or.inl rfl)
  · exact Or.inr (Or.inr ⟨b', rfl, hb'⟩)
  · exact Or.inr (Or.inl rfl)
  · refine Or.inr (Or.inl ?_); simp [maybeReduce, minIdx]
  · refine Or.inr (Or.inl ?_)
    have : ¬ b'.1 < r.1 := by omega
    simp [maybeReduce, minIdx, this]
  · exact Or.inr (Or.inr ⟨a', rfl, ha'⟩)
  · refine Or.inr (Or.inl ?_); simp [maybeReduce, minIdx, ha']
  · refine Or.inr (Or.inr ?_)
    simp only [maybeReduce, minIdx]
    split
    · exact ⟨b', rfl, hb'⟩
    · exact ⟨a', rfl, ha'⟩

theorem op_left {r : Nat × Val} {b : Option (Nat × Val)} (hb : Good r b) :
    maybeReduce minIdx (some r) b = some r := by
  rcases hb with rfl | rfl | ⟨b', rfl, hb'⟩
  · rfl
  · simp [maybeReduce, minIdx]
  · have : ¬ b'.1 < r.1 := by omega
    simp [maybeReduce, minIdx, this]

theorem op_right {r : Nat × Val} {a : Option (Nat × Val)} (ha : Good r a) :
    maybeReduce minIdx a (some r) = some r := by
  rcases ha with rfl | rfl | ⟨a', rfl, ha'⟩
  · rfl
  · simp [maybeReduce, minIdx]
  · simp [maybeReduce, minIdx, ha']

theorem foldl_good {r : Nat × Val} (os : List (Option (Nat × Val))) (acc : Option (Nat × Val))
    (hacc : Good r acc) (hos : ∀ o ∈ os, Good r o) :
    Good r (os.foldl (maybeReduce minIdx) acc) ∧
      ((acc = some r ∨ some r ∈ os) → os.foldl (maybeReduce minIdx) acc = some r) := by
  induction os generalizing acc with
  | nil =>
    refine ⟨hacc, ?_⟩
    rintro (h | h)
    · exact h
    · simp at h
  | cons o os ih =>
    have ho := hos o List.mem_cons_self
    have hos' : ∀ o ∈ os, Good r o := fun o h => hos o (List.mem_cons_of_mem _ h)
    have := ih (maybeReduce minIdx acc o) (good_op hacc ho) hos'
    rw [List.foldl_cons]
    refine ⟨this.1, ?_⟩
    rintro (h | h)
    · subst h
      exact this.2 (Or.inl (op_left ho))
    · rcases List.mem_cons.1 h with h' | h'
      · subst h'
        exact this.2 (Or.inl (op_right hacc))
      · exact this.2 (Or.inr h')

theorem reduce_good {r : Nat × Val} (os : List (Option (Nat × Val))) (hos : ∀ o ∈ os, Good r o)
    (hm : some r ∈ os) : (reduceList (maybeReduce minIdx) os).getD none = some r := by
  cases os with
  | nil => simp at hm
  | cons x xs =>
    show xs.foldl (maybeReduce minIdx) x = some r
    refine (foldl_good xs x (hos x List.mem_cons_self)
      (fun o h => hos o (List.mem_cons_of_mem _ h))).2 ?_
    rcases List.mem_cons.1 hm with h | h
    · exact Or.inl h.symm
    · exact Or.inr h

theorem foldl_none (os : List (Option (Nat × Val))) (hos : ∀ o ∈ os, o = none) :
    os.foldl (maybeReduce minIdx) none = none := by
  induction os with
  | nil => rfl
  | cons o os ih =>
    have := hos o List.mem_cons_self
    subst this
    exact ih (fun o h => hos o (List.mem_cons_of_mem _ h))

theorem reduce_none (os : List (Option (Nat × Val))) (hos : ∀ o ∈ os, o = none) :
    (reduceList (maybeReduce minIdx) os).getD none = none := by
  cases os with
  | nil => rfl
  | cons x xs =>
    have := hos x List.mem_cons_self
    subst this
    exact foldl_none xs (fun o h => hos o (List.mem_cons_of_mem _ h))

/-! ### the least hit wins -/

theorem find_generic (φ : Nat × Val → Option (Nat × Val))
    (hφ : ∀ p r, φ p = some r → r.1 = p.1) (asg : List Chunk) (order : List Nat)
    (hpw : (idxElems asg).Pairwise (fun a b => a.1 < b.1))
    (hall : ∀ c ∈ asg, c.tid ∈ order) :
    (reduceList (maybeReduce minIdx)
        (order.map fun t => (idxElems (asg.filter (·.tid == t))).findSome? φ)).getD none
      = (idxElems asg).findSome? φ := by
  cases h : (idxElems asg).findSome? φ with
  | none =>
    apply reduce_none
    intro o ho
    obtain ⟨t, _, rfl⟩ := List.mem_map.1 ho
    rw [List.findSome?_eq_none_iff]
    intro x hx
    exact (List.findSome?_eq_none_iff.1 h) x ((idxElems_filter_sublist _ _).subset hx)
  | some r =>
    obtain ⟨l₁, p₀, l₂, hL, hp₀, hl₁⟩ := List.findSome?_eq_some_iff.1 h
    have hp₀mem : p₀ ∈ idxElems asg := by rw [hL]; simp
    have key : ∀ q ∈ idxElems asg, q = p₀ ∨ (q.1 < p₀.1 ∧ φ q = none) ∨ p₀.1 < q.1 := by
      intro q hq
      rw [hL] at hq hpw
      obtain ⟨_, h2, h3⟩ := List.pairwise_append.1 hpw
      rcases List.mem_append.1 hq with hq | hq
      · exact Or.inr (Or.inl ⟨h3 q hq p₀ List.mem_cons_self, hl₁ q hq⟩)
      · rcases List.mem_cons.1 hq with hq | hq
        · exact Or.inl hq
        · exact Or.inr (Or.inr ((List.pairwise_cons.1 h2).1 q hq))
    have hr : r.1 = p₀.1 := hφ _ _ hp₀
    apply reduce_good
    · intro o ho
      obtain ⟨t, _, rfl⟩ := List.mem_map.1 ho
      cases hw : (idxElems (asg.filter (·.tid == t))).findSome? φ with
      | none => exact Or.inl rfl
      | some r' =>
        obtain ⟨w₁, q, w₂, hW, hq, _⟩ := List.findSome?_eq_some_iff.1 hw
        have hqW : q ∈ idxElems (asg.filter (·.tid == t)) := by rw [hW]; simp
        have hqL := (idxElems_filter_sublist _ _).subset hqW
        rcases key q hqL with h1 | h1 | h1
        · subst h1
          rw [hp₀] at hq
          exact Or.inr (Or.inl hq.symm)
        · rw [h1.2] at hq; cases hq
        · have := hφ _ _ hq
          exact Or.inr (Or.inr ⟨r', rfl, by omega⟩)
    · obtain ⟨t, ht, hpt⟩ := mem_idxElems_filter hall hp₀mem
      refine List.mem_map.2 ⟨t, ht, ?_⟩
      obtain ⟨w₁, w₂, hW⟩ := List.append_of_mem hpt
      have hpwW := hpw.sublist (idxElems_filter_sublist (·.tid == t) asg)
      refine List.findSome?_eq_some_iff.2 ⟨w₁, p₀, w₂, hW, hp₀, ?_⟩
      intro x hx
      rw [hW] at hpwW
      have hlt := (List.pairwise_append.1 hpwW).2.2 x hx p₀ List.mem_cons_self
      have hxL : x ∈ idxElems asg :=
        (idxElems_filter_sublist (·.tid == t) asg).subset (by rw [hW]; simp [hx])
      rcases key x hxL with h1 | h1 | h1
      · subst h1; omega
      · exact h1.2
      · omega

theorem findSome_take {β : Type} (ψ : Val × Nat → Option β) (hit : Val → Bool)
    (hψ : ∀ q, hit q.1 = true → ψ q ≠ none) (xs : List Val) (n : Nat)
    (covers : xs.length ≤ n ∨ ∃ x ∈ xs.take n, hit x = true) :
    ((xs.take n).zipIdx 0).findSome? ψ = (xs.zipIdx 0).findSome? ψ := by
  rcases covers with h | ⟨x, hx, hh⟩
  · rw [List.take_of_length_le h]
  · have hsome : ((xs.take n).zipIdx 0).findSome? ψ ≠ none := by
      intro hn
      obtain ⟨i, hi⟩ := List.mem_iff_getElem?.1 hx
      have hm : (x, i) ∈ (xs.take n).zipIdx 0 := List.mk_mem_zipIdx_iff_getElem?.2 hi
      exact hψ (x, i) hh (List.findSome?_eq_none_iff.1 hn _ hm)
    conv => rhs; rw [← List.take_append_drop n xs, List.zipIdx_append, List.findSome?_append]
    cases hc : ((xs.take n).zipIdx 0).findSome? ψ with
    | none => exact absurd hc hsome
    | some b => rfl

theorem find_main (φ : Nat × Val → Option (Nat × Val))
    (hφ : ∀ p r, φ p = some r → r.1 = p.1) (hit : Val → Bool)
    (hhit : ∀ p, hit p.2 = true → φ p ≠ none) (xs : List Val) (ex : Exec)
    (h : ex.AcceptsFind xs hit) :
    (ex.reduce (fun _ chunks => (idxElems chunks).findSome? φ) (maybeReduce minIdx)).getD none
      = (xs.zipIdx 0).findSome? fun q => φ (q.2, q.1) := by
  obtain ⟨n, hn⟩ := h
  have hie := idxElems_of_tiles hn.tiles
  have hpw : (idxElems ex.asg).Pairwise (fun a b => a.1 < b.1) := by
    rw [hie]; exact pairwise_zipIdx_swap _ _
  unfold Exec.reduce Exec.runMap Exec.chunksOf
  rw [find_generic φ hφ ex.asg ex.order hpw hn.tids, hie, List.findSome?_map]
  exact findSome_take (fun q => φ (q.2, q.1)) hit (fun q hq => hhit (q.2, q.1) hq) xs n hn.covers

/-! ### the ordered bag -/

theorem foldl_max_spec (l : List Nat) (a : Nat) :
    a ≤ l.foldl Nat.max a ∧ (∀ x ∈ l, x ≤ l.foldl Nat.max a) ∧
      (l.foldl Nat.max a = a ∨ l.foldl Nat.max a ∈ l) := by
  induction l generalizing a with
  | nil => simp
  | cons x l ih =>
    rw [List.foldl_cons]
    obtain ⟨h1, h2, h3⟩ := ih (Nat.max a x)
    have hm : Nat.max a x = max a x := rfl
    refine ⟨by omega, ?_, ?_⟩
    · intro y hy
      rcases List.mem_cons.1 hy with rfl | hy
      · omega
      · exact h2 y hy
    · rcases h3 with h3 | h3
      · by_cases hax : a ≤ x
        · right; rw [h3]
          have : Nat.max a x = x := by omega
          rw [this]; exact List.mem_cons_self
        · left; rw [h3]; omega
      · right; exact List.mem_cons_of_mem _ h3

theorem foldl_max_eq (l : List Nat) (a B : Nat) (ha : a ≤ B) (hl : ∀ x ∈ l, x ≤ B)
    (hB : a = B ∨ B ∈ l) : l.foldl Nat.max a = B := by
  obtain ⟨h1, h2, h3⟩ := foldl_max_spec l a
  have hle : l.foldl Nat.max a ≤ B := by
    rcases h3 with h3 | h3
    · omega
    · exact hl _ h3
  have hge : B ≤ l.foldl Nat.max a := by
    rcases hB with hB | hB
    · omega
    · exact h2 _ hB
  omega

theorem mapM_some {α β : Type} (l : List α) (f : α → Option β) (g : α → β)
    (h : ∀ a ∈ l, f a = some (g a)) : l.mapM f = some (l.map g) := by
  induction l with
  | nil => simp
  | cons a l ih =>
    rw [List.mapM_cons, h a List.mem_cons_self, ih (fun b hb => h b (List.mem_cons_of_mem _ hb))]
    rfl

theorem bagFinish_of_perm (pre vs : List Val) (writes : List (Nat × Val))
    (hp : writes.Perm ((vs.zipIdx 0).map fun q => (pre.length + q.2, q.1))) :
    bagFinish pre writes = some (pre ++ vs) := by
  have hlen : writes.length = vs.length := by simpa using hp.length_eq
  have hmem : ∀ p, p ∈ writes ↔ ∃ j, vs[j]? = some p.2 ∧ p.1 = pre.length + j := by
    intro p
    rw [hp.mem_iff, List.mem_map]
    constructor
    · rintro ⟨q, hq, rfl⟩
      exact ⟨q.2, List.mem_zipIdx_iff_getElem?.1 hq, rfl⟩
    · rintro ⟨j, hj, hj'⟩
      refine ⟨(p.2, j), List.mk_mem_zipIdx_iff_getElem?.2 hj, ?_⟩
      cases p; simp at hj' ⊢; exact hj'.symm
  have hfold : (writes.map (·.1 + 1)).foldl Nat.max pre.length = pre.length + writes.length := by
    apply foldl_max_eq
    · omega
    · intro x hx
      obtain ⟨p, hpw, rfl⟩ := List.mem_map.1 hx
      obtain ⟨j, hj, hj'⟩ := (hmem p).1 hpw
      have : j < vs.length := (List.getElem?_eq_some_iff.1 hj).1
      show p.1 + 1 ≤ _
      omega
    · by_cases h0 : vs.length = 0
      · left; omega
      · right
        refine List.mem_map.2 ⟨(pre.length + (vs.length - 1), vs[vs.length - 1]'(by omega)), ?_, ?_⟩
        · exact (hmem _).2 ⟨vs.length - 1, List.getElem?_eq_getElem _, rfl⟩
        · show pre.length + (vs.length - 1) + 1 = _
          omega
  unfold bagFinish
  simp only [hfold, beq_self_eq_true, if_true]
  rw [mapM_some (List.range writes.length) _ (fun j => vs[j]?.getD 0)]
  · rw [hlen]
    show some (pre ++ _) = _
    congr 2
    apply List.ext_getElem
    · simp
    · intro i h1 h2
      simp [h2]
  · intro j hj
    have hj' : j < vs.length := by rw [← hlen]; exact List.mem_range.1 hj
    have hin : (pre.length + j, vs[j]) ∈ writes :=
      (hmem _).2 ⟨j, List.getElem?_eq_getElem hj', rfl⟩
    cases hf : writes.find? (fun p => p.1 == pre.length + j) with
    | none =>
      have := List.find?_eq_none.1 hf _ hin
      simp at this
    | some p =>
      have h1 := List.find?_some hf
      have h2 := List.mem_of_find?_eq_some hf
      obtain ⟨j', hj1, hj2⟩ := (hmem p).1 h2
      have : p.1 = pre.length + j := by simpa using h1
      have : j' = j := by omega
      subst this
      simp [hj1]

end Aux
end OrxPar
