/- The ordered bag of `Model/Resources.lean`: what a sequence of positional writes does. -/
import OrxPar.Model.Resources
namespace OrxPar
namespace Res

def Bag.wr (b : Bag) (ws : List (Nat × Nat)) : Bag := ws.foldl (fun b w => b.write w.1 w.2) b

theorem Bag.wr_cons (b : Bag) (w : Nat × Nat) (ws : List (Nat × Nat)) :
    b.wr (w :: ws) = (b.write w.1 w.2).wr ws := rfl

theorem Bag.write_uninit {b : Bag} {pos tok : Nat} (h : b.cells[pos]? = some Cell.uninit) :
    b.write pos tok = { b with cells := b.cells.set pos (Cell.init tok),
                               numPushed := b.numPushed + 1,
                               len := max b.len (pos + 1) } := by
  unfold Bag.write; rw [h]; rfl

/-- writes at distinct positions, all targeting never-written cells -/
theorem Bag.wr_spec (ws : List (Nat × Nat)) : ∀ (b : Bag),
    (∀ w ∈ ws, b.cells[w.1]? = some Cell.uninit) → (ws.map (·.1)).Nodup →
    (b.wr ws).cells.length = b.cells.length ∧
    (∀ w ∈ ws, (b.wr ws).cells[w.1]? = some (Cell.init w.2)) ∧
    (∀ p : Nat, p ∉ ws.map (·.1) → (b.wr ws).cells[p]? = b.cells[p]?) ∧
    (b.wr ws).numPushed = b.numPushed + ws.length ∧
    b.len ≤ (b.wr ws).len ∧ (∀ w ∈ ws, w.1 + 1 ≤ (b.wr ws).len) ∧
    ((b.wr ws).len = b.len ∨ ∃ w ∈ ws, (b.wr ws).len = w.1 + 1) ∧
    (b.wr ws).leaked = b.leaked ∧ (b.wr ws).bad = b.bad := by
  induction ws with
  | nil => intro b _ _; simp [Bag.wr]
  | cons w ws ih =>
    intro b hu hnd
    simp only [List.map_cons, List.nodup_cons] at hnd
    obtain ⟨hw, hnd'⟩ := hnd
    have hb1 := Bag.write_uninit (tok := w.2) (hu w List.mem_cons_self)
    have hc1 : (b.write w.1 w.2).cells = b.cells.set w.1 (Cell.init w.2) := by rw [hb1]
    have hn1 : (b.write w.1 w.2).numPushed = b.numPushed + 1 := by rw [hb1]
    have hl1 : (b.write w.1 w.2).len = max b.len (w.1 + 1) := by rw [hb1]
    have hk1 : (b.write w.1 w.2).leaked = b.leaked := by rw [hb1]
    have hd1 : (b.write w.1 w.2).bad = b.bad := by rw [hb1]
    have hne : ∀ w' ∈ ws, w.1 ≠ w'.1 := by
      intro w' hw' e
      exact hw (e ▸ List.mem_map_of_mem hw')
    have hu1 : ∀ w' ∈ ws, (b.write w.1 w.2).cells[w'.1]? = some Cell.uninit := by
      intro w' hw'
      rw [hc1, List.getElem?_set_ne (hne w' hw')]
      exact hu w' (List.mem_cons_of_mem _ hw')
    obtain ⟨i1, i2, i3, i4, i5, i6, i7, i8, i9⟩ := ih _ hu1 hnd'
    rw [Bag.wr_cons]
    rw [hc1] at i1 i3
    rw [hn1] at i4
    rw [hl1] at i5 i7
    rw [hk1] at i8
    rw [hd1] at i9
    have hwlt : w.1 < b.cells.length := by
      have := hu w List.mem_cons_self
      exact (List.getElem?_eq_some_iff.1 this).1
    refine ⟨by simpa using i1, ?_, ?_, ?_, ?_, ?_, ?_, i8, i9⟩
    · intro w' hw'
      simp only [List.mem_cons] at hw'
      rcases hw' with rfl | hw'
      · rw [i3 _ hw, List.getElem?_set_self hwlt]
      · exact i2 w' hw'
    · intro p hp
      simp only [List.map_cons, List.mem_cons, not_or] at hp
      rw [i3 p hp.2, List.getElem?_set_ne (Ne.symm hp.1)]
    · simp only [List.length_cons]; omega
    · omega
    · intro w' hw'
      simp only [List.mem_cons] at hw'
      rcases hw' with rfl | hw'
      · omega
      · exact i6 w' hw'
    · rcases i7 with i7 | ⟨w', hw', i7⟩
      · by_cases hle : b.len ≤ w.1 + 1
        · exact Or.inr ⟨w, List.mem_cons_self, by omega⟩
        · exact Or.inl (by omega)
      · exact Or.inr ⟨w', List.mem_cons_of_mem _ hw', i7⟩

/-- writes inside the capacity never produce a bad event and never change the capacity -/
theorem Bag.wr_in_cap (ws : List (Nat × Nat)) : ∀ (b : Bag),
    (∀ w ∈ ws, w.1 < b.cells.length) →
    (b.wr ws).bad = b.bad ∧ (b.wr ws).cells.length = b.cells.length := by
  induction ws with
  | nil => intro b _; simp [Bag.wr]
  | cons w ws ih =>
    intro b hin
    have hw := hin w List.mem_cons_self
    have h1 : (b.write w.1 w.2).bad = b.bad ∧ (b.write w.1 w.2).cells.length = b.cells.length := by
      unfold Bag.write
      rw [List.getElem?_eq_getElem hw]
      simp
    rw [Bag.wr_cons]
    obtain ⟨j1, j2⟩ := ih (b.write w.1 w.2) (by
      intro w' hw'
      rw [h1.2]
      exact hin w' (List.mem_cons_of_mem _ hw'))
    exact ⟨j1.trans h1.1, j2.trans h1.2⟩

/-- pigeonhole: a duplicate-free list shorter than `n` misses some number of `[a, a + n)` -/
theorem exists_not_mem_of_length_lt {a n : Nat} {l : List Nat} (hnd : l.Nodup)
    (hl : l.length < n) : ∃ p, a ≤ p ∧ p < a + n ∧ p ∉ l := by
  apply Classical.byContradiction
  intro hcon
  have hall : ∀ p, a ≤ p → p < a + n → p ∈ l := by
    intro p h1 h2
    apply Classical.byContradiction
    intro hp
    exact hcon ⟨p, h1, h2, hp⟩
  have key : ∀ (m : Nat) (l : List Nat), l.Nodup → (∀ x, a ≤ x → x < a + m → x ∈ l) → m ≤ l.length := by
    intro m
    induction m with
    | zero => intros; omega
    | succ m ihm =>
      intro l hnd hl
      have hmem : a + m ∈ l := hl _ (by omega) (by omega)
      have h1 := ihm (l.erase (a + m)) (hnd.erase _) (by
        intro x hx1 hx2
        rw [hnd.mem_erase_iff]
        exact ⟨by omega, hl x hx1 (by omega)⟩)
      have := List.length_erase (a := a + m) (l := l)
      rw [if_pos hmem] at this
      have : 0 < l.length := List.length_pos_of_mem hmem
      omega
  have := key n l hnd hall
  omega

theorem le_sum_of_mem {l : List Nat} {x : Nat} (h : x ∈ l) : x ≤ l.sum := by
  induction l with
  | nil => simp at h
  | cons y l ih =>
    simp only [List.mem_cons] at h
    simp only [List.sum_cons]
    rcases h with rfl | h
    · omega
    · have := ih h; omega

/-! ### the canonical write list -/

theorem canon_mem (toks : List Nat) (n : Nat) (w : Nat × Nat) :
    w ∈ (toks.zipIdx n).map (fun p => (p.2, p.1)) ↔ n ≤ w.1 ∧ toks[w.1 - n]? = some w.2 := by
  obtain ⟨p, t⟩ := w
  simp only [List.mem_map, Prod.mk.injEq]
  constructor
  · rintro ⟨a, ha, rfl, rfl⟩
    exact List.mem_zipIdx_iff_le_and_getElem?_sub.1 ha
  · intro h
    exact ⟨(t, p), List.mem_zipIdx_iff_le_and_getElem?_sub.2 h, rfl, rfl⟩

theorem canon_fst (toks : List Nat) (n : Nat) :
    ((toks.zipIdx n).map (fun p => (p.2, p.1))).map (·.1) = List.range' n toks.length := by
  rw [List.map_map]
  exact List.zipIdx_map_snd n toks

theorem held_append (a b : List Cell) : held (a ++ b) = held a ++ held b := by
  simp [held]

theorem held_map_init (l : List Nat) : held (l.map Cell.init) = l := by
  induction l with
  | nil => rfl
  | cons x l ih =>
    simp only [List.map_cons]
    show x :: held (l.map Cell.init) = _
    rw [ih]

theorem noninit_map_init (f : Cell → Bool) (hf : ∀ t, f (Cell.init t) = false) (l : List Nat) :
    (l.map Cell.init).filter f = [] := by
  induction l with
  | nil => rfl
  | cons x l ih => simp [hf, ih]

theorem Bag.new_cells (pre : List Nat) (extra : Nat) :
    (Bag.new pre extra).cells = pre.map Cell.init ++ List.replicate extra Cell.uninit := rfl

theorem Bag.new_cells_right (pre : List Nat) (extra : Nat) {p : Nat} (h1 : pre.length ≤ p)
    (h2 : p < pre.length + extra) : (Bag.new pre extra).cells[p]? = some Cell.uninit := by
  rw [Bag.new_cells, List.getElem?_append_right (by simpa using h1)]
  simp only [List.length_map]
  rw [List.getElem?_replicate]
  rw [if_pos (by omega)]

theorem Bag.finish_wr (pre toks : List Nat) (extra : Nat) (he : toks.length ≤ extra)
    (ws : List (Nat × Nat))
    (hperm : ws.Perm ((toks.zipIdx pre.length).map fun p => (p.2, p.1))) :
    ((Bag.new pre extra).wr ws).finish
      = some { out := pre ++ toks, dropped := [], leaked := [], bad := 0 } := by
  have hmem : ∀ w : Nat × Nat, w ∈ ws ↔ pre.length ≤ w.1 ∧ toks[w.1 - pre.length]? = some w.2 := by
    intro w; rw [hperm.mem_iff]; exact canon_mem toks pre.length w
  have hnd : (ws.map (·.1)).Nodup := by
    rw [(hperm.map (·.1)).nodup_iff, canon_fst]
    exact List.nodup_range'
  have hlen : ws.length = toks.length := by
    rw [hperm.length_eq]; simp
  have hrange : ∀ w ∈ ws, pre.length ≤ w.1 ∧ w.1 - pre.length < toks.length := by
    intro w hw
    have := (hmem w).1 hw
    exact ⟨this.1, (List.getElem?_eq_some_iff.1 this.2).1⟩
  have hu : ∀ w ∈ ws, (Bag.new pre extra).cells[w.1]? = some Cell.uninit := by
    intro w hw
    have := hrange w hw
    exact Bag.new_cells_right pre extra this.1 (by omega)
  obtain ⟨s1, s2, s3, s4, s5, s6, s7, s8, s9⟩ := Bag.wr_spec ws (Bag.new pre extra) hu hnd
  generalize (Bag.new pre extra).wr ws = b at *
  have hL : b.len = pre.length + toks.length := by
    have h5 : pre.length ≤ b.len := s5
    have hup : b.len ≤ pre.length + toks.length := by
      rcases s7 with s7 | ⟨w, hw, s7⟩
      · have : b.len = pre.length := s7
        omega
      · have := hrange w hw
        omega
    by_cases h0 : toks.length = 0
    · omega
    · have hw : (pre.length + (toks.length - 1), toks[toks.length - 1]'(by omega)) ∈ ws := by
        rw [hmem]
        refine ⟨by simp, ?_⟩
        simp only [Nat.add_sub_cancel_left]
        exact List.getElem?_eq_getElem _
      have := s6 _ hw
      simp only at this
      omega
  have hN : b.numPushed = pre.length + toks.length := by
    rw [s4, hlen]; rfl
  have hcells : b.cells.take b.len = pre.map Cell.init ++ toks.map Cell.init := by
    apply List.ext_getElem?
    intro i
    rw [List.getElem?_take]
    by_cases hi : i < b.len
    · rw [if_pos hi]
      by_cases hip : i < pre.length
      · have hnot : i ∉ ws.map (·.1) := by
          intro hm
          obtain ⟨w, hw, rfl⟩ := List.mem_map.1 hm
          have := hrange w hw
          omega
        rw [s3 i hnot, Bag.new_cells, List.getElem?_append_left (by simpa using hip),
          List.getElem?_append_left (by simpa using hip)]
      · have hlt : i - pre.length < toks.length := by omega
        have hw : (i, toks[i - pre.length]) ∈ ws := by
          rw [hmem]
          exact ⟨by simp; omega, List.getElem?_eq_getElem _⟩
        have := s2 _ hw
        simp only at this
        rw [this, List.getElem?_append_right (by simp; omega)]
        simp [List.getElem?_eq_getElem hlt]
    · rw [if_neg hi]
      symm
      apply List.getElem?_eq_none
      simp
      omega
  unfold Bag.finish
  rw [hN, hL]
  simp only [beq_self_eq_true, if_true]
  rw [← hL, hcells, held_append, held_map_init, held_map_init, ← List.map_append, noninit_map_init _ (fun _ => rfl),
    s8, s9]
  rfl

theorem Bag.unguarded_wr (pre : List Nat) (extra : Nat) (ws : List (Nat × Nat))
    (hin : ∀ w ∈ ws, pre.length ≤ w.1 ∧ w.1 < pre.length + extra)
    (hnd : (ws.map (·.1)).Nodup) (hgap : ws.length < extra)
    (hmis : ((Bag.new pre extra).wr ws).numPushed ≠ ((Bag.new pre extra).wr ws).len) :
    0 < ((Bag.new pre extra).wr ws).unwindUnguarded.bad := by
  have hu : ∀ w ∈ ws, (Bag.new pre extra).cells[w.1]? = some Cell.uninit := by
    intro w hw
    have := hin w hw
    exact Bag.new_cells_right pre extra this.1 this.2
  obtain ⟨s1, s2, s3, s4, s5, s6, s7, s8, s9⟩ := Bag.wr_spec ws (Bag.new pre extra) hu hnd
  obtain ⟨p, hp1, hp2, hp3⟩ := exists_not_mem_of_length_lt (a := pre.length) (n := extra) hnd
    (by simpa using hgap)
  have hcell : ((Bag.new pre extra).wr ws).cells[p]? = some Cell.uninit := by
    rw [s3 p hp3]; exact Bag.new_cells_right pre extra hp1 hp2
  generalize (Bag.new pre extra).wr ws = b at *
  have hmemc : Cell.uninit ∈ b.cells := List.mem_of_getElem? hcell
  unfold Bag.unwindUnguarded
  have hb : (b.numPushed == b.len) = false := by simpa using hmis
  simp only [hb, Bool.false_eq_true, if_false, List.take_length]
  have h1 : (1 : Nat) ∈ (b.cells.map dropCell).map (·.2) := by
    rw [List.mem_map]
    exact ⟨([], 1), List.mem_map.2 ⟨Cell.uninit, hmemc, rfl⟩, rfl⟩
  have := le_sum_of_mem h1
  omega

end Res
end OrxPar
