/- Count, reduce and unordered-collect kernels: regrouping of per-chunk contributions. -/
import OrxPar.Lemmas.Partition
namespace OrxPar
open K

/-! ### helpers: the three survivor functions distribute over append; the nested loops -/

theorem fmSurv_eq (fm : Val → Option Val) (f : Val → Bool) (l : List Val) :
    (((l.map fm).filter (·.isSome)).filterMap id).filter f = l.filterMap (fmSurv fm f) := by
  induction l with
  | nil => rfl
  | cons x xs ih =>
    simp only [List.map_cons, List.filterMap_cons, fmSurv]
    cases hx : fm x with
    | none => simpa [List.filter_cons, hx] using ih
    | some v =>
      by_cases hf : f v = true
      · simp [hf, ← ih]
      · simp [hf, ← ih]

theorem filtermapFilCntOne_eq (fm : Val → Option Val) (f : Val → Bool) (l : List Val) :
    filtermapFilCntOne fm f l = (l.filterMap (fmSurv fm f)).length := by
  have aux : ∀ (l : List Val) (n : Nat),
      l.foldl (fun acc y => match fmSurv fm f y with | some _ => acc + 1 | none => acc) n
        = n + (l.filterMap (fmSurv fm f)).length := by
    intro l
    induction l with
    | nil => simp
    | cons y ys ih =>
      intro n
      simp only [List.foldl_cons, List.filterMap_cons]
      cases hy : fmSurv fm f y with
      | none => simp [ih]
      | some w => simp [ih]; omega
  induction l with
  | nil => rfl
  | cons x xs ih =>
    simp only [filtermapFilCntOne, List.filterMap_cons]
    cases hx : fmSurv fm f x with
    | none => simpa using ih
    | some v => simp only [List.length_cons]; exact (aux xs 1).trans (Nat.add_comm _ _)

theorem filtermapFilRedOne_eq (fm : Val → Option Val) (f : Val → Bool) (op : Val → Val → Val)
    (l : List Val) :
    filtermapFilRedOne fm f op l = reduceList op (l.filterMap (fmSurv fm f)) := by
  have aux : ∀ (l : List Val) (v : Val),
      l.foldl (fun acc y => match fmSurv fm f y with | some w => op acc w | none => acc) v
        = (l.filterMap (fmSurv fm f)).foldl op v := by
    intro l
    induction l with
    | nil => simp
    | cons y ys ih =>
      intro v
      simp only [List.foldl_cons, List.filterMap_cons]
      cases hy : fmSurv fm f y with
      | none => simp [ih]
      | some w => simp [ih]
  induction l with
  | nil => rfl
  | cons x xs ih =>
    simp only [filtermapFilRedOne, List.filterMap_cons]
    cases hx : fmSurv fm f x with
    | none => simpa using ih
    | some v => simp only [reduceList]; exact congrArg some (aux xs v)

theorem sMap_app (m : Val → Val) (f : Val → Bool) (a b : List Val) :
    ((a ++ b).map m).filter f = (a.map m).filter f ++ (b.map m).filter f := by simp
theorem sFm_app (fm : Val → Option Val) (f : Val → Bool) (a b : List Val) :
    ((((a ++ b).map fm).filter (·.isSome)).filterMap id).filter f
      = (((a.map fm).filter (·.isSome)).filterMap id).filter f
        ++ (((b.map fm).filter (·.isSome)).filterMap id).filter f := by simp
theorem sFlat_app (g : Val → List Val) (f : Val → Bool) (a b : List Val) :
    ((a ++ b).flatMap g).filter f = (a.flatMap g).filter f ++ (b.flatMap g).filter f := by simp

theorem foldl_append_flatMap {β : Type} (L : β → List Val) (l : List β) (acc : List Val) :
    l.foldl (fun a x => a ++ L x) acc = acc ++ l.flatMap L := by
  induction l generalizing acc with
  | nil => simp
  | cons x xs ih => simp [ih]

/-- an unordered-collect task that returns the survivors of the worker's elements -/
theorem colX_perm (S : List Val → List Val) (h0 : S [] = [])
    (hS : ∀ a b, S (a ++ b) = S a ++ S b) (task : Nat → List Chunk → List Val)
    (ht : ∀ c chunks, task c chunks = S (elems chunks))
    (xs : List Val) (ex : Exec) (h : ex.Accepts xs) :
    (appendFragments (ex.runMap task)).Perm (S xs) := by
  have e : appendFragments (ex.runMap task)
      = ex.order.flatMap fun t => S (elems (ex.chunksOf t)) := by
    simp [appendFragments, Exec.runMap, ht, List.flatMap_def]
  rw [e]
  exact survivors_perm S h0 hS xs ex h

/-- the three reduce tasks satisfy any reduction invariant -/
theorem mapFilRedTask_inv {op : Val → Val → Val} {P : List Val → Option Val → Prop}
    (hP : RedInv op P) (m : Val → Val) (f : Val → Bool) (c : Nat) (chunks : List Chunk) :
    P (((elems chunks).map m).filter f) (mapFilRedTask m f op c chunks) := by
  unfold mapFilRedTask
  split
  · exact hP.red _
  · exact chunked_inv hP (fun l => (l.map m).filter f) rfl (sMap_app m f) chunks

theorem filtermapFilRedTask_inv {op : Val → Val → Val} {P : List Val → Option Val → Prop}
    (hP : RedInv op P) (fm : Val → Option Val) (f : Val → Bool) (c : Nat) (chunks : List Chunk) :
    P (((((elems chunks).map fm).filter (·.isSome)).filterMap id).filter f)
      (filtermapFilRedTask fm f op c chunks) := by
  unfold filtermapFilRedTask
  split
  · rw [filtermapFilRedOne_eq, fmSurv_eq]; exact hP.red _
  · exact chunked_inv hP (fun l => (((l.map fm).filter (·.isSome)).filterMap id).filter f) rfl
      (sFm_app fm f) chunks

theorem flatmapFilRedTask_inv {op : Val → Val → Val} {P : List Val → Option Val → Prop}
    (hP : RedInv op P) (g : Val → List Val) (f : Val → Bool) (c : Nat) (chunks : List Chunk) :
    P (((elems chunks).flatMap g).filter f) (flatmapFilRedTask g f op c chunks) := by
  unfold flatmapFilRedTask
  split
  · exact hP.red _
  · exact chunked_inv hP (fun l => (l.flatMap g).filter f) rfl (sFlat_app g f) chunks

/-! ### the theorems -/

theorem mapFilCnt_correct (m : Val → Val) (f : Val → Bool) (xs : List Val) (ex : Exec)
    (h : ex.Accepts xs) :
    (ex.reduce (mapFilCntTask m f) (· + ·)).getD 0 = ((xs.map m).filter f).length := by
  refine count_correct (fun l => (l.map m).filter f) rfl (sMap_app m f) _ ?_ xs ex h
  intro c chunks
  unfold mapFilCntTask
  split
  · rfl
  · rw [foldl_count (fun ch : Chunk => (ch.items.map m).filter f), Nat.zero_add,
      hom_elems (fun l => (l.map m).filter f) rfl (sMap_app m f)]

theorem filtermapFilCnt_correct (fm : Val → Option Val) (f : Val → Bool) (xs : List Val) (ex : Exec)
    (h : ex.Accepts xs) :
    (ex.reduce (filtermapFilCntTask fm f) (· + ·)).getD 0
      = ((((xs.map fm).filter (·.isSome)).filterMap id).filter f).length := by
  refine count_correct (fun l => (((l.map fm).filter (·.isSome)).filterMap id).filter f) rfl
    (sFm_app fm f) _ ?_ xs ex h
  intro c chunks
  unfold filtermapFilCntTask
  split
  · rw [filtermapFilCntOne_eq, fmSurv_eq]
  · rw [foldl_count (fun ch : Chunk => (((ch.items.map fm).filter (·.isSome)).filterMap id).filter f),
      Nat.zero_add,
      hom_elems (fun l => (((l.map fm).filter (·.isSome)).filterMap id).filter f) rfl (sFm_app fm f)]

theorem flatmapFilCnt_correct (g : Val → List Val) (f : Val → Bool) (xs : List Val) (ex : Exec)
    (h : ex.Accepts xs) :
    (ex.reduce (flatmapFilCntTask g f) (· + ·)).getD 0 = ((xs.flatMap g).filter f).length := by
  refine count_correct (fun l => (l.flatMap g).filter f) rfl (sFlat_app g f) _ ?_ xs ex h
  intro c chunks
  unfold flatmapFilCntTask
  split
  · rfl
  · rw [foldl_count (fun ch : Chunk => (ch.items.flatMap g).filter f), Nat.zero_add,
      hom_elems (fun l => (l.flatMap g).filter f) rfl (sFlat_app g f)]

/-- reduce with an associative and commutative operator -/
theorem mapFilRed_correct (m : Val → Val) (f : Val → Bool) (op : Val → Val → Val)
    (hA : ∀ a b c, op (op a b) c = op a (op b c)) (hC : ∀ a b, op a b = op b a)
    (xs : List Val) (ex : Exec) (h : ex.Accepts xs) :
    (ex.reduce (mapFilRedTask m f op) (maybeReduce op)).getD none
      = reduceList op ((xs.map m).filter f) := by
  exact reduce_inv (redInv_ac hA hC) (fun l => (l.map m).filter f) rfl (sMap_app m f) _
    (fun c chunks => mapFilRedTask_inv (redInv_ac hA hC) m f c chunks) xs ex h

theorem filtermapFilRed_correct (fm : Val → Option Val) (f : Val → Bool) (op : Val → Val → Val)
    (hA : ∀ a b c, op (op a b) c = op a (op b c)) (hC : ∀ a b, op a b = op b a)
    (xs : List Val) (ex : Exec) (h : ex.Accepts xs) :
    (ex.reduce (filtermapFilRedTask fm f op) (maybeReduce op)).getD none
      = reduceList op ((((xs.map fm).filter (·.isSome)).filterMap id).filter f) := by
  exact reduce_inv (redInv_ac hA hC)
    (fun l => (((l.map fm).filter (·.isSome)).filterMap id).filter f) rfl (sFm_app fm f) _
    (fun c chunks => filtermapFilRedTask_inv (redInv_ac hA hC) fm f c chunks) xs ex h

theorem flatmapFilRed_correct (g : Val → List Val) (f : Val → Bool) (op : Val → Val → Val)
    (hA : ∀ a b c, op (op a b) c = op a (op b c)) (hC : ∀ a b, op a b = op b a)
    (xs : List Val) (ex : Exec) (h : ex.Accepts xs) :
    (ex.reduce (flatmapFilRedTask g f op) (maybeReduce op)).getD none
      = reduceList op ((xs.flatMap g).filter f) := by
  exact reduce_inv (redInv_ac hA hC) (fun l => (l.flatMap g).filter f) rfl (sFlat_app g f) _
    (fun c chunks => flatmapFilRedTask_inv (redInv_ac hA hC) g f c chunks) xs ex h

/-- a selection operator: returns one of its arguments, one with the smaller key
    (ties: either).  No commutativity or associativity is assumed. -/
structure IsMinSel (key : Val → Nat) (op : Val → Val → Val) : Prop where
  sel : ∀ a b, op a b = a ∨ op a b = b
  key : ∀ a b, key (op a b) = Nat.min (key a) (key b)

/-- what a by-key selection returns: `none` iff nothing survives, otherwise a survivor with
    minimal key -/
def IsMinOf (key : Val → Nat) (S : List Val) (r : Option Val) : Prop :=
  (S = [] ∧ r = none) ∨ ∃ v, r = some v ∧ v ∈ S ∧ ∀ y ∈ S, key v ≤ key y

/-! ### helpers: `IsMinOf key` is a reduction invariant of a selection operator -/

theorem isMinOf_perm {key : Val → Nat} {S S' : List Val} {r : Option Val} (hp : S.Perm S')
    (h : IsMinOf key S r) : IsMinOf key S' r := by
  rcases h with ⟨hS, hr⟩ | ⟨v, hr, hv, hmin⟩
  · subst hS
    exact Or.inl ⟨hp.nil_eq.symm, hr⟩
  · exact Or.inr ⟨v, hr, hp.mem_iff.1 hv, fun y hy => hmin y (hp.mem_iff.2 hy)⟩

theorem isMinOf_app {key : Val → Nat} {op : Val → Val → Val} (hop : IsMinSel key op)
    (S₁ S₂ : List Val) (r₁ r₂ : Option Val) (h₁ : IsMinOf key S₁ r₁) (h₂ : IsMinOf key S₂ r₂) :
    IsMinOf key (S₁ ++ S₂) (maybeReduce op r₁ r₂) := by
  rcases h₁ with ⟨hS₁, hr₁⟩ | ⟨v₁, hr₁, hv₁, hmin₁⟩
  · subst hS₁ hr₁
    rw [maybeReduce_none_left, List.nil_append]; exact h₂
  · rcases h₂ with ⟨hS₂, hr₂⟩ | ⟨v₂, hr₂, hv₂, hmin₂⟩
    · subst hS₂ hr₂
      rw [maybeReduce_none_right, List.append_nil]
      exact Or.inr ⟨v₁, hr₁, hv₁, hmin₁⟩
    · subst hr₁ hr₂
      refine Or.inr ⟨op v₁ v₂, rfl, ?_, ?_⟩
      · rcases hop.sel v₁ v₂ with e | e <;> rw [e] <;> simp [hv₁, hv₂]
      · intro y hy
        have hk := hop.key v₁ v₂
        simp only [Nat.min_def] at hk
        rcases List.mem_append.1 hy with hy | hy
        · have := hmin₁ y hy
          split at hk <;> omega
        · have := hmin₂ y hy
          split at hk <;> omega

theorem isMinOf_foldl {key : Val → Nat} {op : Val → Val → Val} (hop : IsMinSel key op)
    (l : List Val) (S : List Val) (v : Val) (h : IsMinOf key S (some v)) :
    IsMinOf key (S ++ l) (some (l.foldl op v)) := by
  induction l generalizing S v with
  | nil => simpa using h
  | cons y ys ih =>
    have hy : IsMinOf key [y] (some y) := Or.inr ⟨y, rfl, by simp, by simp⟩
    have := ih (S ++ [y]) (op v y) (isMinOf_app hop S [y] (some v) (some y) h hy)
    simpa using this

theorem isMinOf_reduceList {key : Val → Nat} {op : Val → Val → Val} (hop : IsMinSel key op)
    (S : List Val) : IsMinOf key S (reduceList op S) := by
  cases S with
  | nil => exact Or.inl ⟨rfl, rfl⟩
  | cons x xs =>
    have hx : IsMinOf key [x] (some x) := Or.inr ⟨x, rfl, by simp, by simp⟩
    simpa [reduceList] using isMinOf_foldl hop xs [x] x hx

theorem redInv_sel {key : Val → Nat} {op : Val → Val → Val} (hop : IsMinSel key op) :
    RedInv op (IsMinOf key) where
  nil := Or.inl ⟨rfl, rfl⟩
  app := isMinOf_app hop
  perm := fun _ _ _ hp h => isMinOf_perm hp h
  red := isMinOf_reduceList hop

theorem mapFilRed_select (m : Val → Val) (f : Val → Bool) (key : Val → Nat) (op : Val → Val → Val)
    (hop : IsMinSel key op) (xs : List Val) (ex : Exec) (h : ex.Accepts xs) :
    IsMinOf key ((xs.map m).filter f)
      ((ex.reduce (mapFilRedTask m f op) (maybeReduce op)).getD none) := by
  exact reduce_inv (redInv_sel hop) (fun l => (l.map m).filter f) rfl (sMap_app m f) _
    (fun c chunks => mapFilRedTask_inv (redInv_sel hop) m f c chunks) xs ex h

theorem filtermapFilRed_select (fm : Val → Option Val) (f : Val → Bool) (key : Val → Nat)
    (op : Val → Val → Val) (hop : IsMinSel key op) (xs : List Val) (ex : Exec) (h : ex.Accepts xs) :
    IsMinOf key ((((xs.map fm).filter (·.isSome)).filterMap id).filter f)
      ((ex.reduce (filtermapFilRedTask fm f op) (maybeReduce op)).getD none) := by
  exact reduce_inv (redInv_sel hop)
    (fun l => (((l.map fm).filter (·.isSome)).filterMap id).filter f) rfl (sFm_app fm f) _
    (fun c chunks => filtermapFilRedTask_inv (redInv_sel hop) fm f c chunks) xs ex h

theorem flatmapFilRed_select (g : Val → List Val) (f : Val → Bool) (key : Val → Nat)
    (op : Val → Val → Val) (hop : IsMinSel key op) (xs : List Val) (ex : Exec) (h : ex.Accepts xs) :
    IsMinOf key ((xs.flatMap g).filter f)
      ((ex.reduce (flatmapFilRedTask g f op) (maybeReduce op)).getD none) := by
  exact reduce_inv (redInv_sel hop) (fun l => (l.flatMap g).filter f) rfl (sFlat_app g f) _
    (fun c chunks => flatmapFilRedTask_inv (redInv_sel hop) g f c chunks) xs ex h

/-- the sequential fold of a selection operator is a minimal survivor too -/
theorem reduceList_select (key : Val → Nat) (op : Val → Val → Val) (hop : IsMinSel key op)
    (S : List Val) : IsMinOf key S (reduceList op S) := by
  exact isMinOf_reduceList hop S

/-- unordered collect: the fragments are a permutation of the sequential result -/
theorem mapFilColX_perm (m : Val → Val) (f : Val → Bool) (xs : List Val) (ex : Exec)
    (h : ex.Accepts xs) :
    (appendFragments (ex.runMap (mapFilColXTask m f))).Perm ((xs.map m).filter f) := by
  refine colX_perm (fun l => (l.map m).filter f) rfl (sMap_app m f) _ ?_ xs ex h
  intro c chunks
  unfold mapFilColXTask
  split
  · rfl
  · rw [foldl_append_flatMap (fun ch : Chunk => (ch.items.map m).filter f), List.nil_append,
      hom_elems (fun l => (l.map m).filter f) rfl (sMap_app m f)]

theorem filtermapFilColX_perm (fm : Val → Option Val) (f : Val → Bool) (xs : List Val) (ex : Exec)
    (h : ex.Accepts xs) :
    (appendFragments (ex.runMap (filtermapFilColXTask fm f))).Perm
      ((((xs.map fm).filter (·.isSome)).filterMap id).filter f) := by
  refine colX_perm (fun l => (((l.map fm).filter (·.isSome)).filterMap id).filter f) rfl
    (sFm_app fm f) _ ?_ xs ex h
  intro c chunks
  unfold filtermapFilColXTask
  split
  · rfl
  · rw [foldl_append_flatMap
        (fun ch : Chunk => (((ch.items.map fm).filter (·.isSome)).filterMap id).filter f),
      List.nil_append,
      hom_elems (fun l => (((l.map fm).filter (·.isSome)).filterMap id).filter f) rfl (sFm_app fm f)]

theorem flatmapFilColX_perm (g : Val → List Val) (f : Val → Bool) (xs : List Val) (ex : Exec)
    (h : ex.Accepts xs) :
    (appendFragments (ex.runMap (flatmapFilColXTask g f))).Perm ((xs.flatMap g).filter f) := by
  refine colX_perm (fun l => (l.flatMap g).filter f) rfl (sFlat_app g f) _ ?_ xs ex h
  intro c chunks
  unfold flatmapFilColXTask
  split
  · rfl
  · rw [foldl_append_flatMap (fun ch : Chunk => (ch.items.flatMap g).filter f), List.nil_append,
      hom_elems (fun l => (l.flatMap g).filter f) rfl (sFlat_app g f)]

end OrxPar
