/- Invariants of the worker transition system (`Model/Run.lean`), for every schedule. -/
import OrxPar.Model.Run
import OrxPar.Model.Accept
namespace OrxPar
namespace Run

theorem slice_length (src : Nat → Val) (a n : Nat) : (slice src a n).length = n := by
  simp [slice]

theorem slice_append (src : Nat → Val) (a n m : Nat) :
    slice src a (n + m) = slice src a n ++ slice src (a + n) m := by
  simp [slice, ← List.range'_append_1]

theorem slice_ne_nil (src : Nat → Val) (a n : Nat) (h : 0 < n) : slice src a n ≠ [] := by
  intro e
  have := congrArg List.length e
  simp [slice_length] at this
  omega

/-- appending one more pull to a tiling -/
theorem Tiles_snoc (l : List Chunk) (a : Nat) (xs : List Val) (c : Chunk) (h : Tiles l a xs)
    (hs : c.start = a + xs.length) (hne : c.items ≠ []) : Tiles (l ++ [c]) a (xs ++ c.items) := by
  induction l generalizing a xs with
  | nil =>
    simp only [Tiles] at h
    subst h
    simp only [List.nil_append, Tiles]
    exact ⟨by simpa using hs, hne, [], by simp, rfl⟩
  | cons d l ih =>
    obtain ⟨h1, h2, rest, rfl, h4⟩ := h
    simp only [List.cons_append, Tiles]
    refine ⟨h1, h2, rest ++ c.items, by simp, ?_⟩
    apply ih _ _ h4
    simp only [List.length_append] at hs
    omega

/-- the chunks of a tiling carry exactly the elements, in order -/
theorem Tiles_flatten {l : List Chunk} {a : Nat} {xs : List Val} (h : Tiles l a xs) :
    (l.map (·.items)).flatten = xs := by
  induction l generalizing a xs with
  | nil => simpa [Tiles] using h.symm
  | cons c l ih =>
    obtain ⟨_, _, rest, rfl, hr⟩ := h
    simp [ih hr]

def idx (l : List Val) (a : Nat) : List (Nat × Val) := (l.zipIdx a).map fun p => (p.2, p.1)

theorem idx_append (l₁ l₂ : List Val) (a : Nat) :
    idx (l₁ ++ l₂) a = idx l₁ a ++ idx l₂ (a + l₁.length) := by
  simp [idx, List.zipIdx_append]

theorem idx_cons (x : Val) (l : List Val) (a : Nat) : idx (x :: l) a = (a, x) :: idx l (a + 1) := by
  simp [idx, List.zipIdx_cons]

theorem idxElems_append (l₁ l₂ : List Chunk) : K.idxElems (l₁ ++ l₂) = K.idxElems l₁ ++ K.idxElems l₂ := by
  simp [K.idxElems]

theorem idxElems_single (c : Chunk) : K.idxElems [c] = idx c.items c.start := by
  simp [K.idxElems, idx]

theorem Tiles_idxElems {l : List Chunk} {a : Nat} {xs : List Val} (h : Tiles l a xs) :
    K.idxElems l = idx xs a := by
  induction l generalizing a xs with
  | nil => simp [Tiles] at h; subst h; simp [K.idxElems, idx]
  | cons c l ih =>
    obtain ⟨h1, _, rest, rfl, hr⟩ := h
    have := ih hr
    rw [show c :: l = [c] ++ l from rfl, idxElems_append, idxElems_single, this, idx_append, h1]


/-! ### the step invariant -/

def elemsOf (log : List Chunk) (t : Nat) : List (Nat × Val) := K.idxElems (log.filter (·.tid == t))

theorem elemsOf_append (l₁ l₂ : List Chunk) (t : Nat) :
    elemsOf (l₁ ++ l₂) t = elemsOf l₁ t ++ elemsOf l₂ t := by
  simp [elemsOf, idxElems_append]

def NoHit (hit : Val → Bool) (l : List (Nat × Val)) : Prop := ∀ p ∈ l, hit p.2 = false

/-- per-worker part of the invariant -/
structure WInv (s : State) (t : Nat) (w : Worker) : Prop where
  cpos : 0 < w.c
  own : elemsOf s.log t = w.seen ++ idx w.buf w.bufPos ++ w.dropped
  nofound : w.found = none → NoHit s.hit w.seen ∧ w.dropped = []
  found : ∀ q, w.found = some q → ∃ ini, w.seen = ini ++ [q] ∧ NoHit s.hit ini ∧ s.hit q.2 = true ∧ w.buf = []
  running : w.status = .running → w.found = none
  publishing : w.status = .publishing → w.found.isSome
  fin : w.status = .done → w.buf = [] ∧
    (w.found.isSome ∨ s.stopped = true ∨ ∃ l, s.len = some l ∧ l ≤ s.pos)

structure Inv (s : State) : Prop where
  tile : Tiles s.log 0 (slice s.src 0 (covered s))
  ws : ∀ t w, s.ws[t]? = some w → WInv s t w
  stoppedBy : s.stopped = true → ∃ w ∈ s.ws, w.found.isSome
  tids : ∀ c ∈ s.log, c.tid < s.ws.length
  bound : ∀ l, s.len = some l → s.pos < l ∨ covered s = l

theorem get_set_self {ws : List Worker} {t : Nat} {w w' : Worker} (h : ws[t]? = some w) :
    (ws.set t w')[t]? = some w' := by
  have hlt : t < ws.length := (List.getElem?_eq_some_iff.1 h).1
  simp [List.getElem?_set_self hlt]

theorem get_set_ne {ws : List Worker} {t t' : Nat} (w' : Worker) (h : t' ≠ t) :
    (ws.set t w')[t']? = ws[t']? := List.getElem?_set_ne (Ne.symm h)

theorem step_frame (s : State) (t : Nat) :
    (step s t).ws.length = s.ws.length ∧ (step s t).src = s.src ∧ (step s t).len = s.len ∧
    (step s t).hit = s.hit := by
  unfold step
  split
  · exact ⟨rfl, rfl, rfl, rfl⟩
  · split
    · exact ⟨rfl, rfl, rfl, rfl⟩
    · simp
    · split
      · split <;> simp
      · split <;> simp

end Run
end OrxPar
