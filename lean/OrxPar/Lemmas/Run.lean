/- Invariants of the worker transition system (`Model/Run.lean`), for every schedule. -/
import OrxPar.Model.Run
import OrxPar.Model.Accept
namespace OrxPar
namespace Run

theorem slice_length (src : Nat → Val) (a n : Nat) : (slice src a n).length = n := by
  simp [slice]

theorem slice_append (src : Nat → Val) (a n m : Nat) :
    slice src a (n + m) = slice src a n ++ slice src (a + n) m := by
  simp [slice, ← List.range'_append_1]

theorem slice_ne_nil (src : Nat → Val) (a n : Nat) (h : 0 < n) : slice src a n ≠ [] := by
  intro e
  have := congrArg List.length e
  simp [slice_length] at this
  omega

/-- appending one more pull to a tiling -/
theorem Tiles_snoc (l : List Chunk) (a : Nat) (xs : List Val) (c : Chunk) (h : Tiles l a xs)
    (hs : c.start = a + xs.length) (hne : c.items ≠ []) : Tiles (l ++ [c]) a (xs ++ c.items) := by
  induction l generalizing a xs with
  | nil =>
    simp only [Tiles] at h
    subst h
    simp only [List.nil_append, Tiles]
    exact ⟨by simpa using hs, hne, [], by simp, rfl⟩
  | cons d l ih =>
    obtain ⟨h1, h2, rest, rfl, h4⟩ := h
    simp only [List.cons_append, Tiles]
    refine ⟨h1, h2, rest ++ c.items, by simp, ?_⟩
    apply ih _ _ h4
    simp only [List.length_append] at hs
    omega

/-- the chunks of a tiling carry exactly the elements, in order -/
theorem Tiles_flatten {l : List Chunk} {a : Nat} {xs : List Val} (h : Tiles l a xs) :
    (l.map (·.items)).flatten = xs := by
  induction l generalizing a xs with
  | nil => simpa [Tiles] using h.symm
  | cons c l ih =>
    obtain ⟨_, _, rest, rfl, hr⟩ := h
    simp [ih hr]

def idx (l : List Val) (a : Nat) : List (Nat × Val) := (l.zipIdx a).map fun p => (p.2, p.1)

theorem idx_append (l₁ l₂ : List Val) (a : Nat) :
    idx (l₁ ++ l₂) a = idx l₁ a ++ idx l₂ (a + l₁.length) := by
  simp [idx, List.zipIdx_append]

theorem idx_cons (x : Val) (l : List Val) (a : Nat) : idx (x :: l) a = (a, x) :: idx l (a + 1) := by
  simp [idx, List.zipIdx_cons]

theorem idxElems_append (l₁ l₂ : List Chunk) : K.idxElems (l₁ ++ l₂) = K.idxElems l₁ ++ K.idxElems l₂ := by
  simp [K.idxElems]

theorem idxElems_single (c : Chunk) : K.idxElems [c] = idx c.items c.start := by
  simp [K.idxElems, idx]

theorem Tiles_idxElems {l : List Chunk} {a : Nat} {xs : List Val} (h : Tiles l a xs) :
    K.idxElems l = idx xs a := by
  induction l generalizing a xs with
  | nil => simp [Tiles] at h; subst h; simp [K.idxElems, idx]
  | cons c l ih =>
    obtain ⟨h1, _, rest, rfl, hr⟩ := h
    have := ih hr
    rw [show c :: l = [c] ++ l from rfl, idxElems_append, idxElems_single, this, idx_append, h1]


/-! ### the step invariant -/

def elemsOf (log : List Chunk) (t : Nat) : List (Nat × Val) := K.idxElems (log.filter (·.tid == t))

theorem elemsOf_append (l₁ l₂ : List Chunk) (t : Nat) :
    elemsOf (l₁ ++ l₂) t = elemsOf l₁ t ++ elemsOf l₂ t := by
  simp [elemsOf, idxElems_append]

def NoHit (hit : Val → Bool) (l : List (Nat × Val)) : Prop := ∀ p ∈ l, hit p.2 = false

/-- per-worker part of the invariant -/
structure WInv (s : State) (t : Nat) (w : Worker) : Prop where
  cpos : 0 < w.c
  own : elemsOf s.log t = w.seen ++ idx w.buf w.bufPos ++ w.dropped
  nofound : w.found = none → NoHit s.hit w.seen ∧ w.dropped = []
  found : ∀ q, w.found = some q → ∃ ini, w.seen = ini ++ [q] ∧ NoHit s.hit ini ∧ s.hit q.2 = true ∧ w.buf = []
  running : w.status = .running → w.found = none
  publishing : w.status = .publishing → w.found.isSome
  fin : w.status = .done → w.buf = [] ∧
    (w.found.isSome ∨ s.stopped = true ∨ ∃ l, s.len = some l ∧ l ≤ s.pos)

structure Inv (s : State) : Prop where
  tile : Tiles s.log 0 (slice s.src 0 (covered s))
  ws : ∀ t w, s.ws[t]? = some w → WInv s t w
  stoppedBy : s.stopped = true → ∃ (t : Nat) (w : Worker), s.ws[t]? = some w ∧ w.found.isSome
  tids : ∀ c ∈ s.log, c.tid < s.ws.length

theorem get_set_self {ws : List Worker} {t : Nat} {w w' : Worker} (h : ws[t]? = some w) :
    (ws.set t w')[t]? = some w' := by
  have hlt : t < ws.length := (List.getElem?_eq_some_iff.1 h).1
  simp [List.getElem?_set_self hlt]

theorem get_set_ne {ws : List Worker} {t t' : Nat} (w' : Worker) (h : t' ≠ t) :
    (ws.set t w')[t']? = ws[t']? := List.getElem?_set_ne (Ne.symm h)

/-! ### the five kinds of steps -/

theorem step_none {s : State} {t : Nat} (h : s.ws[t]? = none) : step s t = s := by
  simp [step, h]

theorem step_done {s : State} {t : Nat} {w : Worker} (h : s.ws[t]? = some w)
    (hst : w.status = .done) : step s t = s := by
  simp [step, h, hst]

theorem step_publish {s : State} {t : Nat} {w : Worker} (h : s.ws[t]? = some w)
    (hst : w.status = .publishing) :
    step s t = { s with stopped := true, ws := s.ws.set t { w with status := .done } } := by
  simp [step, h, hst]

/-- the worker after evaluating a hit `x` at the head of its buffer `x :: rest` -/
def hitW (w : Worker) (x : Val) (rest : List Val) : Worker :=
  { w with buf := [], seen := w.seen ++ [(w.bufPos, x)], found := some (w.bufPos, x),
           status := .publishing,
           dropped := (rest.zipIdx (w.bufPos + 1)).map fun p => (p.2, p.1) }

theorem step_hit {s : State} {t : Nat} {w : Worker} {x : Val} {rest : List Val}
    (h : s.ws[t]? = some w) (hst : w.status = .running) (hb : w.buf = x :: rest)
    (hx : s.hit x = true) :
    step s t = { s with ws := s.ws.set t (hitW w x rest) } := by
  simp [step, h, hst, hb, hx, hitW]

/-- the worker after evaluating a non-hit `x` at the head of its buffer `x :: rest` -/
def nohitW (w : Worker) (x : Val) (rest : List Val) : Worker :=
  { w with buf := rest, bufPos := w.bufPos + 1, seen := w.seen ++ [(w.bufPos, x)] }

theorem step_nohit {s : State} {t : Nat} {w : Worker} {x : Val} {rest : List Val}
    (h : s.ws[t]? = some w) (hst : w.status = .running) (hb : w.buf = x :: rest)
    (hx : s.hit x = false) :
    step s t = { s with ws := s.ws.set t (nohitW w x rest) } := by
  simp [step, h, hst, hb, hx, nohitW]

theorem step_finish {s : State} {t : Nat} {w : Worker}
    (h : s.ws[t]? = some w) (hst : w.status = .running) (hb : w.buf = [])
    (hx : s.stopped = true ∨ avail s.len s.pos w.c = 0) :
    step s t = { s with ws := s.ws.set t { w with status := .done } } := by
  rcases hx with hx | hx <;> simp [step, h, hst, hb, hx]

/-- the state after a successful pull of worker `t` -/
def pullS (s : State) (t : Nat) (w : Worker) : State :=
  { s with pos := s.pos + w.c,
           ws := s.ws.set t
             { w with buf := slice s.src s.pos (avail s.len s.pos w.c), bufPos := s.pos },
           log := s.log ++ [⟨t, s.pos, slice s.src s.pos (avail s.len s.pos w.c)⟩] }

theorem step_pull {s : State} {t : Nat} {w : Worker}
    (h : s.ws[t]? = some w) (hst : w.status = .running) (hb : w.buf = [])
    (hs : s.stopped = false) (hn : avail s.len s.pos w.c ≠ 0) :
    step s t = pullS s t w := by
  simp [step, h, hst, hb, hs, hn, pullS]

/-- case analysis on a step -/
theorem step_cases {P : State → Prop} (s : State) (t : Nat)
    (hskip : (s.ws[t]? = none ∨ ∃ w, s.ws[t]? = some w ∧ w.status = .done) → P s)
    (hpub : ∀ w, s.ws[t]? = some w → w.status = .publishing →
      P { s with stopped := true, ws := s.ws.set t { w with status := .done } })
    (hhit : ∀ w x rest, s.ws[t]? = some w → w.status = .running → w.buf = x :: rest →
      s.hit x = true → P { s with ws := s.ws.set t (hitW w x rest) })
    (hnohit : ∀ w x rest, s.ws[t]? = some w → w.status = .running → w.buf = x :: rest →
      s.hit x = false → P { s with ws := s.ws.set t (nohitW w x rest) })
    (hfin : ∀ w, s.ws[t]? = some w → w.status = .running → w.buf = [] →
      (s.stopped = true ∨ avail s.len s.pos w.c = 0) →
      P { s with ws := s.ws.set t { w with status := .done } })
    (hpull : ∀ w, s.ws[t]? = some w → w.status = .running → w.buf = [] →
      s.stopped = false → avail s.len s.pos w.c ≠ 0 → P (pullS s t w)) :
    P (step s t) := by
  cases hw : s.ws[t]? with
  | none => rw [step_none hw]; exact hskip (Or.inl hw)
  | some w =>
    cases hst : w.status with
    | done => rw [step_done hw hst]; exact hskip (Or.inr ⟨w, hw, hst⟩)
    | publishing => rw [step_publish hw hst]; exact hpub w hw hst
    | running =>
      cases hb : w.buf with
      | cons x rest =>
        cases hx : s.hit x with
        | true => rw [step_hit hw hst hb hx]; exact hhit w x rest hw hst hb hx
        | false => rw [step_nohit hw hst hb hx]; exact hnohit w x rest hw hst hb hx
      | nil =>
        cases hs : s.stopped with
        | true => rw [step_finish hw hst hb (Or.inl hs)]; exact hfin w hw hst hb (Or.inl hs)
        | false =>
          by_cases hn : avail s.len s.pos w.c = 0
          · rw [step_finish hw hst hb (Or.inr hn)]; exact hfin w hw hst hb (Or.inr hn)
          · rw [step_pull hw hst hb hs hn]; exact hpull w hw hst hb hs hn

theorem step_frame (s : State) (t : Nat) :
    (step s t).ws.length = s.ws.length ∧ (step s t).src = s.src ∧ (step s t).len = s.len ∧
    (step s t).hit = s.hit := by
  apply step_cases s t (P := fun s' => s'.ws.length = s.ws.length ∧ s'.src = s.src ∧
    s'.len = s.len ∧ s'.hit = s.hit) <;> intros <;> simp [pullS]

theorem run_frame (s : State) (sched : List Nat) :
    (run s sched).ws.length = s.ws.length ∧ (run s sched).src = s.src ∧ (run s sched).len = s.len ∧
    (run s sched).hit = s.hit := by
  induction sched generalizing s with
  | nil => exact ⟨rfl, rfl, rfl, rfl⟩
  | cons t ts ih =>
    have h1 := ih (step s t)
    have h2 := step_frame s t
    simp only [run, List.foldl_cons] at h1 ⊢
    exact ⟨h1.1.trans h2.1, h1.2.1.trans h2.2.1, h1.2.2.1.trans h2.2.2.1, h1.2.2.2.trans h2.2.2.2⟩

/-! ### preservation of the invariant -/

theorem WInv.mono {s s' : State} {t : Nat} {w : Worker} (h : WInv s t w)
    (hlog : elemsOf s'.log t = elemsOf s.log t) (hhit : s'.hit = s.hit)
    (hst : s.stopped = true → s'.stopped = true) (hlen : s'.len = s.len)
    (hpos : s.pos ≤ s'.pos) : WInv s' t w := by
  refine ⟨h.cpos, hlog.trans h.own, ?_, ?_, h.running, h.publishing, ?_⟩
  · rw [hhit]; exact h.nofound
  · rw [hhit]; exact h.found
  · intro hd
    obtain ⟨h1, h2⟩ := h.fin hd
    refine ⟨h1, ?_⟩
    rcases h2 with h2 | h2 | ⟨l, hl, hle⟩
    · exact Or.inl h2
    · exact Or.inr (Or.inl (hst h2))
    · exact Or.inr (Or.inr ⟨l, by rw [hlen]; exact hl, by omega⟩)

/-- a step that only replaces worker `t` -/
theorem inv_set {s s' : State} {t : Nat} {w w' : Worker} (h : Inv s) (hw : s.ws[t]? = some w)
    (hws : s'.ws = s.ws.set t w') (hsrc : s'.src = s.src) (hlen : s'.len = s.len)
    (hhit : s'.hit = s.hit) (hpos : s'.pos = s.pos) (hlog : s'.log = s.log)
    (hstop : s.stopped = true → s'.stopped = true)
    (hstop' : s'.stopped = true → s.stopped = true ∨ w'.found.isSome)
    (hfound : w.found.isSome → w'.found.isSome)
    (hW : WInv s' t w') : Inv s' := by
  refine ⟨?_, ?_, ?_, ?_⟩
  · have : covered s' = covered s := by simp only [covered, hlen, hpos]
    rw [hlog, hsrc, this]; exact h.tile
  · intro t' w'' hw''
    rw [hws] at hw''
    by_cases htt : t' = t
    · subst htt
      rw [get_set_self hw] at hw''
      cases hw''
      exact hW
    · rw [get_set_ne _ htt] at hw''
      exact (h.ws t' w'' hw'').mono (by rw [hlog]) hhit hstop hlen (by omega)
  · intro hs
    rcases hstop' hs with h1 | h1
    · obtain ⟨t', w0, hw0, hf⟩ := h.stoppedBy h1
      by_cases htt : t' = t
      · subst htt
        rw [hw] at hw0
        cases hw0
        exact ⟨t', w', by rw [hws]; exact get_set_self hw, hfound hf⟩
      · exact ⟨t', w0, by rw [hws, get_set_ne _ htt]; exact hw0, hf⟩
    · exact ⟨t, w', by rw [hws]; exact get_set_self hw, h1⟩
  · intro c hc
    rw [hws, List.length_set]
    rw [hlog] at hc
    exact h.tids c hc

/-- `covered` as a function of the length and the position -/
def cov (len : Option Nat) (pos : Nat) : Nat :=
  match len with
  | none => pos
  | some l => Nat.min pos l

theorem covered_eq_cov (s : State) : covered s = cov s.len s.pos := rfl

theorem avail_covered (len : Option Nat) (pos c : Nat) (hn : avail len pos c ≠ 0) :
    cov len pos = pos ∧ cov len (pos + c) = pos + avail len pos c := by
  cases len with
  | none => simp [avail, cov]
  | some l =>
    simp only [avail, cov, Nat.min_def] at hn ⊢
    split at hn <;> constructor <;> split <;> omega

theorem avail_zero (len : Option Nat) (pos c : Nat) (hc : 0 < c) (hn : avail len pos c = 0) :
    ∃ l, len = some l ∧ l ≤ pos := by
  cases len with
  | none => simp [avail] at hn; omega
  | some l =>
    refine ⟨l, rfl, ?_⟩
    simp only [avail, Nat.min_def] at hn
    split at hn <;> omega

theorem elemsOf_single_self (t a : Nat) (l : List Val) : elemsOf [⟨t, a, l⟩] t = idx l a := by
  simp [elemsOf, idxElems_single]

theorem elemsOf_single_ne (t t' a : Nat) (l : List Val) (h : t' ≠ t) :
    elemsOf [⟨t, a, l⟩] t' = [] := by
  have : (t == t') = false := by simpa using Ne.symm h
  simp [elemsOf, this, K.idxElems]

theorem idx_nil (a : Nat) : idx [] a = [] := rfl

/-- the invariant holds initially (all chunk sizes positive) … -/
theorem init_inv (src : Nat → Val) (len : Option Nat) (hit : Val → Bool) (cs : List Nat)
    (hpos : ∀ c ∈ cs, 0 < c) : Inv (init src len hit cs) := by
  refine ⟨?_, ?_, ?_, ?_⟩
  · have : covered (init src len hit cs) = 0 := by
      cases len <;> simp [covered, init]
    rw [this]
    simp [init, Tiles, slice]
  · intro t w hw
    simp only [init, List.getElem?_map, Option.map_eq_some_iff] at hw
    obtain ⟨c, hc, rfl⟩ := hw
    have hc' : c ∈ cs := List.mem_of_getElem? hc
    refine ⟨hpos c hc', ?_, ?_, ?_, ?_, ?_, ?_⟩
    · simp [elemsOf, init, K.idxElems, idx]
    · intro _; exact ⟨(by intro p hp; cases hp), rfl⟩
    · intro q hq; cases hq
    · intro _; rfl
    · intro hq; cases hq
    · intro hq; cases hq
  · intro hs; simp [init] at hs
  · intro c hc; simp [init] at hc

/-- … and is preserved by every step of every worker -/
theorem step_inv (s : State) (t : Nat) (h : Inv s) : Inv (step s t) := by
  apply step_cases s t (P := Inv)
  · intro _; exact h
  · -- publish
    intro w hw hst
    have hwi := h.ws t w hw
    have hf : w.found.isSome = true := hwi.publishing hst
    refine inv_set (w' := { w with status := .done }) h hw rfl rfl rfl rfl rfl rfl (fun _ => rfl)
      (fun _ => Or.inr hf) (fun x => x) ?_
    refine ⟨hwi.cpos, hwi.own, hwi.nofound, hwi.found, ?_, ?_, ?_⟩
    · intro hq; cases hq
    · intro hq; cases hq
    · intro _
      obtain ⟨q, hq⟩ := Option.isSome_iff_exists.1 hf
      obtain ⟨_, _, _, _, hb⟩ := hwi.found q hq
      exact ⟨hb, Or.inl hf⟩
  · -- hit
    intro w x rest hw hst hb hx
    have hwi := h.ws t w hw
    have hfn := hwi.running hst
    obtain ⟨hnh, hd⟩ := hwi.nofound hfn
    refine inv_set (w' := hitW w x rest) h hw rfl rfl rfl rfl rfl rfl (fun x => x)
      (fun x => Or.inl x) (fun _ => rfl) ?_
    refine ⟨hwi.cpos, ?_, ?_, ?_, ?_, ?_, ?_⟩
    · show elemsOf s.log t = (w.seen ++ [(w.bufPos, x)]) ++ idx [] w.bufPos ++ idx rest (w.bufPos + 1)
      rw [hwi.own, hb, idx_cons, hd, idx_nil]
      simp
    · intro hq; cases hq
    · intro q hq
      cases hq
      exact ⟨w.seen, rfl, hnh, hx, rfl⟩
    · intro hq; cases hq
    · intro _; rfl
    · intro hq; cases hq
  · -- no hit
    intro w x rest hw hst hb hx
    have hwi := h.ws t w hw
    have hfn := hwi.running hst
    obtain ⟨hnh, hd⟩ := hwi.nofound hfn
    refine inv_set (w' := nohitW w x rest) h hw rfl rfl rfl rfl rfl rfl (fun x => x)
      (fun x => Or.inl x) (fun x => x) ?_
    refine ⟨hwi.cpos, ?_, ?_, ?_, ?_, ?_, ?_⟩
    · show elemsOf s.log t = (w.seen ++ [(w.bufPos, x)]) ++ idx rest (w.bufPos + 1) ++ w.dropped
      rw [hwi.own, hb, idx_cons]
      simp
    · intro _
      refine ⟨?_, hd⟩
      intro p hp
      rcases List.mem_append.1 hp with hp | hp
      · exact hnh p hp
      · rw [List.mem_singleton.1 hp]; exact hx
    · intro q hq
      have : w.found = some q := hq
      rw [hfn] at this; cases this
    · intro _; exact hfn
    · intro hq; exact nomatch hq.symm.trans hst
    · intro hq; exact nomatch hq.symm.trans hst
  · -- finish
    intro w hw hst hb hx
    have hwi := h.ws t w hw
    refine inv_set (w' := { w with status := .done }) h hw rfl rfl rfl rfl rfl rfl (fun x => x)
      (fun x => Or.inl x) (fun x => x) ?_
    refine ⟨hwi.cpos, hwi.own, hwi.nofound, hwi.found, ?_, ?_, ?_⟩
    · intro hq; cases hq
    · intro hq; cases hq
    · intro _
      refine ⟨hb, Or.inr ?_⟩
      rcases hx with hx | hx
      · exact Or.inl hx
      · exact Or.inr (avail_zero _ _ _ hwi.cpos hx)
  · -- pull
    intro w hw hst hb hs hn
    have hwi := h.ws t w hw
    have hfn := hwi.running hst
    obtain ⟨hnh, hd⟩ := hwi.nofound hfn
    have hlt : t < s.ws.length := (List.getElem?_eq_some_iff.1 hw).1
    obtain ⟨hc1, hc2⟩ := avail_covered s.len s.pos w.c hn
    have hcov : covered s = s.pos := hc1
    have hcov' : covered (pullS s t w) = s.pos + avail s.len s.pos w.c := hc2
    refine ⟨?_, ?_, ?_, ?_⟩
    · rw [hcov']
      show Tiles (s.log ++ [⟨t, s.pos, slice s.src s.pos (avail s.len s.pos w.c)⟩]) 0
        (slice s.src 0 (s.pos + avail s.len s.pos w.c))
      rw [slice_append, Nat.zero_add]
      have ht := h.tile
      rw [hcov] at ht
      exact Tiles_snoc _ _ _ ⟨t, s.pos, slice s.src s.pos (avail s.len s.pos w.c)⟩ ht
        (by simp [slice_length]) (slice_ne_nil _ _ _ (Nat.pos_of_ne_zero hn))
    · intro t' w'' hw''
      by_cases htt : t' = t
      · subst htt
        have : (pullS s t' w).ws[t']? = some _ := get_set_self hw
        rw [this] at hw''
        cases hw''
        refine ⟨hwi.cpos, ?_, hwi.nofound, ?_, hwi.running, hwi.publishing, ?_⟩
        · show elemsOf (s.log ++ [⟨t', s.pos, slice s.src s.pos (avail s.len s.pos w.c)⟩]) t' =
            w.seen ++ idx (slice s.src s.pos (avail s.len s.pos w.c)) s.pos ++ w.dropped
          rw [elemsOf_append, hwi.own, hb, hd, idx_nil, elemsOf_single_self]
          simp
        · intro q hq
          have : w.found = some q := hq
          rw [hfn] at this; cases this
        · intro hq; exact nomatch hq.symm.trans hst
      · have : (pullS s t w).ws[t']? = s.ws[t']? := get_set_ne _ htt
        rw [this] at hw''
        refine (h.ws t' w'' hw'').mono ?_ rfl (fun x => x) rfl (Nat.le_add_right _ _)
        show elemsOf (s.log ++ [⟨t, s.pos, slice s.src s.pos (avail s.len s.pos w.c)⟩]) t' = _
        rw [elemsOf_append, elemsOf_single_ne _ _ _ _ htt, List.append_nil]
    · intro hs'
      have : s.stopped = true := hs'
      rw [hs] at this; cases this
    · intro c hc
      have hlen : (pullS s t w).ws.length = s.ws.length := by simp [pullS]
      rw [hlen]
      have : c ∈ s.log ++ [⟨t, s.pos, slice s.src s.pos (avail s.len s.pos w.c)⟩] := hc
      rcases List.mem_append.1 this with hc | hc
      · exact h.tids c hc
      · rw [List.mem_singleton.1 hc]; exact hlt

theorem run_inv (s : State) (sched : List Nat) (h : Inv s) : Inv (run s sched) := by
  induction sched generalizing s with
  | nil => exact h
  | cons t ts ih => exact ih (step s t) (step_inv s t h)

/-! ### consequences for finished runs -/

theorem slice_take (src : Nat → Val) (k N : Nat) (h : k ≤ N) :
    (slice src 0 N).take k = slice src 0 k := by
  obtain ⟨m, rfl⟩ := Nat.exists_eq_add_of_le h
  rw [slice_append]
  exact List.take_left' (slice_length _ _ _)

theorem elemsOf_subset {log : List Chunk} {t : Nat} {p : Nat × Val} (h : p ∈ elemsOf log t) :
    p ∈ K.idxElems log := by
  simp only [elemsOf, K.idxElems, List.mem_flatMap, List.mem_filter] at h ⊢
  obtain ⟨c, ⟨hc, _⟩, hp⟩ := h
  exact ⟨c, hc, hp⟩

theorem mem_idx {l : List Val} {a : Nat} {p : Nat × Val} (h : p ∈ idx l a) : p.2 ∈ l := by
  simp only [idx, List.mem_map] at h
  obtain ⟨q, hq, rfl⟩ := h
  exact (List.mem_zipIdx hq).2.2 ▸ List.getElem_mem _

theorem slice_ofList (xs : List Val) : slice (ofList xs) 0 xs.length = xs := by
  apply List.ext_getElem
  · simp [slice_length]
  · intro i h1 h2
    simp [slice, ofList, h2]

/-- at the end: either the evaluated prefix contains a hit, or nobody found anything, the
    iterator was never stopped and the source is exhausted -/
theorem inv_covers (s : State) (h : Inv s) (hd : AllDone s) (hne : 0 < s.ws.length) :
    (∃ x ∈ slice s.src 0 (covered s), s.hit x = true) ∨
    (s.stopped = false ∧ (∀ (t : Nat) (w : Worker), s.ws[t]? = some w → w.found = none) ∧
      ∃ l, s.len = some l ∧ l ≤ s.pos) := by
  by_cases hex : ∃ (t : Nat) (w : Worker), s.ws[t]? = some w ∧ w.found.isSome
  · left
    obtain ⟨t, w, hw, hf⟩ := hex
    have hwi := h.ws t w hw
    obtain ⟨q, hq⟩ := Option.isSome_iff_exists.1 hf
    obtain ⟨ini, hseen, _, hhit, _⟩ := hwi.found q hq
    refine ⟨q.2, ?_, hhit⟩
    have h1 : q ∈ elemsOf s.log t := by
      rw [hwi.own, hseen]; simp
    have h2 := elemsOf_subset h1
    rw [Tiles_idxElems h.tile] at h2
    exact mem_idx h2
  · right
    have hnone : ∀ (t : Nat) (w : Worker), s.ws[t]? = some w → w.found = none := by
      intro t w hw
      cases hf : w.found with
      | none => rfl
      | some q => exact absurd ⟨t, w, hw, by simp [hf]⟩ hex
    have hst : s.stopped = false := by
      cases hs : s.stopped with
      | false => rfl
      | true => exact absurd (h.stoppedBy hs) hex
    refine ⟨hst, hnone, ?_⟩
    have hw0 : s.ws[0]? = some s.ws[0] := List.getElem?_eq_getElem hne
    have hd0 := hd _ (List.getElem_mem hne)
    rcases ((h.ws 0 _ hw0).fin hd0).2 with h1 | h1 | h1
    · rw [hnone 0 _ hw0] at h1; cases h1
    · rw [hst] at h1; cases h1
    · exact h1

/-- the execution context a finished run denotes: the pull log, workers in spawn order -/
def execOf (s : State) : Exec :=
  { asg := s.log, order := List.range s.ws.length, cs := fun t => (s.ws[t]?.map (·.c)).getD 1 }

/-- **T-tile / T-stop.** For every schedule: when all workers are done, the pulled chunks are an
    accepted find-execution over any finite window `slice src 0 N` of the source that contains
    everything handed out (`N` = the length if known) -/
theorem run_accepts_find (src : Nat → Val) (len : Option Nat) (hit : Val → Bool) (cs : List Nat)
    (hne : cs ≠ []) (hpos : ∀ c ∈ cs, 0 < c) (sched : List Nat)
    (hd : AllDone (run (init src len hit cs) sched)) (N : Nat)
    (hN : len = some N ∨ (len = none ∧ covered (run (init src len hit cs) sched) ≤ N)) :
    (execOf (run (init src len hit cs) sched)).AcceptsFindAt (slice src 0 N) hit
      (covered (run (init src len hit cs) sched)) := by
  have hinv := run_inv _ sched (init_inv src len hit cs hpos)
  obtain ⟨hf1, hf2, hf3, hf4⟩ := run_frame (init src len hit cs) sched
  generalize run (init src len hit cs) sched = s at *
  have hf1 : s.ws.length = cs.length := by simpa [init] using hf1
  have hf2 : s.src = src := hf2
  have hf3 : s.len = len := hf3
  have hf4 : s.hit = hit := hf4
  have hlen : 0 < s.ws.length := by rw [hf1]; exact List.length_pos_iff.2 hne
  have hcov : covered s ≤ N := by
    rcases hN with hN | hN
    · rw [covered_eq_cov, hf3, hN]
      simp only [cov, Nat.min_def]; split <;> omega
    · exact hN.2
  have htake : (slice src 0 N).take (covered s) = slice src 0 (covered s) := slice_take _ _ _ hcov
  refine ⟨?_, List.nodup_range, ?_, ?_⟩
  · rw [htake, ← hf2]; exact hinv.tile
  · intro c hc
    exact List.mem_range.2 (hinv.tids c hc)
  · rw [htake, slice_length]
    rcases inv_covers s hinv hd hlen with ⟨x, hx, hh⟩ | ⟨_, _, l, hl, hle⟩
    · right
      rw [hf2] at hx; rw [hf4] at hh
      exact ⟨x, hx, hh⟩
    · left
      rw [hf3] at hl
      rcases hN with hN | hN
      · rw [hN] at hl; cases hl
        rw [covered_eq_cov, hf3, hN]
        simp only [cov, Nat.min_def]; split <;> omega
      · rw [hN.1] at hl; cases hl

/-- full-visit kernels never stop the iterator: a finished run over a finite source is an
    accepted full execution — the chunks tile the whole source -/
theorem run_accepts_full (xs : List Val) (cs : List Nat) (hne : cs ≠ []) (hpos : ∀ c ∈ cs, 0 < c)
    (sched : List Nat)
    (hd : AllDone (run (init (ofList xs) (some xs.length) (fun _ => false) cs) sched)) :
    (execOf (run (init (ofList xs) (some xs.length) (fun _ => false) cs) sched)).Accepts xs := by
  have h := run_accepts_find (ofList xs) (some xs.length) (fun _ => false) cs hne hpos sched hd
    xs.length (Or.inl rfl)
  obtain ⟨h1, h2, h3, h4⟩ := h
  rw [slice_ofList] at h1 h4
  refine ⟨?_, h2, h3⟩
  rcases h4 with h4 | ⟨x, _, hx⟩
  · rw [List.take_of_length_le h4] at h1
    exact h1
  · cases hx

/-- what a worker reports is the first hit among the elements of the chunks it pulled -/
theorem run_found (src : Nat → Val) (len : Option Nat) (hit : Val → Bool) (cs : List Nat)
    (hpos : ∀ c ∈ cs, 0 < c) (sched : List Nat)
    (hd : AllDone (run (init src len hit cs) sched)) (t : Nat) (w : Worker)
    (hw : (run (init src len hit cs) sched).ws[t]? = some w) :
    w.found = (elemsOf (run (init src len hit cs) sched).log t).find? (fun p => hit p.2) := by
  have hinv := run_inv _ sched (init_inv src len hit cs hpos)
  obtain ⟨_, _, _, hf4⟩ := run_frame (init src len hit cs) sched
  generalize run (init src len hit cs) sched = s at *
  have hf4 : s.hit = hit := hf4
  have hwi := hinv.ws t w hw
  have hb := (hwi.fin (hd w (List.mem_of_getElem? hw))).1
  rw [hwi.own, hb, idx_nil, List.append_nil]
  cases hf : w.found with
  | none =>
    obtain ⟨h1, h2⟩ := hwi.nofound hf
    rw [h2, List.append_nil]
    symm
    rw [List.find?_eq_none]
    intro p hp
    have := h1 p hp
    rw [hf4] at this
    simp [this]
  | some q =>
    obtain ⟨ini, h1, h2, h3, _⟩ := hwi.found q hf
    rw [hf4] at h2 h3
    have hini : ini.find? (fun p => hit p.2) = none := by
      rw [List.find?_eq_none]
      intro p hp
      simp [h2 p hp]
    rw [h1, List.append_assoc, List.find?_append, hini]
    simp [h3]

/-- every worker evaluated exactly a prefix of the elements of its chunks, in order -/
theorem run_seen_prefix (src : Nat → Val) (len : Option Nat) (hit : Val → Bool) (cs : List Nat)
    (hpos : ∀ c ∈ cs, 0 < c) (sched : List Nat) (t : Nat) (w : Worker)
    (hw : (run (init src len hit cs) sched).ws[t]? = some w) :
    w.seen <+: elemsOf (run (init src len hit cs) sched).log t := by
  have hinv := run_inv _ sched (init_inv src len hit cs hpos)
  rw [(hinv.ws t w hw).own, List.append_assoc]
  exact List.prefix_append _ _

/-! ### after a stop -/

/-- what can happen to a worker once the iterator is stopped: it evaluates some more elements
    of the buffer it holds, and either keeps the rest or has nothing left -/
def Consumes (w w' : Worker) : Prop :=
  ∃ k, w'.seen = w.seen ++ (idx w.buf w.bufPos).take k ∧
    (idx w'.buf w'.bufPos = (idx w.buf w.bufPos).drop k ∨ idx w'.buf w'.bufPos = [])

theorem Consumes.refl (w : Worker) : Consumes w w := ⟨0, by simp, Or.inl (by simp)⟩

theorem Consumes.trans {w w' w'' : Worker} (h1 : Consumes w w') (h2 : Consumes w' w'') :
    Consumes w w'' := by
  obtain ⟨k, hs, hb⟩ := h1
  obtain ⟨k', hs', hb'⟩ := h2
  rcases hb with hb | hb
  · refine ⟨k + k', ?_, ?_⟩
    · rw [hs', hs, hb, List.take_add, List.append_assoc]
    · rcases hb' with hb' | hb'
      · left; rw [hb', hb, List.drop_drop]
      · right; exact hb'
  · refine ⟨k, ?_, Or.inr ?_⟩
    · rw [hs', hs, hb]; simp
    · rcases hb' with hb' | hb'
      · rw [hb', hb]; simp
      · exact hb'

/-- one step in a stopped state -/
theorem step_stopped (s : State) (hs : s.stopped = true) (t : Nat) :
    (step s t).log = s.log ∧ (step s t).pos = s.pos ∧ (step s t).stopped = true ∧
    ∀ (t' : Nat) (w w' : Worker), s.ws[t']? = some w → (step s t).ws[t']? = some w' →
      Consumes w w' := by
  have key : ∀ (w w' : Worker), s.ws[t]? = some w → Consumes w w' →
      ∀ (t' : Nat) (v v' : Worker), s.ws[t']? = some v → (s.ws.set t w')[t']? = some v' →
        Consumes v v' := by
    intro w w' hw hc t' v v' hv hv'
    by_cases htt : t' = t
    · subst htt
      rw [get_set_self hw] at hv'
      rw [hw] at hv
      cases hv; cases hv'
      exact hc
    · rw [get_set_ne _ htt, hv] at hv'
      cases hv'
      exact Consumes.refl v
  apply step_cases s t (P := fun s' => s'.log = s.log ∧ s'.pos = s.pos ∧ s'.stopped = true ∧
    ∀ (t' : Nat) (w w' : Worker), s.ws[t']? = some w → s'.ws[t']? = some w' → Consumes w w')
  · intro _
    refine ⟨rfl, rfl, hs, ?_⟩
    intro t' w w' hw hw'
    rw [hw] at hw'; cases hw'
    exact Consumes.refl w
  · intro w hw _
    exact ⟨rfl, rfl, rfl, key w _ hw ⟨0, by simp, Or.inl (by simp)⟩⟩
  · intro w x rest hw _ hb _
    refine ⟨rfl, rfl, hs, key w _ hw ⟨1, ?_, Or.inr rfl⟩⟩
    rw [hb, idx_cons]; rfl
  · intro w x rest hw _ hb _
    refine ⟨rfl, rfl, hs, key w _ hw ⟨1, ?_, Or.inl ?_⟩⟩
    · rw [hb, idx_cons]; rfl
    · rw [hb, idx_cons]; rfl
  · intro w hw _ _ _
    exact ⟨rfl, rfl, hs, key w _ hw ⟨0, by simp, Or.inl (by simp)⟩⟩
  · intro w _ _ _ hs' _
    rw [hs] at hs'; cases hs'

theorem run_stopped (s : State) (hs : s.stopped = true) (sched : List Nat) :
    (run s sched).log = s.log ∧ (run s sched).pos = s.pos ∧ (run s sched).stopped = true ∧
    ∀ (t' : Nat) (w w' : Worker), s.ws[t']? = some w → (run s sched).ws[t']? = some w' →
      Consumes w w' := by
  induction sched generalizing s with
  | nil =>
    refine ⟨rfl, rfl, hs, ?_⟩
    intro t' w w' hw hw'
    have : s.ws[t']? = some w' := hw'
    rw [hw] at this; cases this
    exact Consumes.refl w
  | cons t ts ih =>
    obtain ⟨h1, h2, h3, h4⟩ := step_stopped s hs t
    obtain ⟨i1, i2, i3, i4⟩ := ih (step s t) h3
    simp only [run, List.foldl_cons] at i1 i2 i3 i4 ⊢
    refine ⟨i1.trans h1, i2.trans h2, i3, ?_⟩
    intro t' w w' hw hw'
    have hlt : t' < (step s t).ws.length := by
      rw [(step_frame s t).1]; exact (List.getElem?_eq_some_iff.1 hw).1
    have hw1 : (step s t).ws[t']? = some (step s t).ws[t'] := List.getElem?_eq_getElem hlt
    exact (h4 t' w _ hw hw1).trans (i4 t' _ w' hw1 hw')

/-- **C10 (safety).** once the iterator has been stopped no pull succeeds any more … -/
theorem stopped_no_pull (s : State) (hs : s.stopped = true) (sched : List Nat) :
    (run s sched).log = s.log ∧ (run s sched).pos = s.pos ∧ (run s sched).stopped = true := by
  obtain ⟨h1, h2, h3, _⟩ := run_stopped s hs sched
  exact ⟨h1, h2, h3⟩

/-- … and every worker evaluates at most the rest of the chunk it holds at that moment -/
theorem stopped_eval_bound (s : State) (hs : s.stopped = true) (sched : List Nat) (t : Nat)
    (w w' : Worker) (hw : s.ws[t]? = some w) (hw' : (run s sched).ws[t]? = some w') :
    ∃ k, w'.seen = w.seen ++ (idx w.buf w.bufPos).take k := by
  obtain ⟨_, _, _, h4⟩ := run_stopped s hs sched
  obtain ⟨k, hk, _⟩ := h4 t w w' hw hw'
  exact ⟨k, hk⟩

/-! ### equal chunk sizes -/

/-- the invariant behind `exact_pulls` -/
structure PInv (s : State) (l c : Nat) : Prop where
  len : s.len = some l
  dvd : c ∣ s.pos
  cs : ∀ (t : Nat) (w : Worker), s.ws[t]? = some w → w.c = c
  log : ∀ e ∈ s.log, c ∣ e.start ∧ e.start < l ∧ e.items.length = Nat.min c (l - e.start) ∧
      e.items = slice s.src e.start (Nat.min c (l - e.start))

theorem pinv_set {s s' : State} {l c t : Nat} {w w' : Worker} (h : PInv s l c)
    (hw : s.ws[t]? = some w) (hws : s'.ws = s.ws.set t w') (hc : w'.c = w.c)
    (hsrc : s'.src = s.src) (hlen : s'.len = s.len) (hpos : s'.pos = s.pos)
    (hlog : s'.log = s.log) : PInv s' l c := by
  refine ⟨hlen.trans h.len, hpos ▸ h.dvd, ?_, ?_⟩
  · intro t' v hv
    rw [hws] at hv
    by_cases htt : t' = t
    · subst htt
      rw [get_set_self hw] at hv
      cases hv
      exact hc.trans (h.cs t' w hw)
    · rw [get_set_ne _ htt] at hv
      exact h.cs t' v hv
  · rw [hlog, hsrc]; exact h.log

theorem step_pinv (s : State) (l c : Nat) (h : PInv s l c) (t : Nat) : PInv (step s t) l c := by
  apply step_cases s t (P := fun s' => PInv s' l c)
  · intro _; exact h
  · intro w hw _; exact pinv_set h hw rfl rfl rfl rfl rfl rfl
  · intro w x rest hw _ _ _; exact pinv_set h hw rfl rfl rfl rfl rfl rfl
  · intro w x rest hw _ _ _; exact pinv_set h hw rfl rfl rfl rfl rfl rfl
  · intro w hw _ _ _; exact pinv_set h hw rfl rfl rfl rfl rfl rfl
  · intro w hw _ _ _ hn
    have hwc := h.cs t w hw
    have hav : avail s.len s.pos w.c = Nat.min c (l - s.pos) := by
      rw [h.len, hwc]; rfl
    rw [hav] at hn
    have hlt : s.pos < l := by
      simp only [Nat.min_def] at hn
      split at hn <;> omega
    refine ⟨h.len, ?_, ?_, ?_⟩
    · show c ∣ s.pos + w.c
      rw [hwc]
      exact (Nat.dvd_add_right h.dvd).2 (Nat.dvd_refl c)
    · intro t' v hv
      by_cases htt : t' = t
      · subst htt
        have : (pullS s t' w).ws[t']? = some _ := get_set_self hw
        rw [this] at hv
        cases hv
        exact hwc
      · have : (pullS s t w).ws[t']? = s.ws[t']? := get_set_ne _ htt
        rw [this] at hv
        exact h.cs t' v hv
    · intro e he
      have : e ∈ s.log ++ [⟨t, s.pos, slice s.src s.pos (avail s.len s.pos w.c)⟩] := he
      rcases List.mem_append.1 this with he | he
      · exact h.log e he
      · rw [List.mem_singleton.1 he, hav]
        exact ⟨h.dvd, hlt, slice_length _ _ _, rfl⟩

theorem run_pinv (s : State) (l c : Nat) (h : PInv s l c) (sched : List Nat) :
    PInv (run s sched) l c := by
  induction sched generalizing s with
  | nil => exact h
  | cons t ts ih => exact ih (step s t) (step_pinv s l c h t)

theorem init_pinv (src : Nat → Val) (l : Nat) (hit : Val → Bool) (n c : Nat) :
    PInv (init src (some l) hit (List.replicate n c)) l c := by
  refine ⟨rfl, Nat.dvd_zero c, ?_, ?_⟩
  · intro t w hw
    simp only [init, List.getElem?_map, Option.map_eq_some_iff] at hw
    obtain ⟨c', hc', rfl⟩ := hw
    exact List.eq_of_mem_replicate (List.mem_of_getElem? hc')
  · intro e he; simp [init] at he

/-- **C11 (pulls).** all workers with the same chunk size `c` over a source of known length `l`:
    every pull starts at a multiple of `c`, lies inside the source and takes exactly
    `min c (l − start)` elements -/
theorem exact_pulls (src : Nat → Val) (l : Nat) (hit : Val → Bool) (n c : Nat) (hc : 0 < c)
    (sched : List Nat) :
    ∀ e ∈ (run (init src (some l) hit (List.replicate n c)) sched).log,
      c ∣ e.start ∧ e.start < l ∧ e.items.length = Nat.min c (l - e.start) ∧
      e.items = slice src e.start (Nat.min c (l - e.start)) := by
  have _ := hc
  have h := run_pinv _ l c (init_pinv src l hit n c) sched
  have hsrc : (run (init src (some l) hit (List.replicate n c)) sched).src = src :=
    (run_frame _ sched).2.1
  intro e he
  have := h.log e he
  rw [hsrc] at this
  exact this

/-- hence all positions of an aligned block `[k·c, (k+1)·c)` are pulled by the same worker -/
theorem exact_blocks (src : Nat → Val) (l : Nat) (hit : Val → Bool) (n c : Nat) (hc : 0 < c)
    (sched : List Nat) (e : Chunk)
    (he : e ∈ (run (init src (some l) hit (List.replicate n c)) sched).log) (i : Nat)
    (hi : e.start ≤ i ∧ i < e.start + e.items.length) : i / c = e.start / c := by
  obtain ⟨⟨k, hk⟩, _, hlen, _⟩ := exact_pulls src l hit n c hc sched e he
  have hle : e.items.length ≤ c := by
    rw [hlen]; simp only [Nat.min_def]; split <;> omega
  rw [hk, Nat.mul_div_cancel_left k hc]
  apply Nat.div_eq_of_lt_le
  · rw [Nat.mul_comm]; omega
  · rw [Nat.add_mul, Nat.one_mul, Nat.mul_comm]; omega

/-- progress: a step of a worker that is not done strictly decreases this measure when the
    source is finite, so every sufficiently long fair schedule finishes -/
def measure (s : State) (l : Nat) : Nat :=
  2 * (l - s.pos) + (s.ws.map fun w =>
    w.buf.length + (match w.status with | .running => 2 | .publishing => 1 | .done => 0)).sum

theorem sum_map_set {α : Type} (f : α → Nat) (ws : List α) (t : Nat) (w w' : α)
    (h : ws[t]? = some w) : ((ws.set t w').map f).sum + f w = (ws.map f).sum + f w' := by
  induction ws generalizing t with
  | nil => simp at h
  | cons a ws ih =>
    cases t with
    | zero =>
      simp only [List.getElem?_cons_zero, Option.some.injEq] at h
      subst h
      simp only [List.set_cons_zero, List.map_cons, List.sum_cons]
      omega
    | succ t =>
      simp only [List.getElem?_cons_succ] at h
      have := ih t h
      simp only [List.set_cons_succ, List.map_cons, List.sum_cons]
      omega

theorem step_measure (s : State) (l : Nat) (hl : s.len = some l) (t : Nat) (w : Worker)
    (hw : s.ws[t]? = some w) (hnd : w.status ≠ .done) (hc : 0 < w.c) :
    measure (step s t) l < measure s l := by
  have hsum := fun w' => sum_map_set (fun w : Worker =>
    w.buf.length + (match w.status with | .running => 2 | .publishing => 1 | .done => 0))
    s.ws t w w' hw
  apply step_cases s t (P := fun s' => measure s' l < measure s l)
  · intro h
    rcases h with h | ⟨v, hv, hst⟩
    · rw [hw] at h; cases h
    · rw [hw] at hv; cases hv; exact absurd hst hnd
  · intro v hv hst
    rw [hw] at hv; cases hv
    have := hsum { w with status := .done }
    simp only [measure, hst] at this ⊢
    omega
  · intro v x rest hv hst hb _
    rw [hw] at hv; cases hv
    have := hsum (hitW w x rest)
    simp only [measure, hitW, hst, hb, List.length_cons, List.length_nil] at this ⊢
    omega
  · intro v x rest hv hst hb _
    rw [hw] at hv; cases hv
    have := hsum (nohitW w x rest)
    simp only [measure, nohitW, hst, hb, List.length_cons] at this ⊢
    omega
  · intro v hv hst hb _
    rw [hw] at hv; cases hv
    have := hsum { w with status := .done }
    simp only [measure, hst, hb, List.length_nil] at this ⊢
    omega
  · intro v hv hst hb _ hn
    rw [hw] at hv; cases hv
    have := hsum { w with buf := slice s.src s.pos (avail s.len s.pos w.c), bufPos := s.pos }
    rw [hl] at hn this
    simp only [measure, pullS, hst, hb, hl, List.length_nil, slice_length, avail,
      Nat.min_def] at this hn ⊢
    by_cases hle : w.c ≤ l - s.pos
    · simp only [if_pos hle] at this hn ⊢; omega
    · simp only [if_neg hle] at this hn ⊢; omega

/-- non-vacuity: a finishing schedule in which worker 1 pulls the first chunk, worker 0 finds the
    hit (value 13 at index 3) in a later chunk and stops the iterator, worker 2 never gets anything -/
example : AllDone (run (init (ofList [10, 11, 12, 13, 14, 15, 16]) (some 7) (· == 13) [2, 2, 5])
    [1, 0, 1, 0, 0, 0, 1, 1, 1, 2, 0, 1, 2]) := by
  decide

end Run
end OrxPar
