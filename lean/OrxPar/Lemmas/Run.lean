/- Invariants of the worker transition system (`Model/Run.lean`), for every schedule. -/
import OrxPar.Model.Run
import OrxPar.Model.Accept
namespace OrxPar
namespace Run

theorem slice_length (src : Nat → Val) (a n : Nat) : (slice src a n).length = n := by
  simp [slice]

theorem slice_append (src : Nat → Val) (a n m : Nat) :
    slice src a (n + m) = slice src a n ++ slice src (a + n) m := by
  simp [slice, ← List.range'_append_1]

theorem slice_ne_nil (src : Nat → Val) (a n : Nat) (h : 0 < n) : slice src a n ≠ [] := by
  intro e
  have := congrArg List.length e
  simp [slice_length] at this
  omega

/-- appending one more pull to a tiling -/
theorem Tiles_snoc (l : List Chunk) (a : Nat) (xs : List Val) (c : Chunk) (h : Tiles l a xs)
    (hs : c.start = a + xs.length) (hne : c.items ≠ []) : Tiles (l ++ [c]) a (xs ++ c.items) := by
  induction l generalizing a xs with
  | nil =>
    simp only [Tiles] at h
    subst h
    simp only [List.nil_append, Tiles]
    exact ⟨by simpa using hs, hne, [], by simp, rfl⟩
  | cons d l ih =>
    obtain ⟨h1, h2, rest, rfl, h4⟩ := h
    simp only [List.cons_append, Tiles]
    refine ⟨h1, h2, rest ++ c.items, by simp, ?_⟩
    apply ih _ _ h4
    simp only [List.length_append] at hs
    omega

/-- the chunks of a tiling carry exactly the elements, in order -/
theorem Tiles_flatten {l : List Chunk} {a : Nat} {xs : List Val} (h : Tiles l a xs) :
    (l.map (·.items)).flatten = xs := by
  induction l generalizing a xs with
  | nil => simpa [Tiles] using h.symm
  | cons c l ih =>
    obtain ⟨_, _, rest, rfl, hr⟩ := h
    simp [ih hr]

def idx (l : List Val) (a : Nat) : List (Nat × Val) := (l.zipIdx a).map fun p => (p.2, p.1)

theorem idx_append (l₁ l₂ : List Val) (a : Nat) :
    idx (l₁ ++ l₂) a = idx l₁ a ++ idx l₂ (a + l₁.length) := by
  simp [idx, List.zipIdx_append]

theorem idx_cons (x : Val) (l : List Val) (a : Nat) : idx (x :: l) a = (a, x) :: idx l (a + 1) := by
  simp [idx, List.zipIdx_cons]

theorem idxElems_append (l₁ l₂ : List Chunk) : K.idxElems (l₁ ++ l₂) = K.idxElems l₁ ++ K.idxElems l₂ := by
  simp [K.idxElems]

theorem idxElems_single (c : Chunk) : K.idxElems [c] = idx c.items c.start := by
  simp [K.idxElems, idx]

theorem Tiles_idxElems {l : List Chunk} {a : Nat} {xs : List Val} (h : Tiles l a xs) :
    K.idxElems l = idx xs a := by
  induction l generalizing a xs with
  | nil => simp [Tiles] at h; subst h; simp [K.idxElems, idx]
  | cons c l ih =>
    obtain ⟨h1, _, rest, rfl, hr⟩ := h
    have := ih hr
    rw [show c :: l = [c] ++ l from rfl, idxElems_append, idxElems_single, this, idx_append, h1]


/-! ### the step invariant -/

def elemsOf (log : List Chunk) (t : Nat) : List (Nat × Val) := K.idxElems (log.filter (·.tid == t))

theorem elemsOf_append (l₁ l₂ : List Chunk) (t : Nat) :
    elemsOf (l₁ ++ l₂) t = elemsOf l₁ t ++ elemsOf l₂ t := by
  simp [elemsOf, idxElems_append]

def NoHit (hit : Val → Bool) (l : List (Nat × Val)) : Prop := ∀ p ∈ l, hit p.2 = false

/-- per-worker part of the invariant -/
structure WInv (s : State) (t : Nat) (w : Worker) : Prop where
  cpos : 0 < w.c
  own : elemsOf s.log t = w.seen ++ idx w.buf w.bufPos ++ w.dropped
  nofound : w.found = none → NoHit s.hit w.seen ∧ w.dropped = []
  found : ∀ q, w.found = some q → ∃ ini, w.seen = ini ++ [q] ∧ NoHit s.hit ini ∧ s.hit q.2 = true ∧ w.buf = []
  running : w.status = .running → w.found = none
  publishing : w.status = .publishing → w.found.isSome
  fin : w.status = .done → w.buf = [] ∧
    (w.found.isSome ∨ s.stopped = true ∨ ∃ l, s.len = some l ∧ l ≤ s.pos)

structure Inv (s : State) : Prop where
  tile : Tiles s.log 0 (slice s.src 0 (covered s))
  ws : ∀ t w, s.ws[t]? = some w → WInv s t w
  stoppedBy : s.stopped = true → ∃ w ∈ s.ws, w.found.isSome
  tids : ∀ c ∈ s.log, c.tid < s.ws.length
  bound : ∀ l, s.len = some l → s.pos < l ∨ covered s = l

theorem get_set_self {ws : List Worker} {t : Nat} {w w' : Worker} (h : ws[t]? = some w) :
    (ws.set t w')[t]? = some w' := by
  have hlt : t < ws.length := (List.getElem?_eq_some_iff.1 h).1
  simp [List.getElem?_set_self hlt]

theorem get_set_ne {ws : List Worker} {t t' : Nat} (w' : Worker) (h : t' ≠ t) :
    (ws.set t w')[t']? = ws[t']? := List.getElem?_set_ne (Ne.symm h)

theorem step_frame (s : State) (t : Nat) :
    (step s t).ws.length = s.ws.length ∧ (step s t).src = s.src ∧ (step s t).len = s.len ∧
    (step s t).hit = s.hit := by
  sorry

theorem run_frame (s : State) (sched : List Nat) :
    (run s sched).ws.length = s.ws.length ∧ (run s sched).src = s.src ∧ (run s sched).len = s.len ∧
    (run s sched).hit = s.hit := by
  sorry

/-- the invariant holds initially (all chunk sizes positive) … -/
theorem init_inv (src : Nat → Val) (len : Option Nat) (hit : Val → Bool) (cs : List Nat)
    (hpos : ∀ c ∈ cs, 0 < c) : Inv (init src len hit cs) := by
  sorry

/-- … and is preserved by every step of every worker -/
theorem step_inv (s : State) (t : Nat) (h : Inv s) : Inv (step s t) := by
  sorry

theorem run_inv (s : State) (sched : List Nat) (h : Inv s) : Inv (run s sched) := by
  sorry

/-- the execution context a finished run denotes: the pull log, workers in spawn order -/
def execOf (s : State) : Exec :=
  { asg := s.log, order := List.range s.ws.length, cs := fun t => (s.ws[t]?.map (·.c)).getD 1 }

/-- **T-tile / T-stop.** For every schedule: when all workers are done, the pulled chunks are an
    accepted find-execution over any finite window `slice src 0 N` of the source that contains
    everything handed out (`N` = the length if known) -/
theorem run_accepts_find (src : Nat → Val) (len : Option Nat) (hit : Val → Bool) (cs : List Nat)
    (hne : cs ≠ []) (hpos : ∀ c ∈ cs, 0 < c) (sched : List Nat)
    (hd : AllDone (run (init src len hit cs) sched)) (N : Nat)
    (hN : len = some N ∨ (len = none ∧ covered (run (init src len hit cs) sched) ≤ N)) :
    (execOf (run (init src len hit cs) sched)).AcceptsFindAt (slice src 0 N) hit
      (covered (run (init src len hit cs) sched)) := by
  sorry

/-- full-visit kernels never stop the iterator: a finished run over a finite source is an
    accepted full execution — the chunks tile the whole source -/
theorem run_accepts_full (xs : List Val) (cs : List Nat) (hne : cs ≠ []) (hpos : ∀ c ∈ cs, 0 < c)
    (sched : List Nat)
    (hd : AllDone (run (init (ofList xs) (some xs.length) (fun _ => false) cs) sched)) :
    (execOf (run (init (ofList xs) (some xs.length) (fun _ => false) cs) sched)).Accepts xs := by
  sorry

/-- what a worker reports is the first hit among the elements of the chunks it pulled -/
theorem run_found (src : Nat → Val) (len : Option Nat) (hit : Val → Bool) (cs : List Nat)
    (hpos : ∀ c ∈ cs, 0 < c) (sched : List Nat)
    (hd : AllDone (run (init src len hit cs) sched)) (t : Nat) (w : Worker)
    (hw : (run (init src len hit cs) sched).ws[t]? = some w) :
    w.found = (elemsOf (run (init src len hit cs) sched).log t).find? (fun p => hit p.2) := by
  sorry

/-- every worker evaluated exactly a prefix of the elements of its chunks, in order -/
theorem run_seen_prefix (src : Nat → Val) (len : Option Nat) (hit : Val → Bool) (cs : List Nat)
    (hpos : ∀ c ∈ cs, 0 < c) (sched : List Nat) (t : Nat) (w : Worker)
    (hw : (run (init src len hit cs) sched).ws[t]? = some w) :
    w.seen <+: elemsOf (run (init src len hit cs) sched).log t := by
  sorry

/-- **C10 (safety).** once the iterator has been stopped no pull succeeds any more … -/
theorem stopped_no_pull (s : State) (hs : s.stopped = true) (sched : List Nat) :
    (run s sched).log = s.log ∧ (run s sched).pos = s.pos ∧ (run s sched).stopped = true := by
  sorry

/-- … and every worker evaluates at most the rest of the chunk it holds at that moment -/
theorem stopped_eval_bound (s : State) (hs : s.stopped = true) (sched : List Nat) (t : Nat)
    (w w' : Worker) (hw : s.ws[t]? = some w) (hw' : (run s sched).ws[t]? = some w') :
    ∃ k, w'.seen = w.seen ++ (idx w.buf w.bufPos).take k := by
  sorry

/-- **C11 (pulls).** all workers with the same chunk size `c` over a source of known length `l`:
    every pull starts at a multiple of `c`, lies inside the source and takes exactly
    `min c (l − start)` elements -/
theorem exact_pulls (src : Nat → Val) (l : Nat) (hit : Val → Bool) (n c : Nat) (hc : 0 < c)
    (sched : List Nat) :
    ∀ e ∈ (run (init src (some l) hit (List.replicate n c)) sched).log,
      c ∣ e.start ∧ e.start < l ∧ e.items.length = Nat.min c (l - e.start) ∧
      e.items = slice src e.start (Nat.min c (l - e.start)) := by
  sorry

/-- hence all positions of an aligned block `[k·c, (k+1)·c)` are pulled by the same worker -/
theorem exact_blocks (src : Nat → Val) (l : Nat) (hit : Val → Bool) (n c : Nat) (hc : 0 < c)
    (sched : List Nat) (e : Chunk)
    (he : e ∈ (run (init src (some l) hit (List.replicate n c)) sched).log) (i : Nat)
    (hi : e.start ≤ i ∧ i < e.start + e.items.length) : i / c = e.start / c := by
  sorry

/-- progress: a step of a worker that is not done strictly decreases this measure when the
    source is finite, so every sufficiently long fair schedule finishes -/
def measure (s : State) (l : Nat) : Nat :=
  2 * (l - s.pos) + (s.ws.map fun w =>
    w.buf.length + (match w.status with | .running => 2 | .publishing => 1 | .done => 0)).sum

theorem step_measure (s : State) (l : Nat) (hl : s.len = some l) (t : Nat) (w : Worker)
    (hw : s.ws[t]? = some w) (hnd : w.status ≠ .done) (hc : 0 < w.c) :
    measure (step s t) l < measure s l := by
  sorry

/-- non-vacuity: a finishing schedule in which worker 1 pulls the first chunk, worker 0 finds the
    hit (value 13 at index 3) in a later chunk and stops the iterator, worker 2 never gets anything -/
example : AllDone (run (init (ofList [10, 11, 12, 13, 14, 15, 16]) (some 7) (· == 13) [2, 2, 5])
    [1, 0, 1, 0, 0, 0, 1, 1, 1, 2, 0, 1, 2]) := by
  decide

end Run
end OrxPar
