/- Invariants and potentials for the termination argument (`RunFair.lean`). -/
import OrxPar.Lemmas.RunProgress
namespace OrxPar
namespace Run

/-! ### small facts -/

theorem slice_zero (src : Nat → Val) (a : Nat) : slice src a 0 = [] := by simp [slice]

theorem slice_succ (src : Nat → Val) (a n : Nat) :
    slice src a (n + 1) = src a :: slice src (a + 1) n := by
  simp [slice, List.range'_succ]

theorem avail_le (len : Option Nat) (pos c : Nat) : avail len pos c ≤ c := by
  cases len with
  | none => simp [avail]
  | some l => simp only [avail, Nat.min_def]; split <;> omega

theorem avail_reach (len : Option Nat) (pos c m : Nat) (hin : ∀ l, len = some l → m < l)
    (h : m < pos + c) : m < pos + avail len pos c := by
  cases len with
  | none => simpa [avail] using h
  | some l =>
    have := hin l rfl
    simp only [avail, Nat.min_def]; split <;> omega

theorem avail_ne_zero (len : Option Nat) (pos c m : Nat) (hin : ∀ l, len = some l → m < l)
    (hc : 0 < c) (hp : pos ≤ m) : avail len pos c ≠ 0 := by
  cases len with
  | none => simp [avail]; omega
  | some l =>
    have := hin l rfl
    simp only [avail, Nat.min_def]; split <;> omega

theorem step_ws_ne (s : State) {t t' : Nat} (h : t' ≠ t) : (step s t').ws[t]? = s.ws[t]? := by
  apply step_cases s t' (P := fun s' => s'.ws[t]? = s.ws[t]?) <;> intros <;>
    first | rfl | exact get_set_ne _ (Ne.symm h)

theorem step_pos_le (s : State) (t : Nat) : s.pos ≤ (step s t).pos := by
  apply step_cases s t (P := fun s' => s.pos ≤ s'.pos) <;> intros <;>
    first | exact Nat.le_refl _ | exact Nat.le_add_right _ _

theorem allDone_step (s : State) (h : AllDone s) (t : Nat) : step s t = s := by
  cases hw : s.ws[t]? with
  | none => exact step_none hw
  | some w => exact step_done hw (h w (List.mem_of_getElem? hw))

theorem allDone_run (s : State) (h : AllDone s) (sched : List Nat) : run s sched = s := by
  induction sched with
  | nil => rfl
  | cons t ts ih => rw [run_cons, allDone_step s h t, ih]

theorem step_cs (s : State) (t : Nat) : (step s t).ws.map (·.c) = s.ws.map (·.c) := by
  have key : ∀ (w w' : Worker), s.ws[t]? = some w → w'.c = w.c →
      (s.ws.set t w').map (·.c) = s.ws.map (·.c) := by
    intro w w' hw hc
    apply List.ext_getElem?
    intro i
    by_cases hi : i = t
    · subst hi
      rw [List.getElem?_map, List.getElem?_map, get_set_self hw, hw]
      simp [hc]
    · rw [List.getElem?_map, List.getElem?_map, get_set_ne _ hi]
  apply step_cases s t (P := fun s' => s'.ws.map (·.c) = s.ws.map (·.c))
  · intro _; rfl
  · intro w hw _; exact key w _ hw rfl
  · intro w x rest hw _ _ _; exact key w _ hw rfl
  · intro w x rest hw _ _ _; exact key w _ hw rfl
  · intro w hw _ _ _; exact key w _ hw rfl
  · intro w hw _ _ _ _; exact key w _ hw rfl

theorem run_cs (s : State) (sched : List Nat) : (run s sched).ws.map (·.c) = s.ws.map (·.c) := by
  induction sched generalizing s with
  | nil => rfl
  | cons t ts ih => rw [run_cons, ih, step_cs]

/-! ### somebody has found a match -/

def SomeFound (s : State) : Prop := ∃ (t : Nat) (w : Worker), s.ws[t]? = some w ∧ w.found.isSome

theorem someFound_set {s s' : State} {t : Nat} {w w' : Worker} (hw : s.ws[t]? = some w)
    (hws : s'.ws = s.ws.set t w') (hf : w.found.isSome → w'.found.isSome) (h : SomeFound s) :
    SomeFound s' := by
  obtain ⟨t0, w0, hw0, hf0⟩ := h
  by_cases htt : t0 = t
  · subst htt
    rw [hw] at hw0; cases hw0
    exact ⟨t0, w', by rw [hws]; exact get_set_self hw, hf hf0⟩
  · exact ⟨t0, w0, by rw [hws, get_set_ne _ htt]; exact hw0, hf0⟩

theorem someFound_step (s : State) (t : Nat) (h : SomeFound s) : SomeFound (step s t) := by
  apply step_cases s t (P := SomeFound)
  · intro _; exact h
  · intro w hw _; exact someFound_set hw rfl (fun x => x) h
  · intro w x rest hw _ _ _; exact someFound_set hw rfl (fun _ => rfl) h
  · intro w x rest hw _ _ _; exact someFound_set hw rfl (fun x => x) h
  · intro w hw _ _ _; exact someFound_set hw rfl (fun x => x) h
  · intro w hw _ _ _ _; exact someFound_set hw rfl (fun x => x) h

/-- nobody found: the iterator is not stopped -/
theorem not_stopped {s : State} (h : Inv s) (hn : ¬ SomeFound s) : s.stopped = false := by
  cases hs : s.stopped with
  | false => rfl
  | true => exact absurd (h.stoppedBy hs) hn

theorem found_buf_nil {s : State} {t : Nat} {w : Worker} (h : WInv s t w)
    (hf : w.found.isSome) : w.buf = [] := by
  obtain ⟨q, hq⟩ := Option.isSome_iff_exists.1 hf
  obtain ⟨_, _, _, _, hb⟩ := h.found q hq
  exact hb

/-- a worker holding something is running -/
theorem running_of_buf {s : State} {t : Nat} {w : Worker} (h : WInv s t w) (hb : w.buf ≠ []) :
    w.status = .running := by
  cases hst : w.status with
  | running => rfl
  | publishing => exact absurd (found_buf_nil h (h.publishing hst)) hb
  | done => exact absurd (h.fin hst).1 hb

/-! ### additional per-worker invariant -/

structure FW (s : State) (w : Worker) : Prop where
  content : w.buf = slice s.src w.bufPos w.buf.length
  small : w.buf.length ≤ w.c
  below : w.bufPos + w.buf.length ≤ s.pos
  pubstop : w.found.isSome → w.status = .done → s.stopped = true

def FInv (s : State) : Prop := ∀ (t : Nat) (w : Worker), s.ws[t]? = some w → FW s w

theorem finv_set {s s' : State} {t : Nat} {w w' : Worker} (hf : FInv s) (hw : s.ws[t]? = some w)
    (hws : s'.ws = s.ws.set t w') (hsrc : s'.src = s.src) (hpos : s.pos ≤ s'.pos)
    (hstop : s.stopped = true → s'.stopped = true) (hW : FW s' w') : FInv s' := by
  intro t' v hv
  rw [hws] at hv
  by_cases htt : t' = t
  · subst htt
    rw [get_set_self hw] at hv
    cases hv
    exact hW
  · rw [get_set_ne _ htt] at hv
    have h := hf t' v hv
    exact ⟨by rw [hsrc]; exact h.content, h.small, Nat.le_trans h.below hpos,
      fun a b => hstop (h.pubstop a b)⟩

theorem step_finv (s : State) (t : Nat) (h : Inv s) (hf : FInv s) : FInv (step s t) := by
  apply step_cases s t (P := FInv)
  · intro _; exact hf
  · intro w hw hst
    have hw' := hf t w hw
    exact finv_set (w' := { w with status := .done }) hf hw rfl rfl (Nat.le_refl _) (fun _ => rfl)
      ⟨hw'.content, hw'.small, hw'.below, fun _ _ => rfl⟩
  · intro w x rest hw hst hb hx
    have hw' := hf t w hw
    refine finv_set (w' := hitW w x rest) hf hw rfl rfl (Nat.le_refl _) (fun x => x)
      ⟨?_, ?_, ?_, ?_⟩
    · show ([] : List Val) = slice s.src w.bufPos 0
      rw [slice_zero]
    · exact Nat.zero_le _
    · have := hw'.below
      show w.bufPos + 0 ≤ s.pos
      omega
    · intro _ hq; cases hq
  · intro w x rest hw hst hb hx
    have hw' := hf t w hw
    have hfn := (h.ws t w hw).running hst
    refine finv_set (w' := nohitW w x rest) hf hw rfl rfl (Nat.le_refl _) (fun x => x)
      ⟨?_, ?_, ?_, ?_⟩
    · have := hw'.content
      rw [hb, List.length_cons, slice_succ] at this
      show rest = slice s.src (w.bufPos + 1) rest.length
      exact (List.cons.inj this).2
    · have := hw'.small
      rw [hb, List.length_cons] at this
      show rest.length ≤ w.c
      omega
    · have := hw'.below
      rw [hb, List.length_cons] at this
      show w.bufPos + 1 + rest.length ≤ s.pos
      omega
    · intro hq
      have : w.found.isSome = true := hq
      rw [hfn] at this; cases this
  · intro w hw hst hb hx
    have hw' := hf t w hw
    have hfn := (h.ws t w hw).running hst
    refine finv_set (w' := { w with status := .done }) hf hw rfl rfl (Nat.le_refl _) (fun x => x)
      ⟨hw'.content, hw'.small, hw'.below, ?_⟩
    intro hq
    have : w.found.isSome = true := hq
    rw [hfn] at this; cases this
  · intro w hw hst hb hs hn
    have hw' := hf t w hw
    have hfn := (h.ws t w hw).running hst
    refine finv_set (s' := pullS s t w) hf hw rfl rfl (Nat.le_add_right _ _) ?_ ⟨?_, ?_, ?_, ?_⟩
    · intro hs'; exact hs'
    · show slice s.src s.pos (avail s.len s.pos w.c) = slice s.src s.pos (slice s.src s.pos (avail s.len s.pos w.c)).length
      rw [slice_length]
    · show (slice s.src s.pos (avail s.len s.pos w.c)).length ≤ w.c
      rw [slice_length]; exact avail_le _ _ _
    · show s.pos + (slice s.src s.pos (avail s.len s.pos w.c)).length ≤ s.pos + w.c
      rw [slice_length]
      have := avail_le s.len s.pos w.c
      omega
    · intro hq
      have : w.found.isSome = true := hq
      rw [hfn] at this; cases this

/-! ### phase A: until somebody finds a match -/

/-- while nobody has found anything, the match at `m` is still ahead of the iterator or in
    somebody's buffer -/
def HInv (m : Nat) (s : State) : Prop :=
  ¬ SomeFound s → s.pos ≤ m ∨
    ∃ (t : Nat) (w : Worker), s.ws[t]? = some w ∧ w.bufPos ≤ m ∧ m < w.bufPos + w.buf.length

theorem holder_set_ne {s s' : State} {t : Nat} {w' : Worker} {m : Nat}
    (hws : s'.ws = s.ws.set t w')
    (h : ∃ (t0 : Nat) (w0 : Worker), s.ws[t0]? = some w0 ∧ w0.bufPos ≤ m ∧
      m < w0.bufPos + w0.buf.length)
    (hne : ∀ w, s.ws[t]? = some w → w.buf = []) :
    ∃ (t0 : Nat) (w0 : Worker), s'.ws[t0]? = some w0 ∧ w0.bufPos ≤ m ∧
      m < w0.bufPos + w0.buf.length := by
  obtain ⟨t0, w0, hw0, h1, h2⟩ := h
  by_cases htt : t0 = t
  · subst htt
    have := hne w0 hw0
    rw [this] at h2
    simp only [List.length_nil] at h2
    omega
  · exact ⟨t0, w0, by rw [hws, get_set_ne _ htt]; exact hw0, h1, h2⟩

theorem step_hinv (m : Nat) (s : State) (t : Nat) (h : Inv s) (hf : FInv s)
    (hm : s.hit (s.src m) = true) (hin : ∀ l, s.len = some l → m < l) (hh : HInv m s) :
    HInv m (step s t) := by
  apply step_cases s t (P := HInv m)
  · intro _; exact hh
  · intro w hw hst hnf
    exfalso
    exact hnf ⟨t, _, get_set_self hw, (h.ws t w hw).publishing hst⟩
  · intro w x rest hw hst hb hx hnf
    exfalso
    exact hnf ⟨t, _, get_set_self hw, rfl⟩
  · intro w x rest hw hst hb hx hnf
    have hnf0 : ¬ SomeFound s := fun h0 =>
      hnf (someFound_set (s' := { s with ws := s.ws.set t (nohitW w x rest) }) hw rfl (fun x => x) h0)
    rcases hh hnf0 with h1 | ⟨t0, w0, hw0, h1, h2⟩
    · exact Or.inl h1
    · right
      by_cases htt : t0 = t
      · subst htt
        rw [hw] at hw0; cases hw0
        have hc := (hf t0 w hw).content
        rw [hb, List.length_cons, slice_succ] at hc
        have hxe : x = s.src w.bufPos := (List.cons.inj hc).1
        rw [hb, List.length_cons] at h2
        have hne : w.bufPos ≠ m := by
          intro e
          rw [hxe, e, hm] at hx
          cases hx
        refine ⟨t0, _, get_set_self hw, ?_, ?_⟩
        · show w.bufPos + 1 ≤ m
          omega
        · show m < w.bufPos + 1 + rest.length
          omega
      · exact ⟨t0, w0, by rw [show ({ s with ws := s.ws.set t (nohitW w x rest) } : State).ws =
          s.ws.set t (nohitW w x rest) from rfl, get_set_ne _ htt]; exact hw0, h1, h2⟩
  · intro w hw hst hb hx hnf
    have hnf0 : ¬ SomeFound s := fun h0 =>
      hnf (someFound_set (s' := { s with ws := s.ws.set t { w with status := .done } }) hw rfl
        (fun x => x) h0)
    rcases hh hnf0 with h1 | h1
    · exact Or.inl h1
    · right
      refine holder_set_ne (s' := { s with ws := s.ws.set t { w with status := .done } }) rfl h1 ?_
      intro v hv
      rw [hw] at hv; cases hv
      exact hb
  · intro w hw hst hb hs hn hnf
    have hnf0 : ¬ SomeFound s := fun h0 =>
      hnf (someFound_set (s' := pullS s t w) hw rfl (fun x => x) h0)
    rcases hh hnf0 with h1 | h1
    · by_cases hle : s.pos + w.c ≤ m
      · exact Or.inl hle
      · right
        refine ⟨t, _, get_set_self hw, ?_, ?_⟩
        · exact h1
        · show m < s.pos + (slice s.src s.pos (avail s.len s.pos w.c)).length
          rw [slice_length]
          exact avail_reach _ _ _ _ hin (by omega)
    · right
      refine holder_set_ne (s' := pullS s t w) rfl h1 ?_
      intro v hv
      rw [hw] at hv; cases hv
      exact hb

/-- the buffered positions up to `m` -/
def cnt (m : Nat) (w : Worker) : Nat := min w.buf.length (m + 1 - w.bufPos)

/-- the potential of phase A -/
def psi (m : Nat) (s : State) : Nat := 2 * (m + 1 - s.pos) + (s.ws.map (cnt m)).sum

theorem psi_set {m : Nat} {s s' : State} {t : Nat} {w w' : Worker} {p' k k' : Nat}
    (hw : s.ws[t]? = some w) (hws : s'.ws = s.ws.set t w') (hpos : s'.pos = p')
    (hk : cnt m w = k) (hk' : cnt m w' = k') :
    psi m s' + 2 * (m + 1 - s.pos) + k = psi m s + 2 * (m + 1 - p') + k' := by
  have := sum_map_set (cnt m) s.ws t w w' hw
  simp only [psi, hws, hpos]
  omega

/-- every step: the potential does not increase, and a pull that moves the iterator beyond `m`
    lowers it -/
theorem psi_step (m : Nat) (s : State) (t : Nat) :
    psi m (step s t) ≤ psi m s ∧
    (s.pos ≤ m → m < (step s t).pos → psi m (step s t) < psi m s) := by
  apply step_cases s t (P := fun s' => psi m s' ≤ psi m s ∧
    (s.pos ≤ m → m < s'.pos → psi m s' < psi m s))
  · intro _; exact ⟨Nat.le_refl _, fun a b => by omega⟩
  · intro w hw _
    have := psi_set (m := m) (p' := s.pos) (k := cnt m w) (k' := cnt m w)
      (s' := { s with stopped := true, ws := s.ws.set t { w with status := .done } })
      hw rfl rfl rfl rfl
    exact ⟨by omega, fun a b => by simp only at b; omega⟩
  · intro w x rest hw _ hb _
    have := psi_set (m := m) (p' := s.pos) (k := cnt m w)
      (s' := { s with ws := s.ws.set t (hitW w x rest) }) hw rfl rfl rfl
      (show cnt m (hitW w x rest) = 0 by simp [cnt, hitW])
    exact ⟨by omega, fun a b => by simp only at b; omega⟩
  · intro w x rest hw _ hb _
    have := psi_set (m := m) (p' := s.pos)
      (s' := { s with ws := s.ws.set t (nohitW w x rest) }) hw rfl rfl
      (show cnt m w = min (rest.length + 1) (m + 1 - w.bufPos) by simp [cnt, hb])
      (show cnt m (nohitW w x rest) = min rest.length (m + 1 - (w.bufPos + 1)) by simp [cnt, nohitW])
    exact ⟨by omega, fun a b => by simp only at b; omega⟩
  · intro w hw _ _ _
    have := psi_set (m := m) (p' := s.pos) (k := cnt m w) (k' := cnt m w)
      (s' := { s with ws := s.ws.set t { w with status := .done } })
      hw rfl rfl rfl rfl
    exact ⟨by omega, fun a b => by simp only at b; omega⟩
  · intro w hw _ hb _ hn
    have := psi_set (m := m) (p' := s.pos + w.c) (s' := pullS s t w) hw rfl rfl
      (show cnt m w = 0 by simp [cnt, hb])
      (show cnt m _ = min (avail s.len s.pos w.c) (m + 1 - s.pos) by simp [cnt, slice_length])
    have hle := avail_le s.len s.pos w.c
    refine ⟨by omega, fun a b => ?_⟩
    have b' : m < s.pos + w.c := b
    omega

theorem psi_nohit_lt (m : Nat) (s : State) (t : Nat) (w : Worker) (x : Val) (rest : List Val)
    (hw : s.ws[t]? = some w) (hb : w.buf = x :: rest) (hle : w.bufPos ≤ m) :
    psi m { s with ws := s.ws.set t (nohitW w x rest) } < psi m s := by
  have := psi_set (m := m) (p' := s.pos)
    (s' := { s with ws := s.ws.set t (nohitW w x rest) }) hw rfl rfl
    (show cnt m w = min (rest.length + 1) (m + 1 - w.bufPos) by simp [cnt, hb])
    (show cnt m (nohitW w x rest) = min rest.length (m + 1 - (w.bufPos + 1)) by simp [cnt, nohitW])
  omega

theorem psi_pull_lt (m : Nat) (s : State) (t : Nat) (w : Worker)
    (hw : s.ws[t]? = some w) (hb : w.buf = []) (hn : avail s.len s.pos w.c ≠ 0)
    (hle : s.pos ≤ m) : psi m (pullS s t w) < psi m s := by
  have := psi_set (m := m) (p' := s.pos + w.c) (s' := pullS s t w) hw rfl rfl
    (show cnt m w = 0 by simp [cnt, hb])
    (show cnt m _ = min (avail s.len s.pos w.c) (m + 1 - s.pos) by simp [cnt, slice_length])
  have hle := avail_le s.len s.pos w.c
  omega

/-- the invariant of phase A -/
structure GA (n m : Nat) (s : State) : Prop where
  inv : Inv s
  finv : FInv s
  hinv : HInv m s
  len : s.ws.length = n
  npos : 0 < n
  hitm : s.hit (s.src m) = true
  inm : ∀ l, s.len = some l → m < l

/-- a worker whose next step lowers `psi` (or finds a match) -/
def ActA (m : Nat) (s : State) (t : Nat) : Prop :=
  ∃ w, s.ws[t]? = some w ∧ w.status = .running ∧
    ((w.buf ≠ [] ∧ w.bufPos ≤ m) ∨ (w.buf = [] ∧ s.pos ≤ m))

theorem step_ga (n m : Nat) (s : State) (t : Nat) (h : GA n m s) : GA n m (step s t) := by
  obtain ⟨f1, f2, f3, f4⟩ := step_frame s t
  refine ⟨step_inv s t h.inv, step_finv s t h.inv h.finv,
    step_hinv m s t h.inv h.finv h.hitm h.inm h.hinv, f1.trans h.len, h.npos, ?_, ?_⟩
  · rw [f2, f4]; exact h.hitm
  · rw [f3]; exact h.inm

theorem progressA (n m : Nat) : Progress n (GA n m) SomeFound (psi m) (ActA m) where
  gstep := fun s t h => step_ga n m s t h
  tstep := fun s t _ h => someFound_step s t h
  mono := fun s t _ _ => Or.inl (psi_step m s t).1
  act := by
    intro s h hnf
    rcases h.hinv hnf with h1 | ⟨t0, w0, hw0, h1, h2⟩
    · have h0 : 0 < s.ws.length := by rw [h.len]; exact h.npos
      have hw0 : s.ws[0]? = some s.ws[0] := List.getElem?_eq_getElem h0
      have hwi := h.inv.ws 0 _ hw0
      have hst : (s.ws[0]).status = .running := by
        cases hst : (s.ws[0]).status with
        | running => rfl
        | publishing => exact absurd ⟨0, _, hw0, hwi.publishing hst⟩ hnf
        | done =>
          exfalso
          rcases (hwi.fin hst).2 with h2 | h2 | ⟨l, hl, hle⟩
          · exact hnf ⟨0, _, hw0, h2⟩
          · rw [not_stopped h.inv hnf] at h2; cases h2
          · have := h.inm l hl
            omega
      refine ⟨0, h.npos, _, hw0, hst, ?_⟩
      by_cases hb : (s.ws[0]).buf = []
      · exact Or.inr ⟨hb, h1⟩
      · refine Or.inl ⟨hb, ?_⟩
        have := (h.finv 0 _ hw0).below
        have : 0 < (s.ws[0]).buf.length := List.length_pos_iff.2 hb
        omega
    · have hlt : t0 < s.ws.length := (List.getElem?_eq_some_iff.1 hw0).1
      have hb : w0.buf ≠ [] := by
        intro e
        rw [e] at h2
        simp only [List.length_nil] at h2
        omega
      exact ⟨t0, by rw [← h.len]; exact hlt, w0, hw0, running_of_buf (h.inv.ws t0 w0 hw0) hb,
        Or.inl ⟨hb, h1⟩⟩
  keep := by
    intro s t t' h hnf ⟨w, hw, hst, hc⟩ htt
    have hw' : (step s t').ws[t]? = some w := by rw [step_ws_ne s htt]; exact hw
    rcases hc with hc | ⟨hb, hp⟩
    · exact Or.inl ⟨w, hw', hst, Or.inl hc⟩
    · by_cases hle : (step s t').pos ≤ m
      · exact Or.inl ⟨w, hw', hst, Or.inr ⟨hb, hle⟩⟩
      · exact Or.inr (Or.inl ((psi_step m s t').2 hp (by omega)))
  fire := by
    intro s t h hnf ⟨w, hw, hst, hc⟩
    rcases hc with ⟨hb, hp⟩ | ⟨hb, hp⟩
    · cases hbe : w.buf with
      | nil => exact absurd hbe hb
      | cons x rest =>
        cases hx : s.hit x with
        | true =>
          right
          rw [step_hit hw hst hbe hx]
          exact ⟨t, _, get_set_self hw, rfl⟩
        | false =>
          left
          rw [step_nohit hw hst hbe hx]
          exact psi_nohit_lt m s t w x rest hw hbe hp
    · left
      have hn := avail_ne_zero s.len s.pos w.c m h.inm (h.inv.ws t w hw).cpos hp
      rw [step_pull hw hst hb (not_stopped h.inv hnf) hn]
      exact psi_pull_lt m s t w hw hb hn hp

/-! ### phase B1: from a find to the stop -/

structure GB1 (n : Nat) (s : State) : Prop where
  inv : Inv s
  finv : FInv s
  sf : SomeFound s
  len : s.ws.length = n

def ActPub (s : State) (t : Nat) : Prop := ∃ w, s.ws[t]? = some w ∧ w.status = .publishing

theorem progressB1 (n : Nat) :
    Progress n (GB1 n) (fun s => s.stopped = true) (fun _ => 0) ActPub where
  gstep := fun s t h => ⟨step_inv s t h.inv, step_finv s t h.inv h.finv, someFound_step s t h.sf,
    (step_frame s t).1.trans h.len⟩
  tstep := fun s t _ h => (step_stopped s h t).2.2.1
  mono := fun _ _ _ _ => Or.inl (Nat.le_refl _)
  act := by
    intro s h hns
    obtain ⟨t0, w0, hw0, hf0⟩ := h.sf
    have hlt : t0 < s.ws.length := (List.getElem?_eq_some_iff.1 hw0).1
    refine ⟨t0, by rw [← h.len]; exact hlt, w0, hw0, ?_⟩
    cases hst : w0.status with
    | publishing => rfl
    | running =>
      have := (h.inv.ws t0 w0 hw0).running hst
      rw [this] at hf0; cases hf0
    | done => exact absurd ((h.finv t0 w0 hw0).pubstop hf0 hst) hns
  keep := by
    intro s t t' _ _ ⟨w, hw, hst⟩ htt
    exact Or.inl ⟨w, by rw [step_ws_ne s htt]; exact hw, hst⟩
  fire := by
    intro s t _ _ ⟨w, hw, hst⟩
    right
    rw [step_publish hw hst]

/-! ### phase B2: from the stop to the end -/

def wt (w : Worker) : Nat :=
  w.buf.length + (match w.status with | .running => 2 | .publishing => 1 | .done => 0)

def phi (s : State) : Nat := (s.ws.map wt).sum

theorem phi_step (s : State) (hs : s.stopped = true) (t : Nat) :
    phi (step s t) ≤ phi s ∧
    ∀ w, s.ws[t]? = some w → w.status ≠ .done → phi (step s t) < phi s := by
  apply step_cases s t (P := fun s' => phi s' ≤ phi s ∧
    ∀ w, s.ws[t]? = some w → w.status ≠ .done → phi s' < phi s)
  · intro h
    refine ⟨Nat.le_refl _, ?_⟩
    intro w hw hnd
    rcases h with h | ⟨v, hv, hst⟩
    · rw [hw] at h; cases h
    · rw [hw] at hv; cases hv; exact absurd hst hnd
  · intro w hw hst
    have := sum_map_set wt s.ws t w { w with status := .done } hw
    simp only [phi, wt, hst] at this ⊢
    exact ⟨by omega, fun _ _ _ => by omega⟩
  · intro w x rest hw hst hb _
    have := sum_map_set wt s.ws t w (hitW w x rest) hw
    simp only [phi, wt, hitW, hst, hb, List.length_cons, List.length_nil] at this ⊢
    exact ⟨by omega, fun _ _ _ => by omega⟩
  · intro w x rest hw hst hb _
    have := sum_map_set wt s.ws t w (nohitW w x rest) hw
    simp only [phi, wt, nohitW, hst, hb, List.length_cons] at this ⊢
    exact ⟨by omega, fun _ _ _ => by omega⟩
  · intro w hw hst hb _
    have := sum_map_set wt s.ws t w { w with status := .done } hw
    simp only [phi, wt, hst, hb, List.length_nil] at this ⊢
    exact ⟨by omega, fun _ _ _ => by omega⟩
  · intro w _ _ _ hs' _
    rw [hs] at hs'; cases hs'

def ActND (s : State) (t : Nat) : Prop := ∃ w, s.ws[t]? = some w ∧ w.status ≠ .done

theorem actND_exists {n : Nat} (s : State) (hlen : s.ws.length = n) (h : ¬ AllDone s) :
    ∃ t, t < n ∧ ActND s t := by
  have : ∃ w ∈ s.ws, w.status ≠ .done := by
    apply Classical.byContradiction
    intro hc
    apply h
    intro w hw
    apply Classical.byContradiction
    intro hnd
    exact hc ⟨w, hw, hnd⟩
  obtain ⟨w, hw, hnd⟩ := this
  obtain ⟨t, hlt, ht⟩ := List.getElem_of_mem hw
  exact ⟨t, by rw [← hlen]; exact hlt, w, by rw [List.getElem?_eq_getElem hlt, ht], hnd⟩

theorem actND_keep (s : State) (t t' : Nat) (h : ActND s t) (htt : t' ≠ t) :
    ActND (step s t') t := by
  obtain ⟨w, hw, hnd⟩ := h
  exact ⟨w, by rw [step_ws_ne s htt]; exact hw, hnd⟩

structure GB2 (n : Nat) (s : State) : Prop where
  stopped : s.stopped = true
  len : s.ws.length = n

theorem progressB2 (n : Nat) : Progress n (GB2 n) AllDone phi ActND where
  gstep := fun s t h => ⟨(step_stopped s h.stopped t).2.2.1, (step_frame s t).1.trans h.len⟩
  tstep := fun s t _ h => by rw [allDone_step s h t]; exact h
  mono := fun s t h _ => Or.inl (phi_step s h.stopped t).1
  act := fun s h hnd => actND_exists s h.len hnd
  keep := fun s t t' _ _ ha htt => Or.inl (actND_keep s t t' ha htt)
  fire := by
    intro s t h _ ⟨w, hw, hnd⟩
    exact Or.inl ((phi_step s h.stopped t).2 w hw hnd)

theorem sum_le_add_two {α : Type} (f g : α → Nat) (l : List α) (h : ∀ x ∈ l, f x ≤ g x + 2) :
    (l.map f).sum ≤ (l.map g).sum + 2 * l.length := by
  induction l with
  | nil => simp
  | cons a l ih =>
    have h1 := h a (List.mem_cons_self ..)
    have h2 := ih (fun x hx => h x (List.mem_cons_of_mem _ hx))
    simp only [List.map_cons, List.sum_cons, List.length_cons]
    omega

theorem phi_le (s : State) (hf : FInv s) : phi s ≤ (s.ws.map (·.c)).sum + 2 * s.ws.length := by
  apply sum_le_add_two
  intro w hw
  obtain ⟨t, hlt, ht⟩ := List.getElem_of_mem hw
  have := (hf t w (by rw [List.getElem?_eq_getElem hlt, ht])).small
  simp only [wt]
  cases w.status <;> simp only <;> omega

/-! ### finite sources -/

structure GF (n l : Nat) (s : State) : Prop where
  inv : Inv s
  slen : s.len = some l
  len : s.ws.length = n

theorem measure_step_le (s : State) (l : Nat) (h : Inv s) (hl : s.len = some l) (t : Nat) :
    measure (step s t) l ≤ measure s l := by
  cases hw : s.ws[t]? with
  | none => rw [step_none hw]; exact Nat.le_refl _
  | some w =>
    by_cases hst : w.status = .done
    · rw [step_done hw hst]; exact Nat.le_refl _
    · exact Nat.le_of_lt (step_measure s l hl t w hw hst (h.ws t w hw).cpos)

theorem progressF (n l : Nat) : Progress n (GF n l) AllDone (fun s => measure s l) ActND where
  gstep := fun s t h => ⟨step_inv s t h.inv, (step_frame s t).2.2.1.trans h.slen,
    (step_frame s t).1.trans h.len⟩
  tstep := fun s t _ h => by rw [allDone_step s h t]; exact h
  mono := fun s t h _ => Or.inl (measure_step_le s l h.inv h.slen t)
  act := fun s h hnd => actND_exists s h.len hnd
  keep := fun s t t' _ _ ha htt => Or.inl (actND_keep s t t' ha htt)
  fire := by
    intro s t h _ ⟨w, hw, hnd⟩
    exact Or.inl (step_measure s l h.slen t w hw hnd (h.inv.ws t w hw).cpos)

/-! ### the initial state -/

theorem init_ws_get {src : Nat → Val} {len : Option Nat} {hit : Val → Bool} {cs : List Nat}
    {t : Nat} {w : Worker} (hw : (init src len hit cs).ws[t]? = some w) :
    ∃ c, w = ⟨c, [], 0, .running, [], none, []⟩ := by
  simp only [init, List.getElem?_map, Option.map_eq_some_iff] at hw
  obtain ⟨c, _, rfl⟩ := hw
  exact ⟨c, rfl⟩

theorem init_finv (src : Nat → Val) (len : Option Nat) (hit : Val → Bool) (cs : List Nat) :
    FInv (init src len hit cs) := by
  intro t w hw
  obtain ⟨c, rfl⟩ := init_ws_get hw
  exact ⟨by simp [slice], Nat.zero_le _, Nat.le_refl _, fun h => by cases h⟩

theorem init_ga (src : Nat → Val) (len : Option Nat) (hit : Val → Bool) (cs : List Nat)
    (hne : cs ≠ []) (hpos : ∀ c ∈ cs, 0 < c) (m : Nat) (hm : hit (src m) = true)
    (hin : ∀ l, len = some l → m < l) : GA cs.length m (init src len hit cs) :=
  ⟨init_inv src len hit cs hpos, init_finv src len hit cs, fun _ => Or.inl (Nat.zero_le _),
    by simp [init], List.length_pos_iff.2 hne, hm, hin⟩

theorem init_psi (src : Nat → Val) (len : Option Nat) (hit : Val → Bool) (cs : List Nat)
    (m : Nat) : psi m (init src len hit cs) = 2 * (m + 1) := by
  have : ((init src len hit cs).ws.map (cnt m)).sum = 0 := by
    simp only [init, List.map_map]
    induction cs with
    | nil => rfl
    | cons c cs ih => simp only [List.map_cons, List.sum_cons, ih]; simp [cnt]
  simp only [psi, this]
  simp [init]

theorem init_measure (src : Nat → Val) (l : Nat) (hit : Val → Bool) (cs : List Nat) :
    measure (init src (some l) hit cs) l = 2 * l + 2 * cs.length := by
  have : ∀ cs : List Nat, ((cs.map fun c => (⟨c, [], 0, .running, [], none, []⟩ : Worker)).map
      fun w : Worker =>
      w.buf.length + (match w.status with | .running => 2 | .publishing => 1 | .done => 0)).sum =
      2 * cs.length := by
    intro cs
    induction cs with
    | nil => rfl
    | cons c cs ih =>
      simp only [List.map_cons, List.sum_cons, ih, List.length_cons, List.length_nil]; omega
  show 2 * (l - 0) + ((cs.map fun c => (⟨c, [], 0, .running, [], none, []⟩ : Worker)).map
      fun w : Worker =>
      w.buf.length + (match w.status with | .running => 2 | .publishing => 1 | .done => 0)).sum = _
  rw [this cs]
  omega

theorem init_cs (src : Nat → Val) (len : Option Nat) (hit : Val → Bool) (cs : List Nat) :
    (init src len hit cs).ws.map (·.c) = cs := by
  simp [init, List.map_map, Function.comp_def]

end Run
end OrxPar
