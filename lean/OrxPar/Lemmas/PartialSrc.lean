/-
  Known findings F and G (DESIGN.md §7) as statements about the model: what `map_col` and the
  sequential `*_with_index` paths do when the concurrent iterator handed to `into_par()` has
  already yielded `b` elements to the caller, so that the indices it hands out start at `b`
  while `try_get_len()` reports the remaining length.
-/
import OrxPar.Lemmas.BagFind
namespace OrxPar
open K

/-- an ordered bag finished with a write beyond `len(pre) + #writes` has a gap: the counts do not
    match and `unwrap_only_if_counts_match` panics -/
theorem bagFinish_gap (pre : List Val) (writes : List (Nat × Val)) (p : Nat × Val) (hp : p ∈ writes)
    (hbig : pre.length + writes.length ≤ p.1) : bagFinish pre writes = none := by
  unfold bagFinish
  have h2 := (Aux.foldl_max_spec (writes.map (·.1 + 1)) pre.length).2.1 (p.1 + 1)
    (List.mem_map.mpr ⟨p, hp, rfl⟩)
  have hne : ((writes.map (·.1 + 1)).foldl Nat.max pre.length == pre.length + writes.length) = false := by
    apply beq_false_of_ne
    omega
  simp only [hne]
  rfl

/-- what the workers of `map_col` write when the iterator's indices start at `b`: element `i` of
    the remaining input goes to position `offset + (b + i)` -/
def mapColWritesFrom (m : Val → Val) (offset b : Nat) (xs : List Val) : List (Nat × Val) :=
  (xs.zipIdx b).map fun p => (offset + p.2, m p.1)

/-- **finding F.** with a partially consumed source (`b > 0`) and a non-empty remainder the
    parallel map-only collect cannot succeed: the last write lies beyond the reserved length -/
theorem mapCol_partial_source_panics (m : Val → Val) (pre xs : List Val) (b : Nat) (hb : 0 < b)
    (hne : xs ≠ []) (writes : List (Nat × Val))
    (hw : writes.Perm (mapColWritesFrom m pre.length b xs)) : bagFinish pre writes = none := by
  have hx : xs = xs.dropLast ++ [xs.getLast hne] := (List.dropLast_concat_getLast hne).symm
  generalize xs.dropLast = ys at hx
  generalize xs.getLast hne = y at hx
  subst hx
  have hlen : writes.length = (ys ++ [y]).length := by
    rw [hw.length_eq]; simp [mapColWritesFrom]
  apply bagFinish_gap pre writes (pre.length + (b + ys.length), m y)
  · apply hw.mem_iff.mpr
    unfold mapColWritesFrom
    apply List.mem_map.mpr
    refine ⟨(y, b + ys.length), ?_, rfl⟩
    rw [List.mk_mem_zipIdx_iff_le_and_getElem?_sub]
    refine ⟨by omega, ?_⟩
    have : b + ys.length - b = ys.length := by omega
    rw [this]
    simp
  · simp only [hlen, List.length_append, List.length_cons, List.length_nil]
    omega

/-- with a fresh source (`b = 0`) the same writes are accepted (this is `mapCol_correct`) -/
theorem mapCol_fresh_source_ok (m : Val → Val) (pre xs : List Val) (writes : List (Nat × Val))
    (hw : writes.Perm (mapColWritesFrom m pre.length 0 xs)) :
    bagFinish pre writes = some (pre ++ xs.map m) := by
  apply Aux.bagFinish_of_perm
  refine hw.trans (List.Perm.of_eq ?_)
  unfold mapColWritesFrom
  rw [List.zipIdx_map, List.map_map]
  rfl

/-- **finding G.** the sequential `*_with_index` path enumerates the remaining elements from 0,
    the parallel kernels report the index the iterator hands out (`b + i`): for a match at
    position `i` of the remainder the two differ by exactly `b` -/
theorem with_index_seq_vs_par (m : Val → Val) (f : Val → Bool) (xs : List Val) (b : Nat) :
    (((xs.map m).zipIdx b).findSome? fun p => if f p.1 then some (p.2, p.1) else none)
      = (seqMapFilFind m f xs).map fun r => (b + r.1, r.2) := by
  unfold seqMapFilFind
  generalize xs.map m = ys
  induction ys generalizing b with
  | nil => rfl
  | cons y ys ih =>
    simp only [List.zipIdx_cons, List.findSome?_cons]
    by_cases hy : f y
    · simp [hy]
    · have h0 := ih 1
      simp only [hy, Bool.false_eq_true, if_false, Nat.zero_add]
      rw [ih (b + 1), h0]
      cases ((ys.zipIdx 0).findSome? fun p => if f p.1 = true then some (p.2, p.1) else none) with
      | none => rfl
      | some r => simp [Nat.add_assoc, Nat.add_comm 1]

end OrxPar
