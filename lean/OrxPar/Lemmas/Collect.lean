/- Ordered collection kernels: k-way merge of the workers' keyed vectors. -/
import OrxPar.Model.Accept
import OrxPar.Lemmas.Merge
namespace OrxPar
open K

/-! ### list helpers -/

theorem flatMap_congr' {α β : Type} {l : List α} {f g : α → List β}
    (h : ∀ a ∈ l, f a = g a) : l.flatMap f = l.flatMap g := by
  induction l with
  | nil => rfl
  | cons a l ih =>
    simp only [List.flatMap_cons]
    rw [h a List.mem_cons_self, ih (fun b hb => h b (List.mem_cons_of_mem _ hb))]

theorem filterMap_eq_flatMap {α β : Type} (g : α → Option β) (l : List α) :
    l.filterMap g = l.flatMap fun a => (g a).toList := by
  induction l with
  | nil => rfl
  | cons a l ih =>
    simp only [List.flatMap_cons, ← ih]
    cases h : g a <;> simp [h]

theorem filter_or_perm {α : Type} (p q : α → Bool) (l : List α)
    (hd : ∀ a ∈ l, p a = true → q a = true → False) :
    (l.filter p ++ l.filter q).Perm (l.filter fun a => p a || q a) := by
  induction l with
  | nil => simp
  | cons a l ih =>
    have ih' := ih (fun b hb => hd b (List.mem_cons_of_mem _ hb))
    have hda := hd a List.mem_cons_self
    cases hp : p a <;> cases hq : q a
    · simpa [List.filter_cons, hp, hq] using ih'
    · simp only [List.filter_cons, hp, hq, Bool.false_or, if_true, Bool.false_eq_true, if_false]
      exact List.perm_middle.trans (List.Perm.cons a ih')
    · simp only [List.filter_cons, hp, hq, Bool.or_false, if_true, Bool.false_eq_true, if_false,
        List.cons_append]
      exact List.Perm.cons a ih'
    · exact (hda hp hq).elim

/-- splitting the chunks by worker id and concatenating in spawn order permutes the chunks
    whose worker id was spawned -/
theorem partition_perm_chunks {β : Type} (f : Chunk → List β) (l : List Chunk) (order : List Nat)
    (hn : order.Nodup) :
    ((order.map fun t => (l.filter (·.tid == t)).flatMap f).flatten).Perm
      ((l.filter fun c => decide (c.tid ∈ order)).flatMap f) := by
  induction order with
  | nil => simp
  | cons t ts ih =>
    have hn' := List.nodup_cons.1 hn
    simp only [List.map_cons, List.flatten_cons]
    refine (List.Perm.append_left _ (ih hn'.2)).trans ?_
    rw [← List.flatMap_append]
    refine (List.Perm.flatMap_right f
      (filter_or_perm (·.tid == t) (fun c => decide (c.tid ∈ ts)) l ?_)).trans ?_
    · intro c _ h1 h2
      simp only [beq_iff_eq] at h1
      simp only [decide_eq_true_eq] at h2
      exact hn'.1 (h1 ▸ h2)
    · apply List.Perm.of_eq
      congr 1
      apply List.filter_congr
      intro c _
      simp only [List.mem_cons, Bool.decide_or]
      congr 1

/-! ### tilings -/

/-- the chunks' index ranges increase and do not overlap -/
def Inc (l : List Chunk) : Prop := l.Pairwise fun a b => a.start + a.items.length ≤ b.start

theorem Tiles.inc {l : List Chunk} {p : Nat} {xs : List Val} (h : Tiles l p xs) :
    Inc l ∧ ∀ c ∈ l, p ≤ c.start := by
  induction l generalizing p xs with
  | nil => exact ⟨List.Pairwise.nil, by simp⟩
  | cons c cs ih =>
    obtain ⟨h1, _, rest, _, h4⟩ := h
    obtain ⟨i1, i2⟩ := ih h4
    refine ⟨List.pairwise_cons.2 ⟨?_, i1⟩, ?_⟩
    · intro b hb
      have := i2 b hb
      omega
    · intro b hb
      simp only [List.mem_cons] at hb
      rcases hb with rfl | hb
      · omega
      · have := i2 b hb; omega

theorem Tiles.flatMap_eq {l : List Chunk} {p : Nat} {xs : List Val} (h : Tiles l p xs)
    (F : List Val → List Val) (hnil : F [] = []) (happ : ∀ a b, F (a ++ b) = F a ++ F b) :
    l.flatMap (fun c => F c.items) = F xs := by
  induction l generalizing p xs with
  | nil => simp only [Tiles] at h; subst h; simp [hnil]
  | cons c cs ih =>
    obtain ⟨_, _, rest, h3, h4⟩ := h
    subst h3
    simp only [List.flatMap_cons, happ, ih h4]

/-! ### the generic collection theorem -/

/-- what a kernel puts into a worker's vector for one chunk (`cp c ch`, `c` the chunk size the
    worker was handed): keys inside the chunk's index range, strictly increasing, values `F items` -/
structure ChunkPairs (cp : Nat → Chunk → List (Key × Val)) (F : List Val → List Val) : Prop where
  range : ∀ c ch, ∀ q ∈ cp c ch, ch.start ≤ q.1.1 ∧ q.1.1 < ch.start + ch.items.length
  sorted : ∀ c ch, Srt (cp c ch)
  vals : ∀ c ch, (cp c ch).map (·.2) = F ch.items
  nil : F [] = []
  app : ∀ a b, F (a ++ b) = F a ++ F b

theorem ChunkPairs.srt_flatMap {cp F} (H : ChunkPairs cp F) (cs : Nat → Nat) {l : List Chunk}
    (hl : Inc l) : Srt (l.flatMap fun c => cp (cs c.tid) c) := by
  unfold Srt
  rw [List.pairwise_flatMap]
  refine ⟨fun a _ => H.sorted _ a, hl.imp ?_⟩
  intro a b hab x hx y hy
  have := H.range _ _ x hx
  have := H.range _ _ y hy
  exact Or.inl (by omega)

theorem collect_generic {cp F} (H : ChunkPairs cp F)
    (task : Nat → List Chunk → List (Key × Val))
    (htask : ∀ c chunks, task c chunks = chunks.flatMap (cp c))
    (pre xs : List Val) (ex : Exec) (h : ex.Accepts xs) :
    heapSortInto pre (ex.runMap task) = pre ++ F xs := by
  have hrun : ex.runMap task =
      ex.order.map fun t => (ex.asg.filter (·.tid == t)).flatMap fun c => cp (ex.cs c.tid) c := by
    unfold Exec.runMap Exec.chunksOf
    apply List.map_congr_left
    intro t _
    rw [htask]
    apply flatMap_congr'
    intro c hc
    have := (List.mem_filter.1 hc).2
    simp only [beq_iff_eq] at this
    rw [this]
  obtain ⟨hinc, _⟩ := h.tiles.inc
  have hall : Srt (ex.asg.flatMap fun c => cp (ex.cs c.tid) c) := H.srt_flatMap ex.cs hinc
  have hfil : (ex.asg.filter fun c => decide (c.tid ∈ ex.order)) = ex.asg := by
    rw [List.filter_eq_self]
    intro c hc
    simpa using h.tids c hc
  have hperm := partition_perm_chunks (fun c => cp (ex.cs c.tid) c) ex.asg ex.order h.nodup
  rw [hfil] at hperm
  rw [hrun, heapSortInto_eq pre _ _ ?_ hperm hall]
  · congr 1
    rw [List.map_flatMap]
    have : (fun c => List.map (·.2) (cp (ex.cs c.tid) c)) = fun c : Chunk => F c.items := by
      funext c; exact H.vals _ c
    rw [this]
    exact h.tiles.flatMap_eq F H.nil H.app
  · intro v hv
    obtain ⟨t, _, rfl⟩ := List.mem_map.1 hv
    exact H.srt_flatMap ex.cs (hinc.filter _)

/-! ### keys produced from indexed elements -/

/-- the elements of one chunk with their source indices -/
def idxOf (s : Nat) (items : List Val) : List (Nat × Val) :=
  (items.zipIdx s).map fun p => (p.2, p.1)

theorem idxOf_cons (s : Nat) (x : Val) (items : List Val) :
    idxOf s (x :: items) = (s, x) :: idxOf (s + 1) items := by
  simp [idxOf, List.zipIdx_cons]

theorem idxElems_eq (chunks : List Chunk) :
    idxElems chunks = chunks.flatMap fun c => idxOf c.start c.items := rfl

theorem idx_flat (k : Nat × Val → List (Key × Val)) (hk1 : ∀ p, ∀ q ∈ k p, q.1.1 = p.1)
    (hk2 : ∀ p, Srt (k p)) (items : List Val) (s : Nat) :
    Srt ((idxOf s items).flatMap k) ∧
      ∀ q ∈ (idxOf s items).flatMap k, s ≤ q.1.1 ∧ q.1.1 < s + items.length := by
  induction items generalizing s with
  | nil => simp [idxOf, Srt]
  | cons x items ih =>
    obtain ⟨i1, i2⟩ := ih (s + 1)
    rw [idxOf_cons, List.flatMap_cons]
    refine ⟨List.pairwise_append.2 ⟨hk2 _, i1, ?_⟩, ?_⟩
    · intro a ha b hb
      have := hk1 _ a ha
      have := i2 b hb
      exact Or.inl (by simp only at *; omega)
    · intro q hq
      simp only [List.mem_append] at hq
      rcases hq with hq | hq
      · have := hk1 _ q hq
        simp only [List.length_cons] at *
        omega
      · have := i2 q hq
        simp only [List.length_cons]
        omega

theorem idx_flat_vals (k : Nat × Val → List (Key × Val)) (G : Val → List Val)
    (hk : ∀ i x, (k (i, x)).map (·.2) = G x) (items : List Val) (s : Nat) :
    ((idxOf s items).flatMap k).map (·.2) = items.flatMap G := by
  induction items generalizing s with
  | nil => simp [idxOf]
  | cons x items ih =>
    rw [idxOf_cons, List.flatMap_cons, List.map_append, hk, ih, List.flatMap_cons]

theorem srt_zipIdx_fst (l : List Val) (s : Nat) :
    Srt ((l.zipIdx s).map fun p => ((p.2, 0), p.1)) ∧
      ∀ q ∈ (l.zipIdx s).map (fun p => (((p.2, 0), p.1) : Key × Val)),
        s ≤ q.1.1 ∧ q.1.1 < s + l.length := by
  induction l generalizing s with
  | nil => simp [Srt]
  | cons x l ih =>
    obtain ⟨i1, i2⟩ := ih (s + 1)
    simp only [List.zipIdx_cons, List.map_cons]
    refine ⟨List.pairwise_cons.2 ⟨?_, i1⟩, ?_⟩
    · intro b hb
      have := i2 b hb
      exact Or.inl (by simp only; omega)
    · intro q hq
      simp only [List.mem_cons] at hq
      rcases hq with rfl | hq
      · simp only [List.length_cons]; omega
      · have := i2 q hq
        simp only [List.length_cons]; omega

theorem srt_zipIdx_snd (a : Nat) (l : List Val) (s : Nat) :
    Srt ((l.zipIdx s).map fun q => ((a, q.2), q.1)) ∧
      ∀ q ∈ (l.zipIdx s).map (fun q => (((a, q.2), q.1) : Key × Val)),
        q.1.1 = a ∧ s ≤ q.1.2 := by
  induction l generalizing s with
  | nil => simp [Srt]
  | cons x l ih =>
    obtain ⟨i1, i2⟩ := ih (s + 1)
    simp only [List.zipIdx_cons, List.map_cons]
    refine ⟨List.pairwise_cons.2 ⟨?_, i1⟩, ?_⟩
    · intro b hb
      have := i2 b hb
      exact Or.inr (by simp only; omega)
    · intro q hq
      simp only [List.mem_cons] at hq
      rcases hq with rfl | hq
      · simp
      · have := i2 q hq
        omega

/-! ### map_fil_col -/

/-- the keyed output of one element in the `chunk_size == 1` path of `map_fil_col::task` -/
def mapFilK (m : Val → Val) (f : Val → Bool) (p : Nat × Val) : List (Key × Val) :=
  if f (m p.2) then [((p.1, 0), m p.2)] else []

def mapFilCp (m : Val → Val) (f : Val → Bool) (c : Nat) (ch : Chunk) : List (Key × Val) :=
  if c == 1 then (idxOf ch.start ch.items).flatMap (mapFilK m f)
  else (((ch.items.map m).filter f).zipIdx ch.start).map fun p => ((p.2, 0), p.1)

theorem mapFilColTask_eq (m : Val → Val) (f : Val → Bool) (c : Nat) (chunks : List Chunk) :
    mapFilColTask m f c chunks = chunks.flatMap (mapFilCp m f c) := by
  unfold mapFilColTask mapFilCp
  split
  · rw [idxElems_eq, filterMap_eq_flatMap, List.flatMap_assoc]
    apply flatMap_congr'
    intro ch _
    apply flatMap_congr'
    intro p _
    simp only [mapFilK]
    split <;> simp
  · rfl

theorem flatMap_mapFil (m : Val → Val) (f : Val → Bool) (items : List Val) :
    items.flatMap (fun x => if f (m x) then [m x] else []) = (items.map m).filter f := by
  induction items with
  | nil => rfl
  | cons x items ih =>
    simp only [List.flatMap_cons, List.map_cons, List.filter_cons, ih]
    split <;> simp

theorem mapFil_chunkPairs (m : Val → Val) (f : Val → Bool) :
    ChunkPairs (mapFilCp m f) (fun items => (items.map m).filter f) where
  range := by
    intro c ch q hq
    unfold mapFilCp at hq
    split at hq
    · refine (idx_flat (mapFilK m f) ?_ ?_ ch.items ch.start).2 q hq
      · intro p q hq; unfold mapFilK at hq; split at hq <;> simp_all
      · intro p; unfold mapFilK Srt; split <;> simp
    · have := (srt_zipIdx_fst ((ch.items.map m).filter f) ch.start).2 q hq
      have hl : ((ch.items.map m).filter f).length ≤ ch.items.length := by
        have := List.length_filter_le f (ch.items.map m)
        simpa using this
      omega
  sorted := by
    intro c ch
    unfold mapFilCp
    split
    · refine (idx_flat (mapFilK m f) ?_ ?_ ch.items ch.start).1
      · intro p q hq; unfold mapFilK at hq; split at hq <;> simp_all
      · intro p; unfold mapFilK Srt; split <;> simp
    · exact (srt_zipIdx_fst _ _).1
  vals := by
    intro c ch
    unfold mapFilCp
    split
    · rw [idx_flat_vals (mapFilK m f) (fun x => if f (m x) then [m x] else [])]
      · exact flatMap_mapFil m f _
      · intro i x; unfold mapFilK; split <;> simp
    · rw [List.map_map]
      exact List.zipIdx_map_fst _ _
  nil := rfl
  app := by intro a b; simp

/-! ### filtermap_fil_col -/

def fmFilG (fm : Val → Option Val) (f : Val → Bool) (x : Val) : List Val :=
  match fm x with
  | none => []
  | some v => if f v then [v] else []

def fmFilK (fm : Val → Option Val) (f : Val → Bool) (p : Nat × Val) : List (Key × Val) :=
  match fm p.2 with
  | none => []
  | some v => if f v then [((p.1, 0), v)] else []

def fmFilCp (fm : Val → Option Val) (f : Val → Bool) (_c : Nat) (ch : Chunk) : List (Key × Val) :=
  (idxOf ch.start ch.items).flatMap (fmFilK fm f)

theorem filtermapFilColTask_eq (fm : Val → Option Val) (f : Val → Bool) (c : Nat)
    (chunks : List Chunk) :
    filtermapFilColTask fm f c chunks = chunks.flatMap (fmFilCp fm f c) := by
  unfold filtermapFilColTask fmFilCp
  rw [idxElems_eq, filterMap_eq_flatMap, List.flatMap_assoc]
  apply flatMap_congr'
  intro ch _
  apply flatMap_congr'
  intro p _
  simp only [fmFilK]
  cases h : fm p.2 with
  | none => rfl
  | some v => by_cases hf : f v <;> simp [hf]

theorem flatMap_fmFil (fm : Val → Option Val) (f : Val → Bool) (items : List Val) :
    items.flatMap (fmFilG fm f) = (items.filterMap fm).filter f := by
  induction items with
  | nil => rfl
  | cons x items ih =>
    simp only [List.flatMap_cons, List.filterMap_cons, ih, fmFilG]
    cases h : fm x with
    | none => simp
    | some v => by_cases hf : f v <;> simp [hf]

theorem fmFilK_key (fm : Val → Option Val) (f : Val → Bool) (p : Nat × Val) :
    ∀ q ∈ fmFilK fm f p, q.1.1 = p.1 := by
  intro q hq
  unfold fmFilK at hq
  split at hq
  · simp at hq
  · split at hq <;> simp_all

theorem fmFilK_srt (fm : Val → Option Val) (f : Val → Bool) (p : Nat × Val) :
    Srt (fmFilK fm f p) := by
  unfold fmFilK Srt
  split
  · simp
  · split <;> simp

theorem fmFil_chunkPairs (fm : Val → Option Val) (f : Val → Bool) :
    ChunkPairs (fmFilCp fm f) (fun items => (items.filterMap fm).filter f) where
  range := fun _ ch q hq =>
    (idx_flat (fmFilK fm f) (fmFilK_key fm f) (fmFilK_srt fm f) ch.items ch.start).2 q hq
  sorted := fun _ ch =>
    (idx_flat (fmFilK fm f) (fmFilK_key fm f) (fmFilK_srt fm f) ch.items ch.start).1
  vals := by
    intro c ch
    unfold fmFilCp
    rw [idx_flat_vals (fmFilK fm f) (fmFilG fm f)]
    · exact flatMap_fmFil fm f _
    · intro i x
      unfold fmFilK fmFilG
      cases h : fm x with
      | none => simp
      | some v => by_cases hf : f v <;> simp [hf]
  nil := rfl
  app := by intro a b; simp

/-! ### flatmap_fil_col -/

def flatFilK (g : Val → List Val) (f : Val → Bool) (p : Nat × Val) : List (Key × Val) :=
  (((g p.2).filter f).zipIdx 0).map fun q => ((p.1, q.2), q.1)

def flatFilCp (g : Val → List Val) (f : Val → Bool) (_c : Nat) (ch : Chunk) : List (Key × Val) :=
  (idxOf ch.start ch.items).flatMap (flatFilK g f)

theorem flatmapFilColTask_eq (g : Val → List Val) (f : Val → Bool) (c : Nat)
    (chunks : List Chunk) :
    flatmapFilColTask g f c chunks = chunks.flatMap (flatFilCp g f c) := by
  unfold flatmapFilColTask flatFilCp
  rw [idxElems_eq, List.flatMap_assoc]
  rfl

theorem flatFil_chunkPairs (g : Val → List Val) (f : Val → Bool) :
    ChunkPairs (flatFilCp g f) (fun items => (items.flatMap g).filter f) where
  range := fun _ ch q hq =>
    (idx_flat (flatFilK g f) (fun p q hq => ((srt_zipIdx_snd p.1 _ 0).2 q hq).1)
      (fun p => (srt_zipIdx_snd p.1 _ 0).1) ch.items ch.start).2 q hq
  sorted := fun _ ch =>
    (idx_flat (flatFilK g f) (fun p q hq => ((srt_zipIdx_snd p.1 _ 0).2 q hq).1)
      (fun p => (srt_zipIdx_snd p.1 _ 0).1) ch.items ch.start).1
  vals := by
    intro c ch
    unfold flatFilCp
    rw [idx_flat_vals (flatFilK g f) (fun x => (g x).filter f)]
    · exact List.filter_flatMap.symm
    · intro i x
      unfold flatFilK
      rw [List.map_map]
      exact List.zipIdx_map_fst _ _
  nil := rfl
  app := by intro a b; simp

/-! ### the theorems -/

/-- `seq_filtermap_fil_col` in plain form -/
theorem seqFiltermapFilCol_eq (fm : Val → Option Val) (f : Val → Bool) (pre xs : List Val) :
    seqFiltermapFilCol fm f pre xs = pre ++ (xs.filterMap fm).filter f := by
  unfold seqFiltermapFilCol
  congr 2
  induction xs with
  | nil => rfl
  | cons x xs ih =>
    simp only [List.map_cons, List.filter_cons, List.filterMap_cons]
    cases h : fm x <;> simp [ih]

/-- T-col (map_fil_col): for every accepted execution — any tiling, any chunk-to-worker
    assignment, any spawn order, any chunk sizes (both task paths) -/
theorem mapFilCol_correct (m : Val → Val) (f : Val → Bool) (pre xs : List Val) (ex : Exec)
    (h : ex.Accepts xs) :
    heapSortInto pre (ex.runMap (mapFilColTask m f)) = seqMapFilCol m f pre xs :=
  collect_generic (mapFil_chunkPairs m f) _ (mapFilColTask_eq m f) pre xs ex h

theorem filtermapFilCol_correct (fm : Val → Option Val) (f : Val → Bool) (pre xs : List Val)
    (ex : Exec) (h : ex.Accepts xs) :
    heapSortInto pre (ex.runMap (filtermapFilColTask fm f)) = seqFiltermapFilCol fm f pre xs := by
  rw [seqFiltermapFilCol_eq]
  exact collect_generic (fmFil_chunkPairs fm f) _ (filtermapFilColTask_eq fm f) pre xs ex h

theorem flatmapFilCol_correct (g : Val → List Val) (f : Val → Bool) (pre xs : List Val)
    (ex : Exec) (h : ex.Accepts xs) :
    heapSortInto pre (ex.runMap (flatmapFilColTask g f)) = seqFlatmapFilCol g f pre xs :=
  collect_generic (flatFil_chunkPairs g f) _ (flatmapFilColTask_eq g f) pre xs ex h

end OrxPar
