/- Refinement of the cell-level heap sort (`Res.HS`) to the abstract k-way merge (`K.popMin`). -/
import OrxPar.Model.Resources
import OrxPar.Lemmas.Merge
namespace OrxPar
namespace Res
open K

theorem keyLt_iff (a b : Key) :
    Key.lt a b = true ↔ (a.1 < b.1 ∨ (a.1 = b.1 ∧ a.2 < b.2)) := by
  simp [Key.lt]

/-! ### the fold of `selMin` -/

theorem foldl_pick_spec (cs : List (Nat × Key)) (c : Nat × Key) :
    cs.foldl (fun best x => if Key.lt x.2 best.2 then x else best) c ∈ c :: cs ∧
    ∀ x ∈ c :: cs,
      ¬ Key.lt x.2 (cs.foldl (fun best x => if Key.lt x.2 best.2 then x else best) c).2 = true := by
  induction cs generalizing c with
  | nil =>
    simp [keyLt_iff]
  | cons y cs ih =>
    simp only [List.foldl_cons]
    by_cases hlt : Key.lt y.2 c.2 = true
    · rw [if_pos hlt]
      obtain ⟨h1, h2⟩ := ih y
      refine ⟨List.mem_cons_of_mem _ h1, ?_⟩
      intro x hx
      simp only [List.mem_cons] at hx
      rcases hx with rfl | hx
      · have := h2 y List.mem_cons_self
        rw [keyLt_iff] at this hlt ⊢
        omega
      · exact h2 x (List.mem_cons.2 hx)
    · rw [if_neg hlt]
      obtain ⟨h1, h2⟩ := ih c
      refine ⟨?_, ?_⟩
      · simp only [List.mem_cons] at h1 ⊢
        rcases h1 with h1 | h1
        · exact Or.inl h1
        · exact Or.inr (Or.inr h1)
      · intro x hx
        simp only [List.mem_cons] at hx
        rcases hx with rfl | rfl | hx
        · exact h2 _ List.mem_cons_self
        · have := h2 c List.mem_cons_self
          rw [keyLt_iff] at this hlt ⊢
          omega
        · exact h2 x (List.mem_cons_of_mem _ hx)

/-- the current element of vector `v` -/
def HS.cur (h : HS) (v : Nat) : Option (Key × Cell) := (h.vecs.getD v [])[h.indices.getD v 0]?

def HS.cand (h : HS) : List (Nat × Key) :=
  (List.range h.vecs.length).filterMap fun v =>
    match (h.vecs.getD v [])[h.indices.getD v 0]? with
    | some x => some (v, x.1)
    | none => none

theorem HS.mem_cand (h : HS) (v : Nat) (k : Key) :
    (v, k) ∈ h.cand ↔ v < h.vecs.length ∧ ∃ x, h.cur v = some x ∧ x.1 = k := by
  unfold HS.cand HS.cur
  simp only [List.mem_filterMap, List.mem_range]
  constructor
  · rintro ⟨a, ha, hm⟩
    split at hm
    · rename_i x hx
      simp only [Option.some.injEq, Prod.mk.injEq] at hm
      obtain ⟨rfl, rfl⟩ := hm
      exact ⟨ha, x, hx, rfl⟩
    · simp at hm
  · rintro ⟨hv, x, hx, rfl⟩
    exact ⟨v, hv, by rw [hx]⟩

theorem HS.selMin_eq (h : HS) :
    h.selMin = match h.cand with
      | [] => none
      | c :: cs => some (cs.foldl (fun best x => if Key.lt x.2 best.2 then x else best) c).1 := rfl

theorem HS.selMin_some {h : HS} {v : Nat} (hsel : h.selMin = some v) :
    ∃ x, v < h.vecs.length ∧ h.cur v = some x ∧
      ∀ v' x', v' < h.vecs.length → h.cur v' = some x' → ¬ Key.lt x'.1 x.1 = true := by
  rw [HS.selMin_eq] at hsel
  split at hsel
  · simp at hsel
  · rename_i c cs hc
    simp only [Option.some.injEq] at hsel
    obtain ⟨h1, h2⟩ := foldl_pick_spec cs c
    generalize hr : cs.foldl (fun best x => if Key.lt x.2 best.2 then x else best) c = r at h1 h2 hsel
    obtain ⟨rv, rk⟩ := r
    simp only at hsel
    subst hsel
    rw [← hc] at h1 h2
    obtain ⟨hv, x, hx, hk⟩ := (h.mem_cand _ _).1 h1
    refine ⟨x, hv, hx, ?_⟩
    intro v' x' hv' hx'
    have := h2 (v', x'.1) ((h.mem_cand _ _).2 ⟨hv', x', hx', rfl⟩)
    simpa [hk] using this

theorem HS.selMin_none {h : HS} (hsel : h.selMin = none) :
    ∀ v, v < h.vecs.length → h.cur v = none := by
  rw [HS.selMin_eq] at hsel
  split at hsel
  · rename_i hc
    intro v hv
    cases hx : h.cur v with
    | none => rfl
    | some x =>
      have := (h.mem_cand v x.1).2 ⟨hv, x, hx, rfl⟩
      rw [hc] at this
      simp at this
  · simp at hsel

/-! ### `popMin` as an index -/

theorem keyLe_trans {a b c : Key} (h1 : Key.le a b = true) (h2 : Key.le b c = true) :
    Key.le a c = true := by
  rw [Key.le_iff] at *; omega

theorem popMin_idx {vs : List (List (Key × Val))} {x vs'} (h : popMin vs = some (x, vs')) :
    ∃ (v : Nat) (tl : List (Key × Val)), vs[v]? = some (x :: tl) ∧ vs' = vs.set v tl ∧
      ∀ (v' : Nat) (y : Key × Val) tl', vs[v']? = some (y :: tl') → Key.le x.1 y.1 = true := by
  fun_induction popMin vs generalizing x vs' with
  | case1 => simp at h
  | case2 vs hn ih => simp at h
  | case3 vs y vs1 hp ih =>
    simp at h; obtain ⟨rfl, rfl⟩ := h
    obtain ⟨v, tl, h1, h2, h3⟩ := ih hp
    refine ⟨v + 1, tl, by simpa using h1, by simp [h2], ?_⟩
    intro v' y' tl' hv'
    cases v' with
    | zero => simp at hv'
    | succ v' => exact h3 v' y' tl' (by simpa using hv')
  | case4 x0 v vs hn =>
    simp at h; obtain ⟨rfl, rfl⟩ := h
    refine ⟨0, v, by simp, by simp, ?_⟩
    intro v' y' tl' hv'
    cases v' with
    | zero =>
      simp at hv'
      rw [hv'.1, Key.le_iff]; omega
    | succ v' =>
      exfalso
      have hnil := popMin_none hn
      rw [List.flatten_eq_nil_iff] at hnil
      have hm : (y' :: tl') ∈ vs := List.mem_of_getElem? (by simpa using hv')
      have := hnil _ hm
      simp at this
  | case5 x0 v vs y vs1 hp hle ih =>
    simp at h; obtain ⟨rfl, rfl⟩ := h
    obtain ⟨w, tl, h1, h2, h3⟩ := ih hp
    refine ⟨0, v, by simp, by simp, ?_⟩
    intro v' y' tl' hv'
    cases v' with
    | zero =>
      simp at hv'
      rw [hv'.1, Key.le_iff]; omega
    | succ v' => exact keyLe_trans hle (h3 v' y' tl' (by simpa using hv'))
  | case6 x0 v vs y vs1 hp hlt ih =>
    simp at h; obtain ⟨rfl, rfl⟩ := h
    obtain ⟨w, tl, h1, h2, h3⟩ := ih hp
    refine ⟨w + 1, tl, by simpa using h1, by simp [h2], ?_⟩
    intro v' y' tl' hv'
    cases v' with
    | zero =>
      simp at hv'
      rw [← hv'.1]
      rw [Key.le_iff] at hlt ⊢; omega
    | succ v' => exact h3 v' y' tl' (by simpa using hv')

/-- distinct keys: two heads with the same key sit in the same vector -/
theorem idx_eq_of_key_eq {vs : List (List (Key × Val))} (hd : (vs.flatten.map (·.1)).Nodup)
    {v1 v2 : Nat} {x1 x2 : Key × Val} {t1 t2 : List (Key × Val)}
    (h1 : vs[v1]? = some (x1 :: t1)) (h2 : vs[v2]? = some (x2 :: t2)) (hk : x1.1 = x2.1) :
    v1 = v2 := by
  induction vs generalizing v1 v2 with
  | nil => simp at h1
  | cons a vs ih =>
    simp only [List.flatten_cons, List.map_append] at hd
    rw [List.nodup_append] at hd
    obtain ⟨_, hd2, hd3⟩ := hd
    cases v1 with
    | zero =>
      cases v2 with
      | zero => rfl
      | succ v2 =>
        exfalso
        simp at h1 h2
        subst h1
        have hm : (x2 :: t2) ∈ vs := List.mem_of_getElem? h2
        refine hd3 x1.1 (by simp) x2.1 ?_ hk
        simp only [List.mem_map, List.mem_flatten]
        exact ⟨x2, ⟨_, hm, List.mem_cons_self⟩, rfl⟩
    | succ v1 =>
      cases v2 with
      | zero =>
        exfalso
        simp at h1 h2
        subst h2
        have hm : (x1 :: t1) ∈ vs := List.mem_of_getElem? h1
        refine hd3 x2.1 (by simp) x1.1 ?_ hk.symm
        simp only [List.mem_map, List.mem_flatten]
        exact ⟨x1, ⟨_, hm, List.mem_cons_self⟩, rfl⟩
      | succ v2 =>
        have := ih hd2 (by simpa using h1) (by simpa using h2)
        omega

/-! ### the refinement relation -/

/-- a vector as memory -/
def cv (r : List (Key × Val)) : CVec := r.map fun p => (p.1, Cell.init p.2)

structure R (h : HS) (rem : List (List (Key × Val))) (out0 : List Nat) : Prop where
  lv : h.vecs.length = rem.length
  li : h.indices.length = rem.length
  bad : h.bad = 0
  out : h.out = out0
  pt : ∀ (v : Nat) (r : List (Key × Val)), rem[v]? = some r →
    ∃ p : CVec, h.vecs[v]? = some (p ++ cv r) ∧ h.indices[v]? = some p.length ∧
      ∀ c ∈ p, c.2 = Cell.moved

theorem R.cur {h rem out0} (hR : R h rem out0) {v : Nat} {r : List (Key × Val)}
    (hv : rem[v]? = some r) : h.cur v = r.head?.map fun p => (p.1, Cell.init p.2) := by
  obtain ⟨p, h1, h2, _⟩ := hR.pt v r hv
  unfold HS.cur
  rw [List.getD_eq_getElem?_getD, List.getD_eq_getElem?_getD, h1, h2]
  simp only [Option.getD_some]
  rw [List.getElem?_append_right (Nat.le_refl _)]
  cases r <;> simp [cv]

theorem step_spec {h rem out0 x rem'} (hR : R h rem out0)
    (hd : (rem.flatten.map (·.1)).Nodup) (hp : popMin rem = some (x, rem')) :
    ∃ h', h.step = some h' ∧ R h' rem' (out0 ++ [x.2]) ∧
      h'.vecs.map List.length = h.vecs.map List.length := by
  obtain ⟨v, tl, hv, hrem', hmin⟩ := popMin_idx hp
  have hvlt : v < h.vecs.length := by
    rw [hR.lv]; exact (List.getElem?_eq_some_iff.1 hv).1
  have hcurv : h.cur v = some (x.1, Cell.init x.2) := by rw [hR.cur hv]; rfl
  cases hsel : h.selMin with
  | none =>
    have := HS.selMin_none hsel v hvlt
    rw [hcurv] at this; simp at this
  | some v1 =>
    obtain ⟨x1, hv1, hcur1, hmin1⟩ := HS.selMin_some hsel
    have hv1' : v1 < rem.length := hR.lv ▸ hv1
    have hr1 : rem[v1]? = some rem[v1] := List.getElem?_eq_getElem hv1'
    rw [hR.cur hr1] at hcur1
    cases hrem1 : rem[v1] with
    | nil => rw [hrem1] at hcur1; simp at hcur1
    | cons y t1 =>
      rw [hrem1] at hcur1 hr1
      simp only [List.head?_cons, Option.map_some, Option.some.injEq] at hcur1
      subst hcur1
      have hle := hmin v1 y t1 hr1
      have hnlt := hmin1 v _ hvlt hcurv
      simp only at hnlt
      have hk : y.1 = x.1 := by
        rw [Key.le_iff] at hle
        rw [keyLt_iff] at hnlt
        apply Prod.ext <;> omega
      have hvv : v1 = v := idx_eq_of_key_eq hd hr1 hv hk
      subst hvv
      have hyx : x = y := by
        have := hr1.symm.trans hv
        simp at this; exact this.1.symm
      subst hyx
      obtain ⟨p, hp1, hp2, hp3⟩ := hR.pt v1 _ hv
      have hcur' : (h.vecs.getD v1 [])[h.indices.getD v1 0]? = some (x.1, Cell.init x.2) := hcurv
      have hgv : h.vecs.getD v1 [] = p ++ cv (x :: tl) := by
        rw [List.getD_eq_getElem?_getD, hp1]; rfl
      have hgi : h.indices.getD v1 0 = p.length := by
        rw [List.getD_eq_getElem?_getD, hp2]; rfl
      refine ⟨{ vecs := h.vecs.set v1 ((h.vecs.getD v1 []).set (h.indices.getD v1 0) (x.1, Cell.moved))
                indices := h.indices.set v1 (h.indices.getD v1 0 + 1)
                out := h.out ++ [x.2]
                bad := h.bad + 0 }, ?_, ?_, ?_⟩
      · unfold HS.step
        rw [hsel]
        simp only [hcur', readCell]
        rfl
      · constructor
        · simp [hR.lv, hrem']
        · simp [hR.li, hrem']
        · simp [hR.bad]
        · simp [hR.out]
        · intro w r hw
          rw [hrem'] at hw
          by_cases hwv : v1 = w
          · subst hwv
            rw [List.getElem?_set_self (hR.lv ▸ hvlt)] at hw
            simp only [Option.some.injEq] at hw
            subst hw
            refine ⟨p ++ [(x.1, Cell.moved)], ?_, ?_, ?_⟩
            · simp only
              rw [List.getElem?_set_self hvlt, hgv, hgi]
              simp [cv]
            · simp only
              rw [List.getElem?_set_self (hR.li ▸ hR.lv ▸ hvlt), hgi]
              simp
            · intro c hc
              simp only [List.mem_append, List.mem_singleton] at hc
              rcases hc with hc | rfl
              · exact hp3 c hc
              · rfl
          · rw [List.getElem?_set_ne hwv] at hw
            obtain ⟨q, hq1, hq2, hq3⟩ := hR.pt w r hw
            refine ⟨q, ?_, ?_, hq3⟩
            · simp only
              rw [List.getElem?_set_ne hwv]; exact hq1
            · simp only
              rw [List.getElem?_set_ne hwv]; exact hq2
      · simp only
        rw [List.map_set, List.length_set]
        apply List.ext_getElem?
        intro i
        by_cases hi : v1 = i
        · subst hi
          rw [List.getElem?_set_self (by simpa using hvlt)]
          simp [List.getD_eq_getElem?_getD, List.getElem?_eq_getElem hvlt]
        · rw [List.getElem?_set_ne hi]

theorem step_none {h rem out0} (hR : R h rem out0) (hp : popMin rem = none) : h.step = none := by
  have hnil := popMin_none hp
  rw [List.flatten_eq_nil_iff] at hnil
  cases hsel : h.selMin with
  | none => unfold HS.step; rw [hsel]
  | some v1 =>
    exfalso
    obtain ⟨x1, hv1, hcur1, _⟩ := HS.selMin_some hsel
    have hv1' : v1 < rem.length := hR.lv ▸ hv1
    have hr1 : rem[v1]? = some rem[v1] := List.getElem?_eq_getElem hv1'
    rw [hR.cur hr1, hnil _ (List.getElem_mem hv1')] at hcur1
    simp at hcur1

theorem popMin_nodup {rem : List (List (Key × Val))} {x rem'}
    (hd : (rem.flatten.map (·.1)).Nodup) (hp : popMin rem = some (x, rem')) :
    (rem'.flatten.map (·.1)).Nodup := by
  have := ((popMin_perm hp).map (·.1)).nodup_iff.2 hd
  simp only [List.map_cons] at this
  exact (List.nodup_cons.1 this).2

theorem loop_spec (n : Nat) : ∀ (h : HS) (rem : List (List (Key × Val))) (out0 : List Nat),
    R h rem out0 → (rem.flatten.map (·.1)).Nodup →
    ∃ rem', R (HS.loop n h) rem' (out0 ++ (kmergeFuel n rem).map (·.2)) ∧
      (rem.flatten.length ≤ n → rem'.flatten = []) ∧
      (HS.loop n h).vecs.map List.length = h.vecs.map List.length := by
  induction n with
  | zero =>
    intro h rem out0 hR _
    refine ⟨rem, by simpa [HS.loop, kmergeFuel] using hR, ?_, rfl⟩
    intro hl
    exact List.length_eq_zero_iff.1 (Nat.le_zero.1 hl)
  | succ n ih =>
    intro h rem out0 hR hd
    cases hp : popMin rem with
    | none =>
      refine ⟨rem, ?_, fun _ => popMin_none hp, ?_⟩
      · simpa [HS.loop, kmergeFuel, step_none hR hp, hp] using hR
      · simp [HS.loop, step_none hR hp]
    | some xr =>
      obtain ⟨x, rem1⟩ := xr
      obtain ⟨h1, hs1, hR1, hl1⟩ := step_spec hR hd hp
      obtain ⟨rem', hR', hnil, hl'⟩ := ih h1 rem1 _ hR1 (popMin_nodup hd hp)
      refine ⟨rem', ?_, ?_, ?_⟩
      · simpa [HS.loop, kmergeFuel, hs1, hp] using hR'
      · intro hl
        apply hnil
        have := (popMin_perm hp).length_eq
        simp only [List.length_cons] at this
        omega
      · simp only [HS.loop, hs1]
        rw [hl', hl1]

theorem held_eq_nil {cs : List Cell} (h : ∀ c ∈ cs, c = Cell.moved) : held cs = [] := by
  unfold held
  rw [List.filterMap_eq_nil_iff]
  intro c hc
  rw [h c hc]

/-- the initial state is related to the input vectors -/
theorem R_init (tv : List (List (Key × Val))) :
    R ⟨tv.map cv, (tv.map cv).map fun _ => 0, [], 0⟩ tv [] := by
  constructor
  · simp
  · simp
  · rfl
  · rfl
  · intro v r hv
    refine ⟨[], ?_, ?_, by simp⟩
    · simp [hv]
    · simp [hv]

/-- the loop of `heapSort` on initialised vectors with distinct keys -/
theorem loop_final (tv : List (List (Key × Val))) (hd : (tv.flatten.map (·.1)).Nodup) :
    let h := HS.loop ((tv.map cv).map List.length).sum ⟨tv.map cv, (tv.map cv).map fun _ => 0, [], 0⟩
    h.out = (kmergeFuel (tv.map List.length).sum tv).map (·.2) ∧ h.bad = 0 ∧
    (∀ c ∈ h.vecs.flatten.map (·.2), c = Cell.moved) ∧
    (h.vecs.flatten.map (·.2)).length = tv.flatten.length := by
  have hlen : ((tv.map cv).map List.length).sum = (tv.map List.length).sum := by
    simp [cv, Function.comp_def]
  intro h
  obtain ⟨rem', hR', hnil, hl'⟩ := loop_spec ((tv.map cv).map List.length).sum _ tv [] (R_init tv) hd
  have hnil' := hnil (by rw [hlen, List.length_flatten]; exact Nat.le_refl _)
  rw [List.flatten_eq_nil_iff] at hnil'
  refine ⟨?_, hR'.bad, ?_, ?_⟩
  · show (HS.loop _ _).out = _
    rw [hR'.out, hlen]
    simp
  · intro c hc
    simp only [List.mem_map, List.mem_flatten] at hc
    obtain ⟨a, ⟨vec, hvec, ha⟩, rfl⟩ := hc
    obtain ⟨v, hv, rfl⟩ := List.getElem_of_mem hvec
    have hv' : v < rem'.length := hR'.lv ▸ hv
    obtain ⟨p, hp1, _, hp3⟩ := hR'.pt v _ (List.getElem?_eq_getElem hv')
    rw [hnil' _ (List.getElem_mem hv')] at hp1
    rw [List.getElem?_eq_getElem hv] at hp1
    simp only [cv, List.map_nil, List.append_nil, Option.some.injEq] at hp1
    exact hp3 a (hp1 ▸ ha)
  · rw [List.length_map, List.length_flatten]
    show ((HS.loop _ _).vecs.map List.length).sum = _
    rw [hl', List.length_flatten]
    simp [cv, Function.comp_def]

end Res
end OrxPar
