/-
  Sequential short-circuit terminals consume the source exactly up to the element that yields the
  first match: what comes after it has no influence on the evaluation (so it need not, and in the
  code does not, get pulled from the source iterator).
-/
import OrxPar.Lemmas.PanicShort
namespace OrxPar

/-- the scan of a source is the scan of its prefix up to and including the first element with an
    output; the rest of the source is irrelevant -/
theorem scanLog_stops_at_first_hit (g : Val → Prod) (A : List Val) (x : Val) (B : List Val)
    (hA : ∀ a ∈ A, hitOf g a = false) (hx : hitOf g x = true) :
    scanLog g (A ++ x :: B) = scanLog g (A ++ [x]) := by
  rw [scanLog_append_nohit g A _ hA, scanLog_append_nohit g A _ hA, scanLog_cons, scanLog_cons]
  simp only [hitOf] at hx
  simp [hx]

/-- without any hit the whole source is scanned (and nothing more can be) -/
theorem scanLog_no_hit (g : Val → Prod) (A : List Val) (hA : ∀ a ∈ A, hitOf g a = false) :
    scanLog g A = A.flatMap fun a => (g a).first.2 := by
  have := scanLog_append_nohit g A [] hA
  simpa [scanLog] using this

/-- **C10 (sequential mode, source consumption).** if the first element whose pipeline output
    satisfies the predicate sits at position `|A|` of the source, the sequential `find`
    evaluates exactly what it would evaluate on the source truncated right after that element -/
theorem Par.seqFind_independent_of_tail (P : Par) (q : Val → Bool) (A : List Val) (x : Val) (B : List Val)
    (hsrc : P.src.items = A ++ x :: B)
    (hA : ∀ a ∈ A, hitOf (P.elemQ q) a = false) (hx : hitOf (P.elemQ q) x = true) :
    P.seqFindLog q = scanLog (P.elemQ q) (A ++ [x]) := by
  rw [Par.seqFindLog_eq_scan, hsrc]
  exact scanLog_stops_at_first_hit _ A x B hA hx

end OrxPar
