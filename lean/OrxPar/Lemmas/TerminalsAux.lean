/- Helper lemmas for `Lemmas/Terminals.lean`: the kernel entry points under an accepted
   execution, the sequential stream of each type in the shape the kernels compute, the values
   of one element's stream, and stage facts about the events of the std adaptors. -/
import OrxPar.Lemmas.Collect
import OrxPar.Lemmas.Fold
import OrxPar.Lemmas.BagFind
import OrxPar.Lemmas.Chain
namespace OrxPar
open K Kern
set_option linter.unusedSimpArgs false

/-! ### small facts -/

theorem pv_mapSelf : pv Par.mapSelf = id := rfl
theorem pv_noFilter : pv Par.noFilter = fun _ => true := rfl

theorem filter_noFilter (l : List Val) : l.filter (pv Par.noFilter) = l := by
  rw [pv_noFilter]; simp

theorem map_mapSelf (l : List Val) : l.map (pv Par.mapSelf) = l := by
  rw [pv_mapSelf]; exact List.map_id l

theorem fm_norm (fm : Val → Option Val) (l : List Val) :
    ((l.map fm).filter (·.isSome)).filterMap id = l.filterMap fm := by
  induction l with
  | nil => rfl
  | cons x xs ih =>
    simp only [List.map_cons, List.filter_cons, List.filterMap_cons]
    cases h : fm x <;> simp [ih]

/-! ### the sequential stream of each type, in the shape its kernels compute -/

theorem Par.kvals_empty (p s) :
    (Par.empty p s).stream.vals = (s.items.map (pv Par.mapSelf)).filter (pv Par.noFilter) := by
  rw [Par.stream_vals_empty, filter_noFilter, map_mapSelf]
theorem Par.kvals_map (p s m) :
    (Par.map p s m).stream.vals = (s.items.map (pv m)).filter (pv Par.noFilter) := by
  rw [Par.stream_vals_map, filter_noFilter]
theorem Par.kvals_fil (p s f) :
    (Par.fil p s f).stream.vals = (s.items.map (pv Par.mapSelf)).filter (pv f) := by
  rw [Par.stream_vals_fil, map_mapSelf]
theorem Par.kvals_mapFil (p s m f) :
    (Par.mapFil p s m f).stream.vals = (s.items.map (pv m)).filter (pv f) :=
  Par.stream_vals_mapFil p s m f
theorem Par.kvals_filterMap (p s fm) :
    (Par.filterMap p s fm).stream.vals
      = ((((s.items.map (pv fm)).filter (·.isSome)).filterMap id).filter (pv Par.noFilter)) := by
  rw [Par.stream_vals_filterMap, filter_noFilter, fm_norm]
theorem Par.kvals_filterMapFil (p s fm f) :
    (Par.filterMapFil p s fm f).stream.vals
      = ((((s.items.map (pv fm)).filter (·.isSome)).filterMap id).filter (pv f)) := by
  rw [Par.stream_vals_filterMapFil, fm_norm]
theorem Par.kvals_flatMap (p s g) :
    (Par.flatMap p s g).stream.vals = (s.items.flatMap (pvs g)).filter (pv Par.noFilter) := by
  rw [Par.stream_vals_flatMap, filter_noFilter]
theorem Par.kvals_flatMapFil (p s g f) :
    (Par.flatMapFil p s g f).stream.vals = (s.items.flatMap (pvs g)).filter (pv f) :=
  Par.stream_vals_flatMapFil p s g f

/-! ### kernel entry points -/

section entry
variable (p : Params) (s : Src) (ex : Exec)

theorem Kern.mapFilRed_gen (R : List Val → Option Val → Prop) (op : Val → Val → Val)
    (hseq : ∀ S, R S (reduceList op S)) (m : Val → Val) (f : Val → Bool)
    (h : p.isSequential = true ∨ R ((s.items.map m).filter f)
      ((ex.reduce (mapFilRedTask m f op) (maybeReduce op)).getD none)) :
    R ((s.items.map m).filter f) (mapFilRed p s m f op ex) := by
  unfold mapFilRed
  split
  · exact hseq _
  · rcases h with h | h
    · contradiction
    · exact h

theorem Kern.filtermapFilRed_gen (R : List Val → Option Val → Prop) (op : Val → Val → Val)
    (hseq : ∀ S, R S (reduceList op S)) (fm : Val → Option Val) (f : Val → Bool)
    (h : p.isSequential = true ∨ R ((((s.items.map fm).filter (·.isSome)).filterMap id).filter f)
      ((ex.reduce (filtermapFilRedTask fm f op) (maybeReduce op)).getD none)) :
    R ((((s.items.map fm).filter (·.isSome)).filterMap id).filter f)
      (filtermapFilRed p s fm f op ex) := by
  unfold filtermapFilRed
  split
  · exact hseq _
  · rcases h with h | h
    · contradiction
    · exact h

theorem Kern.flatmapFilRed_gen (R : List Val → Option Val → Prop) (op : Val → Val → Val)
    (hseq : ∀ S, R S (reduceList op S)) (g : Val → List Val) (f : Val → Bool)
    (h : p.isSequential = true ∨ R ((s.items.flatMap g).filter f)
      ((ex.reduce (flatmapFilRedTask g f op) (maybeReduce op)).getD none)) :
    R ((s.items.flatMap g).filter f) (flatmapFilRed p s g f op ex) := by
  unfold flatmapFilRed
  split
  · exact hseq _
  · rcases h with h | h
    · contradiction
    · exact h

theorem Kern.mapFilCnt_eq (m : Val → Val) (f : Val → Bool)
    (h : p.isSequential = true ∨ ex.Accepts s.items) :
    mapFilCnt p s m f ex = ((s.items.map m).filter f).length := by
  unfold mapFilCnt
  split
  · rfl
  · rcases h with h | h
    · contradiction
    · exact mapFilCnt_correct m f _ ex h

theorem Kern.filtermapFilCnt_eq (fm : Val → Option Val) (f : Val → Bool)
    (h : p.isSequential = true ∨ ex.Accepts s.items) :
    filtermapFilCnt p s fm f ex
      = ((((s.items.map fm).filter (·.isSome)).filterMap id).filter f).length := by
  unfold filtermapFilCnt
  split
  · rfl
  · rcases h with h | h
    · contradiction
    · exact filtermapFilCnt_correct fm f _ ex h

theorem Kern.flatmapFilCnt_eq (g : Val → List Val) (f : Val → Bool)
    (h : p.isSequential = true ∨ ex.Accepts s.items) :
    flatmapFilCnt p s g f ex = ((s.items.flatMap g).filter f).length := by
  unfold flatmapFilCnt
  split
  · rfl
  · rcases h with h | h
    · contradiction
    · exact flatmapFilCnt_correct g f _ ex h

theorem Kern.mapFilterInto_eq (pre : List Val) (m : Val → Val) (f : Val → Bool)
    (h : p.isSequential = true ∨ ex.Accepts s.items) :
    mapFilterInto pre p s m f ex = pre ++ (s.items.map m).filter f := by
  unfold mapFilterInto
  split
  · rfl
  · rcases h with h | h
    · contradiction
    · exact mapFilCol_correct m f pre _ ex h

theorem Kern.filtermapFilterInto_eq (pre : List Val) (fm : Val → Option Val) (f : Val → Bool)
    (h : p.isSequential = true ∨ ex.Accepts s.items) :
    filtermapFilterInto pre p s fm f ex
      = pre ++ (((s.items.map fm).filter (·.isSome)).filterMap id).filter f := by
  unfold filtermapFilterInto
  split
  · rfl
  · rcases h with h | h
    · contradiction
    · exact filtermapFilCol_correct fm f pre _ ex h

theorem Kern.flatmapFilterInto_eq (pre : List Val) (g : Val → List Val) (f : Val → Bool)
    (h : p.isSequential = true ∨ ex.Accepts s.items) :
    flatmapFilterInto pre p s g f ex = pre ++ (s.items.flatMap g).filter f := by
  unfold flatmapFilterInto
  split
  · rfl
  · rcases h with h | h
    · contradiction
    · exact flatmapFilCol_correct g f pre _ ex h

theorem Kern.mapCol_eq (pre : List Val) (m : Val → Val)
    (h : p.isSequential = true ∨ ex.Accepts s.items) :
    mapCol p s m pre ex = some (pre ++ s.items.map m) := by
  unfold mapCol
  split
  · rfl
  · rcases h with h | h
    · contradiction
    · exact mapCol_correct m pre _ ex h

theorem Kern.mapInto_eq (t : Target) (pre : List Val) (m : Val → Val)
    (h : p.isSequential = true ∨ ex.Accepts s.items) :
    mapInto t pre p s m ex = some (pre ++ s.items.map m) := by
  cases t <;> cases hk : s.knownLen <;>
    simp [mapInto, hk, Kern.mapCol_eq p s ex _ m h]

theorem Kern.mapFilFind_eq (m : Val → Val) (f : Val → Bool)
    (h : p.isSequential = true ∨ ex.AcceptsFind s.items (fun x => f (m x))) :
    mapFilFind p s m f ex = seqMapFilFind m f s.items := by
  unfold mapFilFind
  split
  · rfl
  · rcases h with h | h
    · contradiction
    · exact mapFilFind_correct m f _ ex h

theorem Kern.filtermapFilFind_eq (fm : Val → Option Val) (f : Val → Bool)
    (h : p.isSequential = true ∨
      ex.AcceptsFind s.items (fun x => match fm x with | none => false | some v => f v)) :
    filtermapFilFind p s fm f ex = seqFiltermapFilFind fm f s.items := by
  unfold filtermapFilFind
  split
  · rfl
  · rcases h with h | h
    · contradiction
    · exact filtermapFilFind_correct fm f _ ex h

theorem Kern.flatmapFilFind_eq (g : Val → List Val) (f : Val → Bool)
    (h : p.isSequential = true ∨ ex.AcceptsFind s.items (fun x => (g x).any f)) :
    flatmapFilFind p s g f ex = seqFlatmapFilFind g f s.items := by
  unfold flatmapFilFind
  split
  · rfl
  · rcases h with h | h
    · contradiction
    · exact flatmapFilFind_correct g f _ ex h

end entry

/-! ### the sequential finds as `findSome?` over the indexed source -/

theorem seqFiltermapFilFind_spec (fm : Val → Option Val) (f : Val → Bool) (xs : List Val) :
    seqFiltermapFilFind fm f xs = (xs.zipIdx 0).findSome? fun q =>
      match fm q.1 with
      | none => none
      | some value => if f value then some (q.2, value) else none := by
  unfold seqFiltermapFilFind
  rw [List.zipIdx_map, List.findSome?_map]
  rfl

theorem findSome_zipIdx_value (g : Val → List Val) (f : Val → Bool) (xs : List Val) (k : Nat) :
    ((xs.zipIdx k).findSome? fun q => ((g q.1).find? f).map fun y => (q.2, y)).map (·.2)
      = (xs.flatMap g).find? f := by
  induction xs generalizing k with
  | nil => rfl
  | cons x xs ih =>
    rw [List.zipIdx_cons, List.findSome?_cons, List.flatMap_cons, List.find?_append]
    cases hx : (g x).find? f with
    | none => simpa using ih (k + 1)
    | some y => simp

/-! ### the values one source element yields, per type -/

theorem Par.elem_vals_empty (p s) (x : Val) : ((Par.empty p s).elem x).vals = [x] := rfl
theorem Par.elem_vals_map (p s m) (x : Val) : ((Par.map p s m).elem x).vals = [pv m x] := rfl
theorem Par.elem_vals_fil (p s f) (x : Val) :
    ((Par.fil p s f).elem x).vals = if pv f x then [x] else [] := by
  show ((Prod.single x).filterW f).vals = _
  rw [Prod.vals_filterW]; simp [Prod.single, Prod.vals, List.filter_cons]
theorem Par.elem_vals_mapFil (p s m f) (x : Val) :
    ((Par.mapFil p s m f).elem x).vals = if pv f (pv m x) then [pv m x] else [] := by
  show (((Prod.single x).mapW m).filterW f).vals = _
  rw [Prod.vals_filterW, Prod.vals_mapW]; simp [Prod.single, Prod.vals, List.filter_cons]
theorem Par.elem_vals_filterMap (p s fm) (x : Val) :
    ((Par.filterMap p s fm).elem x).vals = (pv fm x).toList := by
  show ((Prod.single x).filterMapW fm).vals = _
  rw [Prod.vals_filterMapW]
  cases h : pv fm x <;> simp [Prod.single, Prod.vals, h]
theorem Par.elem_vals_filterMapFil (p s fm f) (x : Val) :
    ((Par.filterMapFil p s fm f).elem x).vals = (pv fm x).toList.filter (pv f) := by
  show (((Prod.single x).filterMapW fm).filterW f).vals = _
  rw [Prod.vals_filterW, Prod.vals_filterMapW]
  cases h : pv fm x <;> simp [Prod.single, Prod.vals, h]
theorem Par.elem_vals_flatMap (p s g) (x : Val) : ((Par.flatMap p s g).elem x).vals = pvs g x := rfl
theorem Par.elem_vals_flatMapFil (p s g f) (x : Val) :
    ((Par.flatMapFil p s g f).elem x).vals = (pvs g x).filter (pv f) := by
  show ((g x).filterW f).vals = _
  rw [Prod.vals_filterW]; rfl

/-! ### the value found by the sequential finds -/

theorem seqMapFilFind_value (m : Val → Val) (f : Val → Bool) (xs : List Val) :
    (seqMapFilFind m f xs).map (·.2) = (xs.map m).find? f := by
  unfold seqMapFilFind
  generalize xs.map m = l
  generalize 0 = k
  induction l generalizing k with
  | nil => rfl
  | cons x l ih =>
    rw [List.zipIdx_cons, List.findSome?_cons, List.find?_cons]
    cases h : f x
    · simpa [h] using ih (k + 1)
    · simp

theorem seqFiltermapFilFind_value (fm : Val → Option Val) (f : Val → Bool) (xs : List Val) :
    (seqFiltermapFilFind fm f xs).map (·.2) = (xs.filterMap fm).find? f := by
  unfold seqFiltermapFilFind
  generalize 0 = k
  induction xs generalizing k with
  | nil => rfl
  | cons x l ih =>
    rw [List.map_cons, List.zipIdx_cons, List.findSome?_cons, List.filterMap_cons]
    cases h : fm x with
    | none => simpa [h] using ih (k + 1)
    | some v =>
      cases hb : f v
      · simpa [h, hb, List.find?_cons] using ih (k + 1)
      · simp [hb]

theorem find_filter_and (p q : Val → Bool) (l : List Val) :
    (l.filter p).find? q = l.find? (fun y => p y && q y) := by
  induction l with
  | nil => rfl
  | cons x l ih =>
    cases hp : p x <;> cases hq : q x <;> simp [List.filter_cons, List.find?_cons, hp, hq, ih]

theorem find_noFilter_and (q : Val → Bool) (l : List Val) :
    l.find? (fun y => pv Par.noFilter y && q y) = l.find? q := by
  simp [pv_noFilter]


/-! ### the arguments of a fresh `map` stage -/

theorem filter_stage_nil (k : Nat) (e : List Event) (h : ∀ x ∈ e, x.stage ≠ k) :
    e.filter (·.stage == k) = [] := by
  rw [List.filter_eq_nil_iff]
  intro x hx
  simpa using h x hx

theorem Prod.mapW_call_args (k : Nat) (g : Val → Val) (S : Prod)
    (hfresh : ∀ e ∈ S.log, e.stage ≠ k) :
    ((S.mapW (callW k g)).log.filter (·.stage == k)).map (·.arg) = S.vals := by
  induction S with
  | nil => rfl
  | emit e v r ih =>
    have h1 : ∀ x ∈ e, x.stage ≠ k := fun x hx => hfresh x (by simp [Prod.log, hx])
    have h2 : ∀ x ∈ r.log, x.stage ≠ k := fun x hx => hfresh x (by simp [Prod.log, hx])
    simp [Prod.mapW, Prod.log, Prod.vals, callW, List.filter_append, filter_stage_nil k e h1,
      ih h2, List.filter_cons]
  | skip e r ih =>
    have h1 : ∀ x ∈ e, x.stage ≠ k := fun x hx => hfresh x (by simp [Prod.log, hx])
    have h2 : ∀ x ∈ r.log, x.stage ≠ k := fun x hx => hfresh x (by simp [Prod.log, hx])
    simp [Prod.mapW, Prod.log, Prod.vals, List.filter_append, filter_stage_nil k e h1, ih h2]


/-! ### stages of the events of the std adaptors over a silent stream -/

theorem Prod.stage_mapW_ofList (k : Nat) (f : Val → Val) (xs : List Val) :
    ∀ e ∈ ((Prod.ofList xs).mapW (callW k f)).log, e.stage = k := by
  induction xs with
  | nil => intro e he; simp [Prod.ofList, Prod.mapW, Prod.log] at he
  | cons x xs ih =>
    intro e he
    simp only [Prod.ofList, Prod.mapW, Prod.log, callW, List.nil_append, List.cons_append,
      List.mem_cons] at he
    rcases he with rfl | he
    · rfl
    · exact ih e he

theorem Prod.stage_filterW_ofList (k : Nat) (f : Val → Bool) (xs : List Val) :
    ∀ e ∈ ((Prod.ofList xs).filterW (callW k f)).log, e.stage = k := by
  induction xs with
  | nil => intro e he; simp [Prod.ofList, Prod.filterW, Prod.log] at he
  | cons x xs ih =>
    intro e he
    cases hf : f x <;>
      simp only [Prod.ofList, Prod.filterW, Prod.log, callW, hf, List.nil_append, List.cons_append,
        List.mem_cons, if_true, if_false, Bool.false_eq_true] at he <;>
      rcases he with rfl | he <;> first | rfl | exact ih e he

theorem Prod.stage_filterMapW_ofList (k : Nat) (f : Val → Option Val) (xs : List Val) :
    ∀ e ∈ ((Prod.ofList xs).filterMapW (callW k f)).log, e.stage = k := by
  induction xs with
  | nil => intro e he; simp [Prod.ofList, Prod.filterMapW, Prod.log] at he
  | cons x xs ih =>
    intro e he
    cases hf : f x <;>
      simp only [Prod.ofList, Prod.filterMapW, Prod.log, callW, hf, List.nil_append,
        List.cons_append, List.mem_cons] at he <;>
      rcases he with rfl | he <;> first | rfl | exact ih e he

theorem Prod.stage_flatMapW_ofList (k : Nat) (g : Val → List Val) (xs : List Val) :
    ∀ e ∈ ((Prod.ofList xs).flatMapW (Par.callFlat k g)).log, e.stage = k := by
  induction xs with
  | nil => intro e he; simp [Prod.ofList, Prod.flatMapW, Prod.log] at he
  | cons x xs ih =>
    intro e he
    simp only [Prod.ofList, Prod.flatMapW, Prod.log_append, Prod.log_prefixLog, Par.callFlat,
      Prod.log_ofCall, List.nil_append, List.cons_append, List.mem_cons] at he
    rcases he with rfl | he
    · rfl
    · exact ih e he


end OrxPar
