/-
  Short-circuit terminals: every invocation of the lazy sequential evaluation (`certainLog`) is
  performed by every accepted parallel execution — the elements before the first hit are all
  scanned completely by whoever pulled them, and the first hit is scanned up to its match.
-/
import OrxPar.Lemmas.Panic
namespace OrxPar

/-- does the stream of element `x` under `g` produce an output? -/
def hitOf (g : Val → Prod) (x : Val) : Bool := (g x).first.1.isSome

theorem scanLog_append_nohit (g : Val → Prod) (A B : List Val) (h : ∀ a ∈ A, hitOf g a = false) :
    scanLog g (A ++ B) = A.flatMap (fun a => (g a).first.2) ++ scanLog g B := by
  induction A with
  | nil => rfl
  | cons a A ih =>
    have ha : hitOf g a = false := h a (by simp)
    have hA : ∀ a' ∈ A, hitOf g a' = false := fun a' ha' => h a' (by simp [ha'])
    rw [List.cons_append, scanLog_cons]
    simp only [hitOf] at ha
    simp [ha, ih hA, List.append_assoc]

/-- an element reached without a hit before it contributes its lazy prefix to the scan -/
theorem scanLog_mem_of_prefix_nohit (g : Val → Prod) (A : List Val) (x : Val) (B : List Val)
    (h : ∀ a ∈ A, hitOf g a = false) (e : Event) (he : e ∈ (g x).first.2) :
    e ∈ scanLog g (A ++ x :: B) := by
  rw [scanLog_append_nohit g A _ h, scanLog_cons]
  apply List.mem_append_right
  split
  · exact he
  · exact List.mem_append_left _ he

/-- every event of a scan comes from an element that is reached without a hit before it -/
theorem scanLog_mem_split (g : Val → Prod) (L : List Val) (e : Event) (he : e ∈ scanLog g L) :
    ∃ A x B, L = A ++ x :: B ∧ (∀ a ∈ A, hitOf g a = false) ∧ e ∈ (g x).first.2 := by
  induction L with
  | nil => simp [scanLog] at he
  | cons y L ih =>
    rw [scanLog_cons] at he
    by_cases hy : (g y).first.1.isSome
    · rw [if_pos hy] at he
      exact ⟨[], y, L, rfl, by simp, he⟩
    · rw [if_neg hy] at he
      rcases List.mem_append.mp he with he | he
      · exact ⟨[], y, L, rfl, by simp, he⟩
      · obtain ⟨A, x, B, hL, hA, hx⟩ := ih he
        refine ⟨y :: A, x, B, by rw [hL]; rfl, ?_, hx⟩
        intro a ha
        rcases List.mem_cons.mp ha with ha | ha
        · subst ha; simpa [hitOf] using hy
        · exact hA a ha

/-- splitting the concatenated elements of a chunk list at one element: the chunk that holds it -/
theorem elems_split (cs : List Chunk) (A : List Val) (x : Val) (B : List Val)
    (h : K.elems cs = A ++ x :: B) :
    ∃ S1 c S2 C1 C2, cs = S1 ++ c :: S2 ∧ c.items = C1 ++ x :: C2 ∧ A = K.elems S1 ++ C1 := by
  induction cs generalizing A with
  | nil => simp [K.elems] at h
  | cons c cs ih =>
    have hc : K.elems (c :: cs) = c.items ++ K.elems cs := by simp [K.elems]
    rw [hc] at h
    rcases List.append_eq_append_iff.mp h with ⟨a', h1, h2⟩ | ⟨c', h1, h2⟩
    · -- A = c.items ++ a', elems cs = a' ++ x :: B
      obtain ⟨S1, c0, S2, C1, C2, hcs, hit, hA⟩ := ih a' h2
      refine ⟨c :: S1, c0, S2, C1, C2, by rw [hcs]; rfl, hit, ?_⟩
      rw [h1, hA]
      simp [K.elems, List.append_assoc]
    · -- c.items = A ++ c', x :: B = c' ++ elems cs
      cases c' with
      | nil =>
        -- x :: B = elems cs, A = c.items
        simp only [List.nil_append] at h2
        obtain ⟨S1, c0, S2, C1, C2, hcs, hit, hA⟩ := ih [] (by simpa using h2.symm)
        refine ⟨c :: S1, c0, S2, C1, C2, by rw [hcs]; rfl, hit, ?_⟩
        have hA' : K.elems S1 ++ C1 = [] := hA.symm
        have : A = c.items := by simpa using h1.symm
        have hcons : K.elems (c :: S1) = c.items ++ K.elems S1 := by simp [K.elems]
        rw [this, hcons, List.append_assoc, hA', List.append_nil]
      | cons z c' =>
        simp only [List.cons_append, List.cons.injEq] at h2
        obtain ⟨hz, hB⟩ := h2
        subst hz
        exact ⟨[], c, cs, A, c', rfl, h1, by simp [K.elems]⟩

theorem elems_filter_subset (P : Chunk → Bool) (cs : List Chunk) :
    ∀ a ∈ K.elems (cs.filter P), a ∈ K.elems cs := by
  intro a ha
  simp only [K.elems, List.mem_flatMap] at ha ⊢
  obtain ⟨c, hc, hac⟩ := ha
  exact ⟨c, (List.mem_filter.mp hc).1, hac⟩

/-- the scan of the tiled prefix is covered by the workers' scans -/
theorem scan_covered (g : Val → Prod) (ex : Exec) (htid : ∀ c ∈ ex.asg, c.tid ∈ ex.order)
    (e : Event) (he : e ∈ scanLog g (K.elems ex.asg)) :
    e ∈ ex.order.flatMap fun t => scanLog g (K.elems (ex.chunksOf t)) := by
  obtain ⟨A, x, B, hL, hA, hx⟩ := scanLog_mem_split g _ e he
  obtain ⟨S1, c, S2, C1, C2, hasg, hitems, hAeq⟩ := elems_split ex.asg A x B hL
  have hc : c ∈ ex.asg := by rw [hasg]; simp
  rw [List.mem_flatMap]
  refine ⟨c.tid, htid c hc, ?_⟩
  have hch : ex.chunksOf c.tid
      = S1.filter (·.tid == c.tid) ++ c :: S2.filter (·.tid == c.tid) := by
    unfold Exec.chunksOf
    rw [hasg, List.filter_append, List.filter_cons]
    simp
  have hel : K.elems (ex.chunksOf c.tid)
      = (K.elems (S1.filter (·.tid == c.tid)) ++ C1) ++ x :: (C2 ++ K.elems (S2.filter (·.tid == c.tid))) := by
    rw [hch]
    simp [K.elems, hitems, List.append_assoc]
  rw [hel]
  apply scanLog_mem_of_prefix_nohit g _ x _ _ e hx
  intro a ha
  apply hA a
  rw [hAeq]
  rcases List.mem_append.mp ha with ha | ha
  · exact List.mem_append_left _ (elems_filter_subset _ S1 a ha)
  · exact List.mem_append_right _ ha

/-- a scan stops at the first hit: what follows a list containing a hit is never evaluated -/
theorem scanLog_take_of_hit (g : Val → Prod) (xs : List Val) (n : Nat)
    (h : xs.length ≤ n ∨ ∃ x ∈ xs.take n, hitOf g x = true) :
    scanLog g xs = scanLog g (xs.take n) := by
  rcases h with h | ⟨x, hx, hh⟩
  · rw [List.take_of_length_le h]
  · conv => lhs; rw [← List.take_append_drop n xs]
    generalize xs.take n = L at hx
    generalize xs.drop n = R
    induction L with
    | nil => simp at hx
    | cons y L ih =>
      rw [List.cons_append, scanLog_cons, scanLog_cons]
      by_cases hy : (g y).first.1.isSome
      · simp [hy]
      · simp only [hy, Bool.false_eq_true, if_false]
        rcases List.mem_cons.mp hx with hx | hx
        · subst hx; exact absurd hh (by simpa [hitOf] using hy)
        · rw [ih hx]

/-- **short-circuit terminals, answer "yes".** under every accepted parallel execution of a
    short-circuit terminal (the pulled chunks tile a prefix that is everything or contains a
    hit) the invocations of the lazy sequential evaluation are all performed -/
theorem Par.certain_sub_termLog_short (P : Par) (ex : Exec) (t : Terminal)
    (hsc : t.isShortCircuit = true) (n : Nat)
    (ht : Tiles ex.asg 0 (P.src.items.take n)) (htid : ∀ c ∈ ex.asg, c.tid ∈ ex.order)
    (hcov : P.src.items.length ≤ n ∨ ∃ x ∈ P.src.items.take n, hitOf (P.scanFn t) x = true)
    (e : Event) (he : e ∈ P.certainLog t) : e ∈ P.termLog ex t := by
  cases hs : P.params.isSequential with
  | true =>
    cases hp : t.pred? with
    | none => simpa [Par.termLog, Par.certainLog, hp, hsc, hs] using he
    | some q => simpa [Par.termLog, Par.certainLog, hp, hs] using he
  | false =>
    cases hp : t.pred? with
    | none =>
      simp only [Par.termLog, Par.certainLog, hp, hsc, hs, Bool.false_eq_true, if_false] at he ⊢
      have hc : P.src.items.length ≤ n ∨ ∃ x ∈ P.src.items.take n, hitOf P.elem x = true := by
        simpa [Par.scanFn, hp] using hcov
      have h1 : P.stream.first.2 = scanLog P.elem P.src.items := by
        unfold Par.stream; rw [Prod.first_bindList]
      rw [h1, scanLog_take_of_hit P.elem _ n hc, ← tiles_elems ht] at he
      exact scan_covered P.elem ex htid e he
    | some q =>
      simp only [Par.termLog, Par.certainLog, hp, hs, Bool.false_eq_true, if_false] at he ⊢
      have hc : P.src.items.length ≤ n ∨ ∃ x ∈ P.src.items.take n, hitOf (P.elemQ q) x = true := by
        simpa [Par.scanFn, hp] using hcov
      rw [Par.seqFindLog_eq_scan, scanLog_take_of_hit (P.elemQ q) _ n hc, ← tiles_elems ht] at he
      exact scan_covered (P.elemQ q) ex htid e he

end OrxPar
