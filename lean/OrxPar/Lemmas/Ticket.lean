/- The ticket protocol of `ConIterOfIter` (`Model/Ticket.lean`): mutual exclusion and the
   index contract, for every interleaving. -/
import OrxPar.Model.Ticket
namespace OrxPar
namespace Ticket


/-! ### helpers -/

theorem getElem?_setPc {s : State} {tid : Nat} {pc : PC} {j : Nat} {th : Thread}
    (h : (setPc s tid pc).ths[j]? = some th) :
    (j = tid ∧ th = ⟨pc⟩) ∨ (j ≠ tid ∧ s.ths[j]? = some th) := by
  simp only [setPc, List.getElem?_set] at h
  by_cases hj : tid = j
  · subst hj
    simp only [if_true] at h
    split at h
    · left; exact ⟨rfl, (Option.some.inj h).symm⟩
    · cases h
  · simp only [hj, if_false] at h
    right; exact ⟨fun e => hj e.symm, h⟩

/-- the invariant -/
structure Inv (s : State) : Prop where
  uniq : ∀ (i j : Nat) (ti tj : Thread), s.ths[i]? = some ti → s.ths[j]? = some tj →
    isInside ti = true → isInside tj = true → i = j
  valFree : ∀ k, s.y = .val k →
    (∀ (i : Nat) (ti : Thread), s.ths[i]? = some ti → isInside ti = false) ∧ s.innerPos = k
  pos : ∀ (i t n got : Nat) (dry : Bool), s.ths[i]? = some ⟨.inside t n got dry⟩ → s.innerPos = t + got
  idx : ∀ p ∈ s.handed, p.1 = p.2
  rng : s.handed.map (·.2) = List.range s.innerPos
  noassert : s.assertFailed = false

theorem inv_init (n : Nat) (len : Option Nat) : Inv (init n len) := by
  have hidle : ∀ (i : Nat) (ti : Thread), (init n len).ths[i]? = some ti → ti = ⟨.idle⟩ := by
    intro i ti h
    simp only [init, List.getElem?_replicate] at h
    split at h
    · exact (Option.some.inj h).symm
    · cases h
  refine ⟨?_, ?_, ?_, ?_, ?_, rfl⟩
  · intro i j ti tj hi _ hti _
    rw [hidle i ti hi] at hti; cases hti
  · intro k hk
    refine ⟨?_, ?_⟩
    · intro i ti hi; rw [hidle i ti hi]; rfl
    · simp only [init] at hk; cases hk; rfl
  · intro i t n' got dry hi
    have := hidle i _ hi; cases this
  · intro p hp; simp [init] at hp
  · simp [init]

/-- a thread moves to a pc that is not `inside`; `y` stays or becomes `completed` -/
theorem inv_out {s : State} (h : Inv s) (tid : Nat) (pc : PC) (c : Nat) (y : Y)
    (hpc : isInside ⟨pc⟩ = false) (hy : y = s.y ∨ y = .completed) :
    Inv (setPc { s with counter := c, y := y } tid pc) := by
  have old : ∀ (j : Nat) (th : Thread), (setPc { s with counter := c, y := y } tid pc).ths[j]? = some th →
      isInside th = true → s.ths[j]? = some th := by
    intro j th hj hin
    rcases getElem?_setPc hj with ⟨_, rfl⟩ | ⟨_, h'⟩
    · rw [hpc] at hin; cases hin
    · exact h'
  refine ⟨?_, ?_, ?_, h.idx, h.rng, h.noassert⟩
  · intro i j ti tj hi hj hti htj
    exact h.uniq i j ti tj (old i ti hi hti) (old j tj hj htj) hti htj
  · intro k hk
    have hk' : s.y = .val k := by
      rcases hy with rfl | rfl
      · exact hk
      · cases hk
    refine ⟨?_, (h.valFree k hk').2⟩
    intro i ti hi
    cases hin : isInside ti
    · rfl
    · have := (h.valFree k hk').1 i ti (old i ti hi hin)
      rw [hin] at this; cases this
  · intro i t n got dry hi
    exact h.pos i t n got dry (old i _ hi rfl)

/-- the unique inside thread stays inside (reads an item or notices the end) -/
theorem inv_stay {s : State} (h : Inv s) (tid t n got : Nat) (dry : Bool)
    (hth : s.ths[tid]? = some ⟨.inside t n got dry⟩)
    (pos' got' : Nat) (dry' : Bool) (handed' : List (Nat × Nat))
    (hpos : pos' = t + got')
    (hidx : ∀ p ∈ handed', p.1 = p.2) (hrng : handed'.map (·.2) = List.range pos') :
    Inv (setPc { s with innerPos := pos', handed := handed' } tid (.inside t n got' dry')) := by
  have old : ∀ (j : Nat) (th : Thread),
      (setPc { s with innerPos := pos', handed := handed' } tid (.inside t n got' dry')).ths[j]? = some th →
      isInside th = true → j = tid := by
    intro j th hj hin
    rcases getElem?_setPc hj with ⟨e, _⟩ | ⟨_, h'⟩
    · exact e
    · exact h.uniq j tid th _ h' hth hin rfl
  refine ⟨?_, ?_, ?_, hidx, hrng, h.noassert⟩
  · intro i j ti tj hi hj hti htj
    rw [old i ti hi hti, old j tj hj htj]
  · intro k hk
    have := (h.valFree k hk).1 tid _ hth
    cases this
  · intro i t1 n1 got1 dry1 hi
    have e := old i _ hi rfl
    subst e
    rcases getElem?_setPc hi with ⟨_, e⟩ | ⟨ne, _⟩
    · cases e; exact hpos
    · exact absurd rfl ne

/-- acquiring: `y = val t` -/
theorem inv_acquire {s : State} (h : Inv s) (tid t n : Nat) (hy : s.y = .val t) :
    Inv (setPc { s with y := .mutating } tid (.inside t n 0 false)) := by
  have hv := h.valFree t hy
  have old : ∀ (j : Nat) (th : Thread),
      (setPc { s with y := .mutating } tid (.inside t n 0 false)).ths[j]? = some th →
      isInside th = true → j = tid ∧ th = ⟨.inside t n 0 false⟩ := by
    intro j th hj hin
    rcases getElem?_setPc hj with e | ⟨_, h'⟩
    · exact e
    · have := hv.1 j th h'
      rw [hin] at this; cases this
  refine ⟨?_, ?_, ?_, h.idx, h.rng, h.noassert⟩
  · intro i j ti tj hi hj hti htj
    rw [(old i ti hi hti).1, (old j tj hj htj).1]
  · intro k hk; cases hk
  · intro i t1 n1 got1 dry1 hi
    have e := (old i _ hi rfl).2
    cases e
    exact hv.2

/-- releasing a complete chunk -/
theorem inv_release {s : State} (h : Inv s) (tid t n got : Nat) (dry : Bool)
    (hth : s.ths[tid]? = some ⟨.inside t n got dry⟩) (y' : Y)
    (hy' : y' = .completed ∨ (got = n ∧ y' = .val (t + n))) :
    Inv (setPc { s with y := y' } tid .idle) := by
  have old : ∀ (j : Nat) (th : Thread),
      (setPc { s with y := y' } tid .idle).ths[j]? = some th → isInside th = false := by
    intro j th hj
    rcases getElem?_setPc hj with ⟨_, e⟩ | ⟨ne, h'⟩
    · rw [e]; rfl
    · cases hin : isInside th
      · rfl
      · exact absurd (h.uniq j tid th _ h' hth hin rfl) ne
  refine ⟨?_, ?_, ?_, h.idx, h.rng, h.noassert⟩
  · intro i j ti tj hi hj hti htj
    rw [old i ti hi] at hti; cases hti
  · intro k hk
    refine ⟨old, ?_⟩
    rcases hy' with rfl | ⟨rfl, rfl⟩
    · cases hk
    · cases hk
      exact h.pos tid t got got dry hth
  · intro i t1 n1 got1 dry1 hi
    have := old i _ hi
    cases this

theorem inv_step {s : State} (h : Inv s) (tid : Nat) (a : Act) : Inv (step s tid a) := by
  unfold step
  split
  · -- skip
    exact ⟨h.uniq, (fun k hk => by cases hk), h.pos, h.idx, h.rng, h.noassert⟩
  · -- start
    split
    · exact h
    · exact inv_out h tid _ _ s.y rfl (Or.inl rfl)
  · -- tryAcquire
    rename_i t n hth
    split
    · rename_i hy
      exact inv_acquire h tid t n (by simpa using hy)
    · split
      · exact inv_out h tid .idle s.counter s.y rfl (Or.inl rfl)
      · exact h
  · -- readOne
    rename_i t n got dry hth
    have hp := h.pos tid t n got dry hth
    have hidx : ∀ p ∈ s.handed ++ [(t + got, s.innerPos)], p.1 = p.2 := by
      intro p hp'
      rcases List.mem_append.1 hp' with h1 | h1
      · exact h.idx p h1
      · simp only [List.mem_singleton] at h1
        subst h1; exact hp.symm
    have hrng : (s.handed ++ [(t + got, s.innerPos)]).map (·.2) = List.range (s.innerPos + 1) := by
      rw [List.map_append, h.rng, List.range_succ]; rfl
    split
    · split
      · split
        · exact inv_stay h tid t n got dry hth _ _ _ _ (by omega) hidx hrng
        · exact inv_stay h tid t n got dry hth s.innerPos got true s.handed hp h.idx h.rng
      · exact inv_stay h tid t n got dry hth _ _ _ _ (by omega) hidx hrng
    · exact h
  · -- release
    rename_i t n got dry hth
    have key : ∀ y' : Y, (y' = .completed ∨ (got = n ∧ y' = .val (t + n))) →
        Inv (match s.y with
          | .mutating => setPc { s with y := y' } tid .idle
          | .completed => setPc s tid .idle
          | .val _ => setPc { s with assertFailed := true } tid .idle) := by
      intro y' hy'
      split
      · exact inv_release h tid t n got dry hth y' hy'
      · exact inv_out h tid .idle s.counter s.y rfl (Or.inl rfl)
      · rename_i k hy
        have := (h.valFree k hy).1 tid _ hth
        cases this
    split
    · refine key _ ?_
      by_cases e : got = n
      · right; simp [e]
      · left; simp [e]
    · exact h
  · exact h

theorem inv_run {s : State} (h : Inv s) (sched : List (Nat × Act)) : Inv (run s sched) := by
  induction sched generalizing s with
  | nil => exact h
  | cons p ps ih => exact ih (inv_step h p.1 p.2)

/-! ### counting -/

theorem filter_length_le_one {α : Type} (p : α → Bool) (l : List α)
    (h : ∀ (i j : Nat) (a b : α), l[i]? = some a → l[j]? = some b →
      p a = true → p b = true → i = j) : (l.filter p).length ≤ 1 := by
  induction l with
  | nil => simp
  | cons x xs ih =>
    have ih' := ih (fun i j a b hi hj ha hb => by
      have := h (i + 1) (j + 1) a b (by simpa using hi) (by simpa using hj) ha hb
      omega)
    cases hx : p x
    · rw [List.filter_cons_of_neg (by simp [hx])]; exact ih'
    · have : xs.filter p = [] := by
        rw [List.filter_eq_nil_iff]
        intro a ha hpa
        obtain ⟨i, hi⟩ := List.getElem?_of_mem ha
        have := h 0 (i + 1) x a (by simp) (by simpa using hi) hx hpa
        omega
      rw [List.filter_cons_of_pos hx, this]; simp

theorem filter_set_length_le {α : Type} (p : α → Bool) (l : List α) (i : Nat) (a b : α)
    (hb : l[i]? = some b) (hab : p a = true → p b = true) :
    ((l.set i a).filter p).length ≤ (l.filter p).length := by
  induction l generalizing i with
  | nil => simp
  | cons x xs ih =>
    cases i with
    | zero =>
      simp only [List.getElem?_cons_zero, Option.some.injEq] at hb
      subst hb
      simp only [List.set_cons_zero, List.filter_cons]
      cases ha : p a
      · simp only [Bool.false_eq_true, if_false]
        split <;> simp
      · simp [hab ha]
    | succ i =>
      simp only [List.getElem?_cons_succ] at hb
      have := ih i hb
      simp only [List.set_cons_succ, List.filter_cons]
      split <;> simp [this]

theorem count_setPc (s s' : State) (hths : s'.ths = s.ths) (tid : Nat) (pc : PC) (b : Thread)
    (hb : s.ths[tid]? = some b) (hab : isInside ⟨pc⟩ = true → isInside b = true) :
    insideCount (setPc s' tid pc) ≤ insideCount s := by
  simp only [insideCount, setPc, hths]
  exact filter_set_length_le isInside s.ths tid ⟨pc⟩ b hb hab

theorem completed_step (s : State) (h : s.y = .completed) (tid : Nat) (a : Act) :
    (step s tid a).y = .completed ∧ insideCount (step s tid a) ≤ insideCount s := by
  unfold step
  split
  · exact ⟨rfl, Nat.le_refl _⟩
  · split
    · exact ⟨h, Nat.le_refl _⟩
    · rename_i hth _
      exact ⟨h, count_setPc s _ rfl tid _ _ hth (fun e => by cases e)⟩
  · rename_i t n hth
    split
    · rename_i hy
      rw [h] at hy; cases hy
    · split
      · exact ⟨h, count_setPc s _ rfl tid _ _ hth (fun e => by cases e)⟩
      · exact ⟨h, Nat.le_refl _⟩
  · rename_i t n got dry hth
    split
    · split
      · split
        · exact ⟨h, count_setPc s _ rfl tid _ _ hth (fun _ => rfl)⟩
        · exact ⟨h, count_setPc s _ rfl tid _ _ hth (fun _ => rfl)⟩
      · exact ⟨h, count_setPc s _ rfl tid _ _ hth (fun _ => rfl)⟩
    · exact ⟨h, Nat.le_refl _⟩
  · rename_i t n got dry hth
    split
    · rw [h]
      exact ⟨h, count_setPc s _ rfl tid _ _ hth (fun e => by cases e)⟩
    · exact ⟨h, Nat.le_refl _⟩
  · exact ⟨h, Nat.le_refl _⟩

/-! ### the theorems -/

/-- **mutual exclusion.** for every number of threads, every inner iterator, every schedule
    of atomic steps — any chunk sizes, `skip_to_end` by anybody at any time — at most one thread
    is between acquiring and releasing the handle, i.e. at most one thread can be calling
    `next()` on the inner iterator -/
theorem mutex (n : Nat) (len : Option Nat) (sched : List (Nat × Act)) :
    insideCount (run (init n len) sched) ≤ 1 := by
  have h := inv_run (inv_init n len) sched
  exact filter_length_le_one isInside _ h.uniq

/-- **index contract.** every item handed out carries as its index exactly its position in the
    inner iterator — the `begin_idx` reported with a chunk is where the chunk really starts -/
theorem index_contract (n : Nat) (len : Option Nat) (sched : List (Nat × Act)) :
    ∀ p ∈ (run (init n len) sched).handed, p.1 = p.2 := by
  exact (inv_run (inv_init n len) sched).idx

/-- **each element once.** the positions handed out are pairwise distinct and are exactly
    `0, 1, 2, …` in order: no element of the inner iterator is yielded twice or skipped -/
theorem handed_positions (n : Nat) (len : Option Nat) (sched : List (Nat × Act)) :
    (run (init n len) sched).handed.map (·.2) = List.range (run (init n len) sched).innerPos := by
  exact (inv_run (inv_init n len) sched).rng

/-- the assertions inside `release_handle` / `release_handle_complete` never fire -/
theorem no_assert (n : Nat) (len : Option Nat) (sched : List (Nat × Act)) :
    (run (init n len) sched).assertFailed = false := by
  exact (inv_run (inv_init n len) sched).noassert

/-- after `skip_to_end` nobody acquires the handle any more -/
theorem completed_stays (s : State) (h : s.y = .completed) (sched : List (Nat × Act)) :
    (run s sched).y = .completed ∧ insideCount (run s sched) ≤ insideCount s := by
  induction sched generalizing s with
  | nil => exact ⟨h, Nat.le_refl _⟩
  | cons p ps ih =>
    have h1 := completed_step s h p.1 p.2
    have h2 := ih (step s p.1 p.2) h1.1
    exact ⟨h2.1, Nat.le_trans h2.2 h1.2⟩

/-- non-vacuity: two threads, chunk sizes 2 and 3 over 4 items: thread 1 takes ticket 0, thread 0
    ticket 2 and has to wait; the second pull runs dry and completes the iterator -/
example :
    (run (init 2 (some 4))
      [(1, .start 2), (0, .start 3), (0, .tryAcquire), (1, .tryAcquire), (1, .readOne), (0, .tryAcquire),
       (1, .readOne), (1, .release), (0, .tryAcquire), (0, .readOne), (0, .readOne), (0, .readOne),
       (0, .release)]).handed = [(0, 0), (1, 1), (2, 2), (3, 3)] := by
  decide

end Ticket
end OrxPar
