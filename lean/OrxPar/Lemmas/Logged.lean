/- Events of whole computations: which closures run, how often, and in which order. -/
import OrxPar.Lemmas.Chain
import OrxPar.Model.Accept
import OrxPar.Model.Logs
import OrxPar.Lemmas.Partition
namespace OrxPar

theorem Prod.log_bindList (xs : List Val) (g : Val → Prod) :
    (Prod.bindList xs g).log = xs.flatMap (fun x => (g x).log) := by
  induction xs with
  | nil => rfl
  | cons x xs ih => simp [Prod.bindList, Prod.log_append, ih]

theorem regroup_eq {β : Type} (L : Val → List β) (ex : Exec) :
    (ex.order.flatMap fun t => (K.elems (ex.chunksOf t)).flatMap L)
      = (ex.order.flatMap fun t => ex.asg.filter (·.tid == t)).flatMap
          (fun c => c.items.flatMap L) := by
  rw [List.flatMap_assoc]
  apply flatMap_congr'
  intro t _
  simp only [K.elems, Exec.chunksOf, List.flatMap_assoc]

theorem regroup_perm {β : Type} (L : Val → List β) (ex : Exec) (xs : List Val) (p : Nat)
    (ht : Tiles ex.asg p xs) (hn : ex.order.Nodup) (htid : ∀ c ∈ ex.asg, c.tid ∈ ex.order) :
    (ex.order.flatMap fun t => (K.elems (ex.chunksOf t)).flatMap L).Perm (xs.flatMap L) := by
  rw [regroup_eq, ← tiles_elems ht]
  have : (K.elems ex.asg).flatMap L = ex.asg.flatMap (fun c => c.items.flatMap L) := by
    simp only [K.elems, List.flatMap_assoc]
  rw [this]
  exact List.Perm.flatMap_right _ (partition_perm _ _ hn htid)

theorem Par.parLog_perm (P : Par) (ex : Exec) (h : ex.Accepts P.src.items) :
    (P.parLog ex).Perm P.stream.log := by
  unfold Par.parLog Par.stream
  rw [Prod.log_bindList]
  exact regroup_perm _ ex _ 0 h.tiles h.nodup h.tids

/-- **C05 (full-visit terminals).** construction effects + terminal phase = the events of the std
    chain, as multisets of (stage, argument) — every chain, every accepted execution -/
theorem events_full (s : Src) (ops : List Op) (ex : Exec)
    (h : (Par.build s ops).1.params.isSequential = true ∨ ex.Accepts (Par.build s ops).1.src.items) :
    ((Par.build s ops).2 ++ (Par.build s ops).1.fullLog ex).Perm (seqStream s.items ops).log := by
  unfold Par.fullLog
  cases hs : (Par.build s ops).1.params.isSequential with
  | true => simpa using build_log_perm s ops
  | false =>
    rw [hs] at h
    have ha : ex.Accepts (Par.build s ops).1.src.items := by
      rcases h with h | h
      · exact absurd h (by simp)
      · exact h
    simp only [Bool.false_eq_true, if_false]
    exact (List.Perm.append_left _ (Par.parLog_perm _ ex ha)).trans (build_log_perm s ops)

/-! ### short-circuit terminals -/

theorem Prod.first_skip (e : List Event) (r : Prod) :
    (Prod.skip e r).first = (r.first.1, e ++ r.first.2) := rfl

theorem Prod.first_log_prefix (s : Prod) : s.first.2 <+: s.log := by
  induction s with
  | nil => simp [Prod.first, Prod.log]
  | emit e v r ih => simp [Prod.first, Prod.log]
  | skip e r ih =>
    rw [Prod.first_skip]
    simp only [Prod.log]
    exact (List.prefix_append_right_inj e).2 ih

theorem Prod.first_none_log (s : Prod) (h : s.first.1 = none) : s.first.2 = s.log := by
  induction s with
  | nil => rfl
  | emit e v r ih => simp [Prod.first] at h
  | skip e r ih =>
    rw [Prod.first_skip] at h ⊢
    simp only [Prod.log]
    rw [ih h]

theorem scanLog_cons (g : Val → Prod) (x : Val) (r : List Val) :
    scanLog g (x :: r)
      = if (g x).first.1.isSome then (g x).first.2 else (g x).first.2 ++ scanLog g r := by
  simp only [scanLog]
  rcases hf : (g x).first with ⟨o, l⟩
  cases o <;> simp

theorem scanLog_prefix (g : Val → Prod) (xs : List Val) : scanLog g xs <+: (Prod.bindList xs g).log := by
  induction xs with
  | nil => simp [scanLog, Prod.bindList, Prod.log]
  | cons x r ih =>
    rw [scanLog_cons]
    simp only [Prod.bindList, Prod.log_append]
    split
    · exact (Prod.first_log_prefix (g x)).trans (List.prefix_append _ _)
    · rename_i hn
      have hn' : (g x).first.1 = none := by simpa using hn
      rw [Prod.first_none_log _ hn']
      exact (List.prefix_append_right_inj _).2 ih

theorem Prod.first_append (s t : Prod) :
    (s.append t).first
      = if s.first.1.isSome then s.first else (t.first.1, s.first.2 ++ t.first.2) := by
  induction s with
  | nil => simp [Prod.append, Prod.first]
  | emit e v r ih => simp [Prod.append, Prod.first]
  | skip e r ih =>
    simp only [Prod.append, Prod.first_skip, ih]
    split <;> rename_i h <;> simp [h, List.append_assoc]

theorem Prod.first_bindList (xs : List Val) (g : Val → Prod) :
    (Prod.bindList xs g).first.2 = scanLog g xs := by
  induction xs with
  | nil => rfl
  | cons x r ih =>
    rw [scanLog_cons]
    simp only [Prod.bindList, Prod.first_append]
    split <;> simp [ih]

/-- the sequential find is the scan of the source, element by element (laziness across elements) -/
theorem Par.seqFindLog_eq_scan (P : Par) (q : Val → Bool) :
    P.seqFindLog q = scanLog (P.elemQ q) P.src.items := by
  unfold Par.seqFindLog Par.stream
  rw [Prod.filterW_bindList, Prod.first_bindList]
  rfl

/-- **C05 (short-circuit, sequential).** the events are a prefix of the full evaluation -/
theorem events_find_seq (P : Par) (q : Val → Bool) :
    P.seqFindLog q <+: (P.stream.filterW (callW stPred q)).log :=
  Prod.first_log_prefix _

theorem count_flatMap_le {α β : Type} [BEq β] (e : β) (l : List α) (f g : α → List β)
    (h : ∀ t, (f t).count e ≤ (g t).count e) :
    (l.flatMap f).count e ≤ (l.flatMap g).count e := by
  induction l with
  | nil => simp
  | cons x xs ih =>
    simp only [List.flatMap_cons, List.count_append]
    have := h x
    omega

/-- **C05 (short-circuit, parallel).** whatever prefix of the source the workers pulled and
    however it was distributed: no closure invocation happens more often than in the full
    sequential evaluation (sub-multiset) -/
theorem events_find_par (P : Par) (q : Val → Bool) (ex : Exec) (n : Nat)
    (ht : Tiles ex.asg 0 (P.src.items.take n)) (hn : ex.order.Nodup)
    (htid : ∀ c ∈ ex.asg, c.tid ∈ ex.order) :
    ∀ e, (P.parFindLog q ex).count e ≤ (P.stream.filterW (callW stPred q)).log.count e := by
  intro e
  have h1 := count_flatMap_le e ex.order
    (fun t => scanLog (P.elemQ q) (K.elems (ex.chunksOf t)))
    (fun t => (K.elems (ex.chunksOf t)).flatMap fun x => (P.elemQ q x).log)
    (fun t => by
      have := scanLog_prefix (P.elemQ q) (K.elems (ex.chunksOf t))
      rw [Prod.log_bindList] at this
      exact this.sublist.count_le e)
  have h2 := (regroup_perm (fun x => (P.elemQ q x).log) ex _ 0 ht hn htid).count_eq e
  have h3 : (P.stream.filterW (callW stPred q)).log
      = (P.src.items.take n).flatMap (fun x => (P.elemQ q x).log)
        ++ (P.src.items.drop n).flatMap (fun x => (P.elemQ q x).log) := by
    rw [← List.flatMap_append, List.take_append_drop]
    unfold Par.stream
    rw [Prod.filterW_bindList, Prod.log_bindList]
    rfl
  rw [h3, List.count_append]
  unfold Par.parFindLog
  omega

/-- chains without eager sites are *structurally* the std chain -/
theorem build_lazy_stream (s : Src) (ops : List Op)
    (h : ∀ i (hi : i < ops.length), Par.isEagerSite (Par.build s (ops.take i)).1 ops[i] = false) :
    (Par.build s ops).1.stream = seqStream s.items ops := by
  have key : ∀ n, n ≤ ops.length →
      (Par.build s (ops.take n)).1.stream = seqStream s.items (ops.take n) := by
    intro n
    induction n with
    | zero => intro _; simp [Par.build, seqStream, Par.new, Par.stream_empty]
    | succ n ih =>
      intro hn
      have hn' : n < ops.length := hn
      rw [List.take_succ_eq_append_getElem hn', Par.build_snoc]
      show ((Par.build s (ops.take n)).1.applyT ops[n]).1.stream = _
      rw [Par.applyT_lazy_stream _ _ (h n hn'), ih (Nat.le_of_lt hn')]
      simp only [seqStream, List.foldl_append, List.foldl_cons, List.foldl_nil]
  have := key ops.length (Nat.le_refl _)
  rwa [List.take_length] at this

/-- **C10 (sequential clause).** for a chain executed in one pass the sequential find evaluates
    exactly what `std`'s lazy `find` evaluates: the events up to the first match, nothing beyond -/
theorem find_seq_lazy (s : Src) (ops : List Op) (q : Val → Bool)
    (h : ∀ i (hi : i < ops.length), Par.isEagerSite (Par.build s (ops.take i)).1 ops[i] = false) :
    (Par.build s ops).1.seqFindLog q = ((seqStream s.items ops).filterW (callW stPred q)).first.2 := by
  unfold Par.seqFindLog
  rw [build_lazy_stream s ops h]

/-! ### order of the invocations of one stage -/

def Op.stageId? : Op → Option Nat
  | .map k _ | .filter k _ | .flatMap k _ | .filterMap k _ => some k
  | _ => none

/-- the events of a stage-`k` adaptor on top of `s`: the events of `s`, and after each value
    that `s` yields the invocation of the stage-`k` closure on it -/
def Prod.ownLog (k : Nat) : Prod → List Event
  | .nil => []
  | .emit e v r => e ++ ⟨k, v⟩ :: ownLog k r
  | .skip e r => e ++ ownLog k r

theorem Prod.log_mapW_call (k : Nat) (f : Val → Val) (s : Prod) :
    (s.mapW (callW k f)).log = s.ownLog k := by
  induction s with
  | nil => rfl
  | emit e v r ih => simp [Prod.mapW, Prod.log, Prod.ownLog, callW, ih]
  | skip e r ih => simp [Prod.mapW, Prod.log, Prod.ownLog, ih]

theorem Prod.log_filterW_call (k : Nat) (f : Val → Bool) (s : Prod) :
    (s.filterW (callW k f)).log = s.ownLog k := by
  induction s with
  | nil => rfl
  | emit e v r ih => cases h : f v <;> simp [Prod.filterW, Prod.log, Prod.ownLog, callW, ih, h]
  | skip e r ih => simp [Prod.filterW, Prod.log, Prod.ownLog, ih]

theorem Prod.log_filterMapW_call (k : Nat) (f : Val → Option Val) (s : Prod) :
    (s.filterMapW (callW k f)).log = s.ownLog k := by
  induction s with
  | nil => rfl
  | emit e v r ih =>
    cases h : f v <;> simp [Prod.filterMapW, Prod.log, Prod.ownLog, callW, ih, h]
  | skip e r ih => simp [Prod.filterMapW, Prod.log, Prod.ownLog, ih]

theorem Prod.log_flatMapW_call (k : Nat) (g : Val → List Val) (s : Prod) :
    (s.flatMapW (Par.callFlat k g)).log = s.ownLog k := by
  induction s with
  | nil => rfl
  | emit e v r ih =>
    simp [Prod.flatMapW, Prod.ownLog, Par.callFlat, Prod.log_append,
      Prod.log_prefixLog, Prod.log_ofCall, ih]
  | skip e r ih => simp [Prod.flatMapW, Prod.log, Prod.ownLog, ih]

theorem Op.applySeq_log_own (op : Op) (k : Nat) (h : op.stageId? = some k) (s : Prod) :
    (op.applySeq s).log = s.ownLog k := by
  cases op <;> simp [Op.stageId?] at h <;> subst h <;>
    simp [Op.applySeq, Prod.log_mapW_call, Prod.log_filterW_call, Prod.log_filterMapW_call,
      Prod.log_flatMapW_call]

theorem Prod.ownLog_filter_ne (k k' : Nat) (h : k' ≠ k) (s : Prod) :
    (s.ownLog k).filter (·.stage == k') = s.log.filter (·.stage == k') := by
  induction s with
  | nil => rfl
  | emit e v r ih =>
    have : (k == k') = false := by simpa using fun e => h e.symm
    simp [Prod.ownLog, Prod.log, List.filter_append, ih, this]
  | skip e r ih => simp [Prod.ownLog, Prod.log, List.filter_append, ih]

theorem Prod.ownLog_filter_eq (k : Nat) (s : Prod) (h : s.log.filter (·.stage == k) = []) :
    (s.ownLog k).filter (·.stage == k) = s.vals.map (Event.mk k) := by
  induction s with
  | nil => rfl
  | emit e v r ih =>
    simp only [Prod.log, List.filter_append, List.append_eq_nil_iff] at h
    simp [Prod.ownLog, Prod.vals, List.filter_append, ih h.2, h.1]
  | skip e r ih =>
    simp only [Prod.log, List.filter_append, List.append_eq_nil_iff] at h
    simp [Prod.ownLog, Prod.vals, List.filter_append, ih h.2, h.1]

/-- the chain invariant for the per-stage order of the events; `ks` = the stage ids so far -/
def Par.Inv2 (acc : Par × List Event) (S : Prod) (ks : List Nat) : Prop :=
  acc.1.stream.vals = S.vals ∧
  (∀ k, (acc.2 ++ acc.1.stream.log).filter (·.stage == k) = S.log.filter (·.stage == k)) ∧
  (∀ k, k ∉ ks → S.log.filter (·.stage == k) = [])

theorem Par.Inv2_step (acc : Par × List Event) (S : Prod) (ks : List Nat) (op : Op) (k₀ : Nat)
    (hk : op.stageId? = some k₀) (hnk : k₀ ∉ ks) (h : Par.Inv2 acc S ks) :
    Par.Inv2 (Par.buildStep acc op) (op.applySeq S) (ks ++ [k₀]) := by
  obtain ⟨hv, hf, hn⟩ := h
  have hS0 := hn k₀ hnk
  have h0 := hf k₀
  rw [hS0, List.filter_append, List.append_eq_nil_iff] at h0
  obtain ⟨he0, hT0⟩ := h0
  refine ⟨?_, ?_, ?_⟩
  · show (acc.1.applyT op).1.stream.vals = _
    rw [Par.applyT_stream_vals, Op.applySeq_vals, hv]
  · intro k
    show ((acc.2 ++ (acc.1.applyT op).2) ++ (acc.1.applyT op).1.stream.log).filter _ = _
    rw [Op.applySeq_log_own op k₀ hk S]
    cases he : acc.1.isEagerSite op with
    | false =>
      rw [Par.applyT_lazy_stream _ _ he, (Par.applyT_lazy_elem _ _ he 0).2.1, List.append_nil,
        List.filter_append, Op.applySeq_log_own op k₀ hk]
      by_cases hkk : k = k₀
      · subst hkk
        rw [Prod.ownLog_filter_eq _ _ hT0, Prod.ownLog_filter_eq _ _ hS0, he0, hv]
        rfl
      · rw [Prod.ownLog_filter_ne _ _ hkk, Prod.ownLog_filter_ne _ _ hkk, ← List.filter_append]
        exact hf k
    | true =>
      rw [(Par.applyT_eager _ _ he).1, (Par.applyT_eager _ _ he).2,
        Op.applySeq_log_own op k₀ hk, List.filter_append]
      by_cases hkk : k = k₀
      · subst hkk
        rw [Prod.ownLog_filter_eq _ _ (by simp [Prod.log_ofList]), Prod.ownLog_filter_eq _ _ hS0,
          Prod.vals_ofList, hv, hf k, hS0]
        rfl
      · rw [Prod.ownLog_filter_ne _ _ hkk, Prod.ownLog_filter_ne _ _ hkk, Prod.log_ofList,
          List.filter_nil, List.append_nil]
        exact hf k
  · intro k hk'
    have hkk : k ≠ k₀ := fun e => hk' (by simp [e])
    rw [Op.applySeq_log_own op k₀ hk, Prod.ownLog_filter_ne _ _ hkk]
    exact hn k (fun hm => hk' (by simp [hm]))

theorem Par.Inv2_step_none (acc : Par × List Event) (S : Prod) (ks : List Nat) (op : Op)
    (hk : op.stageId? = none) (h : Par.Inv2 acc S ks) :
    Par.Inv2 (Par.buildStep acc op) (op.applySeq S) ks := by
  have hS : ∀ U, op.applySeq U = U := by
    intro U; cases op <;> simp [Op.stageId?] at hk <;> rfl
  have he : acc.1.isEagerSite op = false := by
    cases op <;> simp [Op.stageId?] at hk <;> cases acc.1 <;> rfl
  obtain ⟨hv, hf, hn⟩ := h
  have h1 : (Par.buildStep acc op).1.stream = acc.1.stream := by
    show (acc.1.applyT op).1.stream = _
    rw [Par.applyT_lazy_stream _ _ he, hS]
  have h2 : (Par.buildStep acc op).2 = acc.2 := by
    show acc.2 ++ (acc.1.applyT op).2 = _
    rw [(Par.applyT_lazy_elem _ _ he 0).2.1, List.append_nil]
  rw [hS]
  exact ⟨by rw [h1]; exact hv, by intro k; rw [h1, h2]; exact hf k, hn⟩

theorem Par.Inv2_foldl (ops : List Op) : ∀ (acc : Par × List Event) (S : Prod) (ks : List Nat),
    Par.Inv2 acc S ks → (ks ++ ops.filterMap Op.stageId?).Nodup →
    Par.Inv2 (ops.foldl Par.buildStep acc) (ops.foldl Op.applySeq S)
      (ks ++ ops.filterMap Op.stageId?) := by
  induction ops with
  | nil => intro acc S ks h _; simpa using h
  | cons op ops ih =>
    intro acc S ks h hd
    simp only [List.foldl_cons]
    cases hk : op.stageId? with
    | none =>
      rw [List.filterMap_cons_none hk] at hd ⊢
      exact ih _ _ _ (Par.Inv2_step_none acc S ks op hk h) hd
    | some k₀ =>
      rw [List.filterMap_cons_some hk] at hd ⊢
      have e : ks ++ k₀ :: ops.filterMap Op.stageId? = (ks ++ [k₀]) ++ ops.filterMap Op.stageId? := by
        simp
      rw [e] at hd ⊢
      have hnk : k₀ ∉ ks := by
        intro hm
        have := (List.nodup_append.1 (List.nodup_append.1 hd).1).2.2 k₀ hm k₀ (by simp)
        exact this rfl
      exact ih _ _ _ (Par.Inv2_step acc S ks op k₀ hk hnk h) hd

/-- **C09 (stage order).** with pairwise distinct stage ids, the invocations of every single stage
    — those that ran at construction (eager sites) followed by those of the final pipeline — see
    their arguments in exactly the order of the std chain.  (This is the sequential evaluation
    of every phase; in parallel mode only the multiset statement `events_full` holds.) -/
theorem stage_order (s : Src) (ops : List Op) (hd : (ops.filterMap Op.stageId?).Nodup) (k : Nat) :
    ((Par.build s ops).2 ++ (Par.build s ops).1.stream.log).filter (·.stage == k)
      = (seqStream s.items ops).log.filter (·.stage == k) := by
  have base : Par.Inv2 (Par.new s, []) (Prod.ofList s.items) [] := by
    refine ⟨?_, ?_, ?_⟩
    · simp [Par.new, Par.stream_empty]
    · intro k; simp [Par.new, Par.stream_empty]
    · intro k _; simp [Prod.log_ofList]
  have := Par.Inv2_foldl ops _ _ [] base (by simpa using hd)
  exact this.2.1 k

end OrxPar
