/- Where the wrapping position counter of slice/Vec/range sources is safe. -/
import OrxPar.Model.Wrap
namespace OrxPar
namespace Wrap

/-- without wrap-around (`counter + c < 2^64`) a pull advances the counter by exactly `c` -/
theorem pull_no_wrap (counter c len : Nat) (h : counter + c < W64) :
    (pull counter c len).1 = counter + c := by
  simp [pull, Nat.mod_eq_of_lt h]

/-- safe region: as long as `len + (k+1)·c < 2^64` — every source of length `< 2^63` with
    `c < 2^63 / (k+1)` — the first `k` pulls starting below `len + c` never wrap: the begin
    indices are `counter, counter + c, …`, so the chunks handed out are consecutive, disjoint and
    inside the source -/
theorem pulls_increasing (c len : Nat) (hc : 0 < c) :
    ∀ (k counter : Nat), counter + k * c < W64 →
      ∀ ch ∈ pulls c len k counter, counter ≤ ch.1 ∧ ch.1 < len ∧ ch.1 + ch.2 ≤ len ∧
        (ch.1 - counter) % c = 0 := by
  intro k
  induction k with
  | zero => intro counter _ ch hch; simp [pulls] at hch
  | succ k ih =>
    intro counter hk ch hch
    have hstep : counter + c < W64 := by
      have : c ≤ (k + 1) * c := Nat.le_mul_of_pos_left c (Nat.succ_pos k)
      omega
    have hnext : (pull counter c len).1 = counter + c := pull_no_wrap counter c len hstep
    have hrest : counter + c + k * c < W64 := by
      have : (k + 1) * c = k * c + c := Nat.succ_mul k c
      omega
    unfold pulls at hch
    simp only [hnext] at hch
    by_cases hb : counter < len
    · have hp : (pull counter c len).2 = some (counter, Nat.min c (len - counter)) := by
        simp [pull, hb]
      simp only [hp, List.mem_cons] at hch
      rcases hch with rfl | hch
      · refine ⟨Nat.le_refl _, hb, ?_, by simp⟩
        show counter + Nat.min c (len - counter) ≤ len
        generalize hm : Nat.min c (len - counter) = m
        have : m ≤ len - counter := by rw [← hm]; exact Nat.min_le_right _ _
        omega
      · obtain ⟨h1, h2, h3, h4⟩ := ih (counter + c) hrest ch hch
        refine ⟨by omega, h2, h3, ?_⟩
        have e : ch.1 - counter = (ch.1 - (counter + c)) + c := by omega
        rw [e, Nat.add_mod, h4]; simp
    · have hp : (pull counter c len).2 = none := by simp [pull, hb]
      simp only [hp] at hch
      obtain ⟨h1, h2, h3, h4⟩ := ih (counter + c) hrest ch hch
      refine ⟨by omega, h2, h3, ?_⟩
      have e : ch.1 - counter = (ch.1 - (counter + c)) + c := by omega
      rw [e, Nat.add_mod, h4]; simp

/-- the known finding: with `c = 2^63` the second pull wraps the counter back to 0, so the third
    pull hands out `[0, len)` *again* — 10 elements, `Exact(2^63)`: the elements are handed out twice -/
theorem chunk_wrap_witness : pulls (2 ^ 63) 10 3 0 = [(0, 10), (0, 10)] := by
  decide

end Wrap
end OrxPar
