/- Termination of the short-circuit kernels on (possibly unbounded) sources under fair rounds. -/
import OrxPar.Lemmas.RunPhases
namespace OrxPar
namespace Run

/-- a round in which every one of the `n` workers takes at least one step -/
def FairRound (n : Nat) (r : List Nat) : Prop := ∀ t, t < n → t ∈ r

/-- a number of fair rounds after which everybody is done, as a function of the position `m` of
    a match and the workers' chunk sizes only — in particular independent of the length of the
    source, which may be unbounded -/
def termBound (m : Nat) (cs : List Nat) : Nat := 2 * (m + 1) + cs.sum + 2 * cs.length + 4

theorem flatten_split (rounds : List (List Nat)) (k : Nat) :
    rounds.flatten = (rounds.take k).flatten ++ (rounds.drop k).flatten := by
  rw [← List.flatten_append, List.take_append_drop]

/-- running the first `k` rounds and then the others -/
theorem run_split (s : State) (rounds : List (List Nat)) (k : Nat) :
    run s rounds.flatten = run (run s (rounds.take k).flatten) (rounds.drop k).flatten := by
  rw [← run_append, ← flatten_split]

/-- **C10 (termination).** if the source has a match at position `m` (inside the source when its
    length is known), then for every schedule made of fair rounds — whatever happens inside a
    round: any order, any repetitions, other matches found earlier or later by anybody —
    all workers are done after `termBound m cs` rounds -/
theorem terminates_fair (src : Nat → Val) (len : Option Nat) (hit : Val → Bool) (cs : List Nat)
    (hne : cs ≠ []) (hpos : ∀ c ∈ cs, 0 < c) (m : Nat) (hm : hit (src m) = true)
    (hin : ∀ l, len = some l → m < l)
    (rounds : List (List Nat)) (hfair : ∀ r ∈ rounds, FairRound cs.length r)
    (hlen : termBound m cs ≤ rounds.length) :
    AllDone (run (init src len hit cs) rounds.flatten) := by
  unfold termBound at hlen
  -- phase A: somebody finds a match within `2 * (m + 1) + 1` rounds
  have h0 := init_ga src len hit cs hne hpos m hm hin
  obtain ⟨hsf, hga⟩ := (progressA cs.length m).reach _ (rounds.take (2 * (m + 1) + 1)) h0
    (fun r hr => hfair r (List.mem_of_mem_take hr))
    (by rw [init_psi, List.length_take]; omega)
  have hcs1 := (run_cs (init src len hit cs) (rounds.take (2 * (m + 1) + 1)).flatten).trans
    (init_cs src len hit cs)
  rw [run_split _ rounds (2 * (m + 1) + 1)]
  generalize run (init src len hit cs) (rounds.take (2 * (m + 1) + 1)).flatten = s1 at hsf hga hcs1 ⊢
  have hfair1 : ∀ r ∈ rounds.drop (2 * (m + 1) + 1), FairRound cs.length r :=
    fun r hr => hfair r (List.mem_of_mem_drop hr)
  have hlen1 : cs.sum + 2 * cs.length + 2 ≤ (rounds.drop (2 * (m + 1) + 1)).length := by
    rw [List.length_drop]; omega
  generalize rounds.drop (2 * (m + 1) + 1) = rounds1 at hfair1 hlen1 ⊢
  -- phase B1: one more round and the iterator is stopped
  obtain ⟨hst, hgb⟩ := (progressB1 cs.length).reach s1 (rounds1.take 1)
    ⟨hga.inv, hga.finv, hsf, hga.len⟩
    (fun r hr => hfair1 r (List.mem_of_mem_take hr))
    (by rw [List.length_take]; omega)
  have hcs2 := (run_cs s1 (rounds1.take 1).flatten).trans hcs1
  rw [run_split _ rounds1 1]
  generalize run s1 (rounds1.take 1).flatten = s2 at hst hgb hcs2 ⊢
  have hfair2 : ∀ r ∈ rounds1.drop 1, FairRound cs.length r :=
    fun r hr => hfair1 r (List.mem_of_mem_drop hr)
  have hlen2 : cs.sum + 2 * cs.length + 1 ≤ (rounds1.drop 1).length := by
    rw [List.length_drop]; omega
  generalize rounds1.drop 1 = rounds2 at hfair2 hlen2 ⊢
  -- phase B2: everybody finishes what it holds
  have hphi : phi s2 ≤ cs.sum + 2 * cs.length := by
    have := phi_le s2 hgb.finv
    rw [hcs2, hgb.len] at this
    exact this
  obtain ⟨hd, _⟩ := (progressB2 cs.length).reach s2 (rounds2.take (cs.sum + 2 * cs.length + 1))
    ⟨hst, hgb.len⟩
    (fun r hr => hfair2 r (List.mem_of_mem_take hr))
    (by rw [List.length_take]; omega)
  rw [run_split _ rounds2 (cs.sum + 2 * cs.length + 1)]
  rw [allDone_run _ hd]; exact hd

/-- being done is stable: more steps change nothing for a finished system -/
theorem allDone_stable (s : State) (h : AllDone s) (sched : List Nat) : AllDone (run s sched) := by
  rw [allDone_run s h sched]; exact h

/-- the same for finite sources without any match: fair rounds finish after a number of rounds
    bounded by the length -/
theorem terminates_fair_finite (src : Nat → Val) (l : Nat) (hit : Val → Bool) (cs : List Nat)
    (hne : cs ≠ []) (hpos : ∀ c ∈ cs, 0 < c)
    (rounds : List (List Nat)) (hfair : ∀ r ∈ rounds, FairRound cs.length r)
    (hlen : 2 * l + cs.sum + 2 * cs.length + 4 ≤ rounds.length) :
    AllDone (run (init src (some l) hit cs) rounds.flatten) := by
  have _ := hne
  exact ((progressF cs.length l).reach _ rounds
    ⟨init_inv src (some l) hit cs hpos, rfl, by simp [init]⟩ hfair
    (by rw [init_measure]; omega)).1

end Run
end OrxPar
