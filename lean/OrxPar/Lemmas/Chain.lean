/- The transformation algebra: stream combinators, the 32 site lemmas, induction over chains. -/
import OrxPar.Model.Terminals
namespace OrxPar
set_option linter.unusedSimpArgs false

/-! value projections of the stream adaptors -/
theorem Prod.vals_append (s t : Prod) : (s.append t).vals = s.vals ++ t.vals := by
  induction s with
  | nil => simp [Prod.append, Prod.vals]
  | emit e v r ih => simp [Prod.append, Prod.vals, ih]
  | skip e r ih => simp [Prod.append, Prod.vals, ih]
theorem Prod.log_append (s t : Prod) : (s.append t).log = s.log ++ t.log := by
  induction s with
  | nil => simp [Prod.append, Prod.log]
  | emit e v r ih => simp [Prod.append, Prod.log, ih]
  | skip e r ih => simp [Prod.append, Prod.log, ih]
theorem Prod.vals_ofList (xs : List Val) : (Prod.ofList xs).vals = xs := by
  induction xs with
  | nil => simp [Prod.ofList, Prod.vals]
  | cons x xs ih => simp [Prod.ofList, Prod.vals, ih]
theorem Prod.vals_mapW (m : Val → W Val) (s : Prod) : (s.mapW m).vals = s.vals.map (pv m) := by
  induction s with
  | nil => simp [Prod.mapW, Prod.vals]
  | emit e v r ih => simp [Prod.mapW, Prod.vals, ih, pv]
  | skip e r ih => simp [Prod.mapW, Prod.vals, ih]
theorem Prod.vals_filterW (p : Val → W Bool) (s : Prod) : (s.filterW p).vals = s.vals.filter (pv p) := by
  induction s with
  | nil => simp [Prod.filterW, Prod.vals]
  | emit e v r ih =>
    cases h : (p v).val <;> simp [Prod.filterW, Prod.vals, ih, pv, h]
  | skip e r ih => simp [Prod.filterW, Prod.vals, ih]
theorem Prod.vals_filterMapW (h : Val → W (Option Val)) (s : Prod) :
    (s.filterMapW h).vals = s.vals.filterMap (pv h) := by
  induction s with
  | nil => simp [Prod.filterMapW, Prod.vals]
  | emit e v r ih =>
    cases hv : (h v).val <;> simp [Prod.filterMapW, Prod.vals, ih, pv, hv]
  | skip e r ih => simp [Prod.filterMapW, Prod.vals, ih]

theorem Prod.vals_prefixLog (e : List Event) (s : Prod) : (s.prefixLog e).vals = s.vals := by
  cases s with
  | nil => cases e <;> simp [Prod.prefixLog, Prod.vals]
  | emit e' v r => simp [Prod.prefixLog, Prod.vals]
  | skip e' r => simp [Prod.prefixLog, Prod.vals]
theorem Prod.log_prefixLog (e : List Event) (s : Prod) : (s.prefixLog e).log = e ++ s.log := by
  cases s with
  | nil => cases e <;> simp [Prod.prefixLog, Prod.log]
  | emit e' v r => simp [Prod.prefixLog, Prod.log]
  | skip e' r => simp [Prod.prefixLog, Prod.log]

theorem Prod.vals_flatMapW (g : Val → Prod) (s : Prod) :
    (s.flatMapW g).vals = s.vals.flatMap (pvs g) := by
  induction s with
  | nil => simp [Prod.flatMapW, Prod.vals]
  | emit e v r ih =>
    simp [Prod.flatMapW, Prod.vals, ih, pvs, Prod.vals_append, Prod.vals_prefixLog]
  | skip e r ih => simp [Prod.flatMapW, Prod.vals, ih]
theorem Prod.vals_bindList (xs : List Val) (g : Val → Prod) :
    (Prod.bindList xs g).vals = xs.flatMap (pvs g) := by
  induction xs with
  | nil => simp [Prod.bindList, Prod.vals]
  | cons x xs ih => simp [Prod.bindList, Prod.vals_append, ih, pvs]

/-! ### stream algebra -/

theorem Prod.append_nil (s : Prod) : s.append .nil = s := by
  induction s with
  | nil => rfl
  | emit e v r ih => simp [Prod.append, ih]
  | skip e r ih => simp [Prod.append, ih]

theorem Prod.append_assoc (s t u : Prod) : (s.append t).append u = s.append (t.append u) := by
  induction s with
  | nil => rfl
  | emit e v r ih => simp [Prod.append, ih]
  | skip e r ih => simp [Prod.append, ih]

theorem Prod.mapW_append (m : Val → W Val) (s t : Prod) :
    (s.append t).mapW m = (s.mapW m).append (t.mapW m) := by
  induction s with
  | nil => rfl
  | emit e v r ih => simp [Prod.append, Prod.mapW, ih]
  | skip e r ih => simp [Prod.append, Prod.mapW, ih]

theorem Prod.filterW_append (p : Val → W Bool) (s t : Prod) :
    (s.append t).filterW p = (s.filterW p).append (t.filterW p) := by
  induction s with
  | nil => rfl
  | emit e v r ih => cases h : (p v).val <;> simp [Prod.append, Prod.filterW, ih, h]
  | skip e r ih => simp [Prod.append, Prod.filterW, ih]

theorem Prod.filterMapW_append (h : Val → W (Option Val)) (s t : Prod) :
    (s.append t).filterMapW h = (s.filterMapW h).append (t.filterMapW h) := by
  induction s with
  | nil => rfl
  | emit e v r ih => cases hv : (h v).val <;> simp [Prod.append, Prod.filterMapW, ih, hv]
  | skip e r ih => simp [Prod.append, Prod.filterMapW, ih]

theorem Prod.flatMapW_append (g : Val → Prod) (s t : Prod) :
    (s.append t).flatMapW g = (s.flatMapW g).append (t.flatMapW g) := by
  induction s with
  | nil => rfl
  | emit e v r ih => simp [Prod.append, Prod.flatMapW, ih, Prod.append_assoc]
  | skip e r ih => simp [Prod.append, Prod.flatMapW, ih]

theorem Op.applySeq_append (op : Op) (s t : Prod) :
    op.applySeq (s.append t) = (op.applySeq s).append (op.applySeq t) := by
  cases op <;>
    simp [Op.applySeq, Prod.mapW_append, Prod.filterW_append, Prod.filterMapW_append,
      Prod.flatMapW_append]

theorem Op.applySeq_nil (op : Op) : op.applySeq .nil = .nil := by
  cases op <;> rfl

theorem Op.applySeq_bindList (op : Op) (xs : List Val) (g : Val → Prod) :
    op.applySeq (Prod.bindList xs g) = Prod.bindList xs (fun x => op.applySeq (g x)) := by
  induction xs with
  | nil => simp [Prod.bindList, Op.applySeq_nil]
  | cons x xs ih => simp [Prod.bindList, Op.applySeq_append, ih]

theorem Prod.bindList_congr (xs : List Val) (g g' : Val → Prod) (h : ∀ x, g x = g' x) :
    Prod.bindList xs g = Prod.bindList xs g' := by
  have : g = g' := funext h
  rw [this]

theorem Prod.bindList_single (xs : List Val) : Prod.bindList xs Prod.single = Prod.ofList xs := by
  induction xs with
  | nil => rfl
  | cons x xs ih => simp [Prod.bindList, Prod.single, Prod.append, Prod.ofList, ih]

theorem Prod.prefixLog_ofCall (e e' : List Event) (ys : List Val) :
    (Prod.ofCall e' ys).prefixLog e = Prod.ofCall (e ++ e') ys := by
  cases ys <;> simp [Prod.ofCall, Prod.prefixLog]

theorem Prod.filterW_compAnd (f g : Val → W Bool) (s : Prod) :
    s.filterW (Par.compAnd f g) = (s.filterW f).filterW g := by
  induction s with
  | nil => rfl
  | emit e v r ih =>
    cases hf : (f v).val <;> cases hg : (g v).val <;>
      simp [Prod.filterW, Par.compAnd, ih, hf, hg, List.append_assoc]
  | skip e r ih => simp [Prod.filterW, ih]

theorem Par.noFilter_apply (v : Val) : Par.noFilter v = ⟨true, []⟩ := rfl

theorem Prod.vals_filterW_noFilter (s : Prod) : (s.filterW Par.noFilter).vals = s.vals := by
  induction s with
  | nil => rfl
  | emit e v r ih => simp [Prod.filterW, Par.noFilter_apply, Prod.vals, ih]
  | skip e r ih => simp [Prod.filterW, Prod.vals, ih]

theorem Prod.log_filterW_noFilter (s : Prod) : (s.filterW Par.noFilter).log = s.log := by
  induction s with
  | nil => rfl
  | emit e v r ih => simp [Prod.filterW, Par.noFilter_apply, Prod.log, ih]
  | skip e r ih => simp [Prod.filterW, Prod.log, ih]

@[simp] theorem Par.intoOption_eq (o : Option Val) : Par.intoOption o = o := by
  cases o <;> rfl

/-! ### lazy sites, per type -/

theorem Par.lazy_empty (p s) (op : Op) (x : Val) :
    ((Par.empty p s).applyT op).1.elem x = op.applySeq ((Par.empty p s).elem x) ∧
      ((Par.empty p s).applyT op).2 = [] ∧ ((Par.empty p s).applyT op).1.src = s := by
  cases op <;>
    simp [Par.applyT, Par.elem, Par.src, Par.setParams, Op.applySeq, Prod.single, Prod.mapW,
      Prod.filterW, Prod.filterMapW, Prod.flatMapW, Par.callFlat, Prod.prefixLog_ofCall,
      Prod.append_nil]

theorem Par.lazy_map (p s m) (op : Op) (x : Val) :
    ((Par.map p s m).applyT op).1.elem x = op.applySeq ((Par.map p s m).elem x) ∧
      ((Par.map p s m).applyT op).2 = [] ∧ ((Par.map p s m).applyT op).1.src = s := by
  cases op <;>
    simp [Par.applyT, Par.elem, Par.src, Par.setParams, Op.applySeq, Prod.single, Prod.mapW,
      Prod.filterW, Prod.filterMapW, Prod.flatMapW, Par.callFlat, Prod.prefixLog_ofCall,
      Prod.append_nil, Par.compMap, Par.compMapFlat, callW]

theorem Par.lazy_fil (p s f) (op : Op) (h : (Par.fil p s f).isEagerSite op = false) (x : Val) :
    ((Par.fil p s f).applyT op).1.elem x = op.applySeq ((Par.fil p s f).elem x) ∧
      ((Par.fil p s f).applyT op).2 = [] ∧ ((Par.fil p s f).applyT op).1.src = s := by
  cases op <;> simp [Par.isEagerSite] at h <;> cases hf : (f x).val <;>
    simp [Par.applyT, Par.elem, Par.src, Par.setParams, Op.applySeq, Prod.single, Prod.mapW,
      Prod.filterW, Prod.filterMapW, Par.filThenMap, Par.filThenFilterMap, Par.compAnd, callW, hf]
      <;> rfl

theorem Par.lazy_mapFil (p s m f) (op : Op) (h : (Par.mapFil p s m f).isEagerSite op = false)
    (x : Val) :
    ((Par.mapFil p s m f).applyT op).1.elem x = op.applySeq ((Par.mapFil p s m f).elem x) ∧
      ((Par.mapFil p s m f).applyT op).2 = [] ∧ ((Par.mapFil p s m f).applyT op).1.src = s := by
  cases op <;> simp [Par.isEagerSite] at h <;> cases hf : (f (m x).val).val <;>
    simp [Par.applyT, Par.elem, Par.src, Par.setParams, Op.applySeq, Prod.single, Prod.mapW,
      Prod.filterW, Prod.filterMapW, Par.mapFilThenMap, Par.mapFilThenFilterMap, Par.compAnd,
      callW, hf]
      <;> rfl

theorem Par.lazy_filterMap (p s fm) (op : Op) (h : (Par.filterMap p s fm).isEagerSite op = false)
    (x : Val) :
    ((Par.filterMap p s fm).applyT op).1.elem x = op.applySeq ((Par.filterMap p s fm).elem x) ∧
      ((Par.filterMap p s fm).applyT op).2 = [] ∧ ((Par.filterMap p s fm).applyT op).1.src = s := by
  cases op <;> simp [Par.isEagerSite] at h <;> cases hf : (fm x).val <;>
    simp [Par.applyT, Par.elem, Par.src, Par.setParams, Op.applySeq, Prod.single, Prod.mapW,
      Prod.filterW, Prod.filterMapW, Par.fmThenMap, Par.fmThenFilterMap,
      callW, hf]
      <;> rfl

theorem Par.lazy_filterMapFil (p s fm f) (op : Op)
    (h : (Par.filterMapFil p s fm f).isEagerSite op = false) (x : Val) :
    ((Par.filterMapFil p s fm f).applyT op).1.elem x
        = op.applySeq ((Par.filterMapFil p s fm f).elem x) ∧
      ((Par.filterMapFil p s fm f).applyT op).2 = [] ∧
      ((Par.filterMapFil p s fm f).applyT op).1.src = s := by
  cases op <;> simp [Par.isEagerSite] at h <;> cases hf : (fm x).val with
    | none =>
      simp [Par.applyT, Par.elem, Par.src, Par.setParams, Op.applySeq, Prod.single, Prod.mapW,
        Prod.filterW, Prod.filterMapW, Par.fmFilThenMap, Par.fmFilThenFilterMap, Par.compAnd,
        callW, hf]
    | some v =>
      cases hb : (f v).val <;>
      simp [Par.applyT, Par.elem, Par.src, Par.setParams, Op.applySeq, Prod.single, Prod.mapW,
        Prod.filterW, Prod.filterMapW, Par.fmFilThenMap, Par.fmFilThenFilterMap, Par.compAnd,
        callW, hf, hb]
      <;> rfl

theorem Par.lazy_flatMap (p s fm) (op : Op) (h : (Par.flatMap p s fm).isEagerSite op = false)
    (x : Val) :
    ((Par.flatMap p s fm).applyT op).1.elem x = op.applySeq ((Par.flatMap p s fm).elem x) ∧
      ((Par.flatMap p s fm).applyT op).2 = [] ∧ ((Par.flatMap p s fm).applyT op).1.src = s := by
  cases op <;> simp [Par.isEagerSite] at h <;>
    simp [Par.applyT, Par.elem, Par.src, Par.setParams, Op.applySeq]

theorem Par.lazy_flatMapFil (p s fm f) (op : Op)
    (h : (Par.flatMapFil p s fm f).isEagerSite op = false) (x : Val) :
    ((Par.flatMapFil p s fm f).applyT op).1.elem x
        = op.applySeq ((Par.flatMapFil p s fm f).elem x) ∧
      ((Par.flatMapFil p s fm f).applyT op).2 = [] ∧
      ((Par.flatMapFil p s fm f).applyT op).1.src = s := by
  cases op <;> simp [Par.isEagerSite] at h <;>
    simp [Par.applyT, Par.elem, Par.src, Par.setParams, Op.applySeq, Prod.filterW_compAnd]

/-- lazy sites are *structurally* the std adaptor on the per-element stream -/
theorem Par.applyT_lazy_elem (P : Par) (op : Op) (h : P.isEagerSite op = false) (x : Val) :
    (P.applyT op).1.elem x = op.applySeq (P.elem x) ∧ (P.applyT op).2 = [] ∧
      (P.applyT op).1.src = P.src := by
  cases P with
  | empty p s => exact Par.lazy_empty p s op x
  | map p s m => exact Par.lazy_map p s m op x
  | fil p s f => exact Par.lazy_fil p s f op h x
  | mapFil p s m f => exact Par.lazy_mapFil p s m f op h x
  | filterMap p s fm => exact Par.lazy_filterMap p s fm op h x
  | filterMapFil p s fm f => exact Par.lazy_filterMapFil p s fm f op h x
  | flatMap p s fm => exact Par.lazy_flatMap p s fm op h x
  | flatMapFil p s fm f => exact Par.lazy_flatMapFil p s fm f op h x

/-- lazy sites: the whole pipeline stream is the std adaptor on the old stream -/
theorem Par.applyT_lazy_stream (P : Par) (op : Op) (h : P.isEagerSite op = false) :
    (P.applyT op).1.stream = op.applySeq P.stream := by
  have h3 := (Par.applyT_lazy_elem P op h 0).2.2
  simp only [Par.stream, h3, Op.applySeq_bindList]
  exact Prod.bindList_congr _ _ _ (fun x => (Par.applyT_lazy_elem P op h x).1)

/-! ### eager sites -/

theorem Par.stream_empty (p s) : (Par.empty p s).stream = Prod.ofList s.items := by
  have : (Par.empty p s).elem = Prod.single := by funext x; rfl
  simp [Par.stream, Par.src, this, Prod.bindList_single]

theorem Par.fresh_stream (p : Params) (ys : List Val) (op : Op) :
    ((Par.empty p ⟨ys, true⟩).applyT op).1.stream = op.applySeq (Prod.ofList ys) := by
  rw [Par.applyT_lazy_stream _ _ rfl, Par.stream_empty]

theorem Par.fresh_stream' (Q : Par) (p : Params) (ys : List Val) (op : Op)
    (hQ : Q = ((Par.empty p ⟨ys, true⟩).applyT op).1) :
    Q.stream = op.applySeq (Prod.ofList ys) := by
  rw [hQ, Par.fresh_stream]

theorem Prod.filterW_bindList (p : Val → W Bool) (xs : List Val) (g : Val → Prod) :
    (Prod.bindList xs g).filterW p = Prod.bindList xs (fun x => (g x).filterW p) := by
  induction xs with
  | nil => rfl
  | cons x xs ih => simp [Prod.bindList, Prod.filterW_append, ih]

theorem Par.stream_flatMapFil (p s fm f) :
    (Par.flatMapFil p s fm f).stream = (Par.flatMap p s fm).stream.filterW f := by
  simp [Par.stream, Par.src, Prod.filterW_bindList]
  exact Prod.bindList_congr _ _ _ (fun x => rfl)

theorem Par.applyT_eager (P : Par) (op : Op) (h : P.isEagerSite op = true) :
    (P.applyT op).1.stream = op.applySeq (Prod.ofList P.stream.vals) ∧
      (P.applyT op).2 = P.stream.log := by
  cases P <;> cases op <;> simp [Par.isEagerSite] at h
  case flatMap.filterMap p s fm k hh =>
    have hv := Prod.vals_filterW_noFilter (Par.flatMap p s fm).stream
    have hl := Prod.log_filterW_noFilter (Par.flatMap p s fm).stream
    rw [← Par.stream_flatMapFil] at hv hl
    rw [← hv, ← hl]
    exact ⟨Par.fresh_stream' _ p _ _ rfl, rfl⟩
  all_goals exact ⟨Par.fresh_stream' _ _ _ _ rfl, rfl⟩

/-! ### (a) values of the std adaptors -/

theorem Prod.vals_ofCall (e : List Event) (ys : List Val) : (Prod.ofCall e ys).vals = ys := by
  cases ys <;> simp [Prod.ofCall, Prod.vals, Prod.vals_ofList]

theorem Prod.log_ofList (xs : List Val) : (Prod.ofList xs).log = [] := by
  induction xs with
  | nil => rfl
  | cons x xs ih => simp [Prod.ofList, Prod.log, ih]

theorem Prod.log_ofCall (e : List Event) (ys : List Val) : (Prod.ofCall e ys).log = e := by
  cases ys <;> simp [Prod.ofCall, Prod.log, Prod.log_ofList]

theorem pv_callW {β : Type} (k : Nat) (f : Val → β) : pv (callW k f) = f := rfl

theorem pvs_callFlat (k : Nat) (g : Val → List Val) : pvs (Par.callFlat k g) = g := by
  funext x; simp [pvs, Par.callFlat, Prod.vals_ofCall]

theorem Op.applySeq_vals (op : Op) (s : Prod) : (op.applySeq s).vals = op.applyVals s.vals := by
  cases op <;>
    simp [Op.applySeq, Op.applyVals, Prod.vals_mapW, Prod.vals_filterW, Prod.vals_filterMapW,
      Prod.vals_flatMapW, pv_callW, pvs_callFlat]

/-! ### (b) events of the std adaptors, as multisets -/

theorem Prod.count_log_mapW (m : Val → W Val) (s : Prod) (a : Event) :
    (s.mapW m).log.count a = s.log.count a + ((Prod.ofList s.vals).mapW m).log.count a := by
  induction s with
  | nil => simp [Prod.mapW, Prod.log, Prod.vals, Prod.ofList]
  | emit e v r ih =>
    simp [Prod.mapW, Prod.log, Prod.vals, Prod.ofList, List.count_append, ih]; omega
  | skip e r ih =>
    simp [Prod.mapW, Prod.log, Prod.vals, List.count_append, ih]; omega

theorem Prod.count_log_filterW (p : Val → W Bool) (s : Prod) (a : Event) :
    (s.filterW p).log.count a = s.log.count a + ((Prod.ofList s.vals).filterW p).log.count a := by
  induction s with
  | nil => simp [Prod.filterW, Prod.log, Prod.vals, Prod.ofList]
  | emit e v r ih =>
    cases h : (p v).val <;>
      simp [Prod.filterW, Prod.log, Prod.vals, Prod.ofList, List.count_append, ih, h] <;> omega
  | skip e r ih =>
    simp [Prod.filterW, Prod.log, Prod.vals, List.count_append, ih]; omega

theorem Prod.count_log_filterMapW (h : Val → W (Option Val)) (s : Prod) (a : Event) :
    (s.filterMapW h).log.count a
      = s.log.count a + ((Prod.ofList s.vals).filterMapW h).log.count a := by
  induction s with
  | nil => simp [Prod.filterMapW, Prod.log, Prod.vals, Prod.ofList]
  | emit e v r ih =>
    cases hv : (h v).val <;>
      simp [Prod.filterMapW, Prod.log, Prod.vals, Prod.ofList, List.count_append, ih, hv] <;> omega
  | skip e r ih =>
    simp [Prod.filterMapW, Prod.log, Prod.vals, List.count_append, ih]; omega

theorem Prod.count_log_flatMapW (g : Val → Prod) (s : Prod) (a : Event) :
    (s.flatMapW g).log.count a
      = s.log.count a + ((Prod.ofList s.vals).flatMapW g).log.count a := by
  induction s with
  | nil => simp [Prod.flatMapW, Prod.log, Prod.vals, Prod.ofList]
  | emit e v r ih =>
    simp [Prod.flatMapW, Prod.log, Prod.vals, Prod.ofList, List.count_append, ih,
      Prod.log_append, Prod.log_prefixLog]; omega
  | skip e r ih =>
    simp [Prod.flatMapW, Prod.log, Prod.vals, List.count_append, ih]; omega

theorem Op.applySeq_count_log (op : Op) (s : Prod) (a : Event) :
    (op.applySeq s).log.count a
      = s.log.count a + (op.applySeq (Prod.ofList s.vals)).log.count a := by
  cases op <;>
    simp [Op.applySeq, Prod.count_log_mapW _ s, Prod.count_log_filterW _ s,
      Prod.count_log_filterMapW _ s, Prod.count_log_flatMapW _ s, Prod.log_ofList]

theorem Op.applySeq_log_perm (op : Op) (s : Prod) :
    (op.applySeq s).log.Perm (s.log ++ (op.applySeq (Prod.ofList s.vals)).log) := by
  rw [List.perm_iff_count]
  intro a
  rw [List.count_append, Op.applySeq_count_log]

/-! ### the site theorems -/

/-- one site: values.  Covers all 32 (type, transformation) sites and the setters. -/
theorem Par.applyT_stream_vals (P : Par) (op : Op) :
    (P.applyT op).1.stream.vals = op.applyVals P.stream.vals := by
  cases h : P.isEagerSite op with
  | false => rw [Par.applyT_lazy_stream P op h, Op.applySeq_vals]
  | true => rw [(Par.applyT_eager P op h).1, Op.applySeq_vals, Prod.vals_ofList]

/-- one site: events.  The events that ran at construction plus the events of the new
    pipeline are, as a multiset, the events of applying the std adaptor to the old pipeline. -/
theorem Par.applyT_log_perm (P : Par) (op : Op) :
    ((P.applyT op).2 ++ (P.applyT op).1.stream.log).Perm (op.applySeq P.stream).log := by
  cases h : P.isEagerSite op with
  | false =>
    rw [Par.applyT_lazy_stream P op h, (Par.applyT_lazy_elem P op h 0).2.1, List.nil_append]
  | true =>
    rw [(Par.applyT_eager P op h).1, (Par.applyT_eager P op h).2]
    exact (Op.applySeq_log_perm op P.stream).symm

/-! ### chains -/

/-- the specification stream has the plain `List` semantics -/
theorem seqStream_vals (src : List Val) (ops : List Op) : (seqStream src ops).vals = seqVals src ops := by
  have gen : ∀ (ops : List Op) (S : Prod) (xs : List Val), S.vals = xs →
      (ops.foldl Op.applySeq S).vals = ops.foldl Op.applyVals xs := by
    intro ops
    induction ops with
    | nil => intro S xs h; simpa using h
    | cons op ops ih =>
      intro S xs h
      simp only [List.foldl_cons]
      apply ih
      rw [Op.applySeq_vals, h]
  exact gen ops _ _ (Prod.vals_ofList src)

/-- the step function of `Par.build` -/
def Par.buildStep (acc : Par × List Event) (op : Op) : Par × List Event :=
  let (P, e) := acc.1.applyT op; (P, acc.2 ++ e)

theorem Par.build_eq (s : Src) (ops : List Op) :
    Par.build s ops = ops.foldl Par.buildStep (Par.new s, []) := rfl

theorem Par.build_snoc (s : Src) (ops : List Op) (op : Op) :
    Par.build s (ops ++ [op]) = Par.buildStep (Par.build s ops) op := by
  simp [Par.build_eq, List.foldl_append]

/-- the chain invariant: same values, and the events so far are those of the std chain -/
def Par.Inv (acc : Par × List Event) (S : Prod) : Prop :=
  acc.1.stream.vals = S.vals ∧ (acc.2 ++ acc.1.stream.log).Perm S.log

theorem Par.Inv_step (acc : Par × List Event) (S : Prod) (op : Op) (h : Par.Inv acc S) :
    Par.Inv (Par.buildStep acc op) (op.applySeq S) := by
  obtain ⟨hv, hl⟩ := h
  refine ⟨?_, ?_⟩
  · show (acc.1.applyT op).1.stream.vals = _
    rw [Par.applyT_stream_vals, Op.applySeq_vals, hv]
  · show ((acc.2 ++ (acc.1.applyT op).2) ++ (acc.1.applyT op).1.stream.log).Perm _
    have h1 := Par.applyT_log_perm acc.1 op
    have h2 := Op.applySeq_log_perm op acc.1.stream
    have h3 := Op.applySeq_log_perm op S
    rw [hv] at h2
    rw [List.perm_iff_count] at *
    intro a
    have h1 := h1 a; have h2 := h2 a; have h3 := h3 a; have hl := hl a
    simp only [List.count_append] at *
    omega

theorem Par.Inv_foldl (ops : List Op) (acc : Par × List Event) (S : Prod) (h : Par.Inv acc S) :
    Par.Inv (ops.foldl Par.buildStep acc) (ops.foldl Op.applySeq S) := by
  induction ops generalizing acc S with
  | nil => simpa using h
  | cons op ops ih =>
    simp only [List.foldl_cons]
    exact ih _ _ (Par.Inv_step acc S op h)

theorem Par.Inv_build (s : Src) (ops : List Op) :
    Par.Inv (Par.build s ops) (seqStream s.items ops) := by
  apply Par.Inv_foldl
  refine ⟨?_, ?_⟩
  · simp [Par.new, Par.stream_empty]
  · simp [Par.new, Par.stream_empty]

/-- T-chain (values): every chain, on every source, denotes the std chain -/
theorem build_stream_vals (s : Src) (ops : List Op) :
    (Par.build s ops).1.stream.vals = seqVals s.items ops := by
  rw [(Par.Inv_build s ops).1, seqStream_vals]

/-- T-chain (events): construction effects + events of the final pipeline = events of the std
    chain, as multisets — for every chain -/
theorem build_log_perm (s : Src) (ops : List Op) :
    ((Par.build s ops).2 ++ (Par.build s ops).1.stream.log).Perm (seqStream s.items ops).log :=
  (Par.Inv_build s ops).2

/-- the pipeline a chain builds, position by position: the type after each call -/
def Par.trace (s : Src) : List Op → List Par
  | ops => (List.range (ops.length + 1)).map fun i => (Par.build s (ops.take i)).1

/-- T-lazy: a chain that never passes through an eager site runs nothing before the terminal -/
theorem build_lazy (s : Src) (ops : List Op)
    (h : ∀ i (hi : i < ops.length), Par.isEagerSite (Par.build s (ops.take i)).1 ops[i] = false) :
    (Par.build s ops).2 = [] := by
  have key : ∀ n, n ≤ ops.length → (Par.build s (ops.take n)).2 = [] := by
    intro n
    induction n with
    | zero => intro _; rfl
    | succ n ih =>
      intro hn
      have hn' : n < ops.length := hn
      rw [List.take_succ_eq_append_getElem hn', Par.build_snoc]
      show (Par.build s (ops.take n)).2 ++ ((Par.build s (ops.take n)).1.applyT ops[n]).2 = []
      rw [ih (Nat.le_of_lt hn'), (Par.applyT_lazy_elem _ _ (h n hn') 0).2.1]
      rfl
  have := key ops.length (Nat.le_refl _)
  rwa [List.take_length] at this

/-! the closures the kernels receive, per type, in terms of the sequential stream -/
theorem Par.stream_vals_empty (p s) : (Par.empty p s).stream.vals = s.items := by
  simp [Par.stream_empty, Prod.vals_ofList]
theorem Par.stream_vals_aux (P : Par) :
    P.stream.vals = P.src.items.flatMap (fun x => (P.elem x).vals) :=
  Prod.vals_bindList _ _
theorem Par.stream_vals_map (p s m) : (Par.map p s m).stream.vals = s.items.map (pv m) := by
  rw [Par.stream_vals_aux]
  show s.items.flatMap (fun x => ((Prod.single x).mapW m).vals) = _
  generalize s.items = xs
  induction xs with
  | nil => rfl
  | cons x xs ih =>
    rw [List.flatMap_cons, ih]
    simp [Prod.single, Prod.mapW, Prod.vals, pv]
theorem Par.stream_vals_fil (p s f) : (Par.fil p s f).stream.vals = s.items.filter (pv f) := by
  rw [Par.stream_vals_aux]
  show s.items.flatMap (fun x => ((Prod.single x).filterW f).vals) = _
  generalize s.items = xs
  induction xs with
  | nil => rfl
  | cons x xs ih =>
    rw [List.flatMap_cons, ih]
    cases h : (f x).val <;> simp [Prod.single, Prod.filterW, Prod.vals, pv, h]
theorem Par.stream_vals_mapFil (p s m f) :
    (Par.mapFil p s m f).stream.vals = (s.items.map (pv m)).filter (pv f) := by
  rw [Par.stream_vals_aux]
  show s.items.flatMap (fun x => (((Prod.single x).mapW m).filterW f).vals) = _
  generalize s.items = xs
  induction xs with
  | nil => rfl
  | cons x xs ih =>
    rw [List.flatMap_cons, ih]
    cases h : (f (m x).val).val <;>
      simp [Prod.single, Prod.mapW, Prod.filterW, Prod.vals, pv, h]
theorem Par.stream_vals_filterMap (p s fm) :
    (Par.filterMap p s fm).stream.vals = s.items.filterMap (pv fm) := by
  rw [Par.stream_vals_aux]
  show s.items.flatMap (fun x => ((Prod.single x).filterMapW fm).vals) = _
  generalize s.items = xs
  induction xs with
  | nil => rfl
  | cons x xs ih =>
    rw [List.flatMap_cons, ih]
    cases h : (fm x).val <;> simp [Prod.single, Prod.filterMapW, Prod.vals, pv, h]
theorem Par.stream_vals_filterMapFil (p s fm f) :
    (Par.filterMapFil p s fm f).stream.vals = (s.items.filterMap (pv fm)).filter (pv f) := by
  rw [Par.stream_vals_aux]
  show s.items.flatMap (fun x => (((Prod.single x).filterMapW fm).filterW f).vals) = _
  generalize s.items = xs
  induction xs with
  | nil => rfl
  | cons x xs ih =>
    rw [List.flatMap_cons, ih]
    cases h : (fm x).val with
    | none => simp [Prod.single, Prod.filterMapW, Prod.filterW, Prod.vals, pv, h]
    | some v =>
      cases hb : (f v).val <;>
        simp [Prod.single, Prod.filterMapW, Prod.filterW, Prod.vals, pv, h, hb]
theorem Par.stream_vals_flatMap (p s g) : (Par.flatMap p s g).stream.vals = s.items.flatMap (pvs g) := by
  simp [Par.stream, Par.src, Prod.vals_bindList]
  rfl
theorem Par.stream_vals_flatMapFil (p s g f) :
    (Par.flatMapFil p s g f).stream.vals = (s.items.flatMap (pvs g)).filter (pv f) := by
  rw [Par.stream_flatMapFil, Prod.vals_filterW, Par.stream_vals_flatMap]

end OrxPar
