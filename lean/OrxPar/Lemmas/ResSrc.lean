/- The owning source of `Model/Resources.lean`: `take`, `dropRange`, `skipToEnd`, `drop`. -/
import OrxPar.Model.Resources
import OrxPar.Lemmas.ResBag
namespace OrxPar
namespace Res

/-! ### list helpers -/

theorem set_mid {α : Type} (X : List α) (c d : α) (Y : List α) :
    (X ++ c :: Y).set X.length d = X ++ d :: Y := by
  induction X with
  | nil => rfl
  | cons x X ih => simp [ih]

theorem getD_mid {α : Type} (X : List α) (c d : α) (Y : List α) :
    (X ++ c :: Y).getD X.length d = c := by
  induction X with
  | nil => rfl
  | cons x X ih => simp

theorem replicate_snoc_append {α : Type} (A : List α) (i : Nat) (a : α) (Y : List α) :
    (A ++ List.replicate i a) ++ a :: Y = (A ++ List.replicate (i + 1) a) ++ Y := by
  rw [List.replicate_succ']
  simp [List.append_assoc]

/-! ### `take` -/

theorem VecSrc.take_zero (s : VecSrc) (start : Nat) : s.take start 0 = (s, []) := rfl

theorem VecSrc.take_succ (s : VecSrc) (start n : Nat) :
    s.take start (n + 1) =
      (let acc := s.take start n
       let (tok, cell', b) := readCell (acc.1.cells.getD (start + n) .uninit)
       ({ acc.1 with cells := acc.1.cells.set (start + n) cell', bad := acc.1.bad + b },
        acc.2 ++ tok.toList)) := by
  unfold VecSrc.take
  rw [List.range_succ, List.foldl_append]
  rfl

/-- taking the still-initialised cells `[start, start + i)` -/
theorem VecSrc.take_init (s : VecSrc) (A B : List Cell) (ts : List Nat) (start : Nat)
    (hA : A.length = start) (hc : s.cells = A ++ (ts.map Cell.init ++ B)) :
    ∀ i, i ≤ ts.length →
      s.take start i =
        (⟨(A ++ List.replicate i Cell.moved) ++ ((ts.drop i).map Cell.init ++ B),
          s.counter, s.dropped, s.bad⟩, ts.take i) := by
  intro i
  induction i with
  | zero =>
    intro _
    rw [VecSrc.take_zero]
    obtain ⟨cells, counter, dropped, bad⟩ := s
    simp only at hc
    subst hc
    simp
  | succ i ih =>
    intro hi
    have hi' : i < ts.length := hi
    rw [VecSrc.take_succ, ih (Nat.le_of_lt hi')]
    have hlen : (A ++ List.replicate i Cell.moved).length = start + i := by simp [hA]
    rw [List.drop_eq_getElem_cons hi']
    simp only [List.map_cons, List.cons_append]
    rw [← hlen, getD_mid]
    simp only [readCell]
    rw [set_mid, replicate_snoc_append, List.take_succ_eq_append_getElem hi']
    simp

/-! ### `dropRange` -/

/-- `dropRange` with the number of cells as parameter -/
def VecSrc.dr (s : VecSrc) (a n : Nat) : VecSrc :=
  (List.range n).foldl (fun acc i =>
    let c := acc.cells.getD (a + i) .uninit
    let (ts, bd) := dropCell c
    { acc with cells := acc.cells.set (a + i) .moved, dropped := acc.dropped ++ ts, bad := acc.bad + bd }) s

theorem VecSrc.dropRange_eq (s : VecSrc) (a b : Nat) : s.dropRange a b = s.dr a (b - a) := rfl

theorem VecSrc.dr_zero (s : VecSrc) (a : Nat) : s.dr a 0 = s := rfl

theorem VecSrc.dr_succ (s : VecSrc) (a n : Nat) :
    s.dr a (n + 1) =
      (let acc := s.dr a n
       let c := acc.cells.getD (a + n) .uninit
       let (ts, bd) := dropCell c
       { acc with cells := acc.cells.set (a + n) .moved, dropped := acc.dropped ++ ts, bad := acc.bad + bd }) := by
  unfold VecSrc.dr
  rw [List.range_succ, List.foldl_append]
  rfl

theorem VecSrc.dr_init (s : VecSrc) (A B : List Cell) (ts : List Nat) (a : Nat)
    (hA : A.length = a) (hc : s.cells = A ++ (ts.map Cell.init ++ B)) :
    ∀ i, i ≤ ts.length →
      s.dr a i =
        ⟨(A ++ List.replicate i Cell.moved) ++ ((ts.drop i).map Cell.init ++ B),
          s.counter, s.dropped ++ ts.take i, s.bad⟩ := by
  intro i
  induction i with
  | zero =>
    intro _
    rw [VecSrc.dr_zero]
    obtain ⟨cells, counter, dropped, bad⟩ := s
    simp only at hc
    subst hc
    simp
  | succ i ih =>
    intro hi
    have hi' : i < ts.length := hi
    rw [VecSrc.dr_succ, ih (Nat.le_of_lt hi')]
    have hlen : (A ++ List.replicate i Cell.moved).length = a + i := by simp [hA]
    rw [List.drop_eq_getElem_cons hi']
    simp only [List.map_cons, List.cons_append]
    rw [← hlen, getD_mid]
    simp only [dropCell]
    rw [set_mid, replicate_snoc_append, List.take_succ_eq_append_getElem hi']
    simp [List.append_assoc]

/-! ### the invariant -/

structure Inv (toks : List Nat) (s : VecSrc) (taken : List Nat) : Prop where
  cells : s.cells = List.replicate (min s.counter toks.length) Cell.moved ++
    (toks.drop (min s.counter toks.length)).map Cell.init
  perm : (taken ++ s.dropped).Perm (toks.take (min s.counter toks.length))
  bad : s.bad = 0

theorem Inv.length {toks s taken} (h : Inv toks s taken) : s.cells.length = toks.length := by
  rw [h.cells]; simp; omega

theorem Inv.init (toks : List Nat) : Inv toks (VecSrc.new toks) [] := by
  constructor
  · simp [VecSrc.new]
  · simp [VecSrc.new]
  · rfl

/-- dropping the not yet reserved tail -/
theorem VecSrc.dropTail (toks : List Nat) (s : VecSrc) (m : Nat) (hm : m ≤ toks.length)
    (hc : s.cells = List.replicate m Cell.moved ++ (toks.drop m).map Cell.init) :
    s.dropRange m toks.length =
      ⟨List.replicate toks.length Cell.moved, s.counter, s.dropped ++ toks.drop m, s.bad⟩ := by
  rw [VecSrc.dropRange_eq]
  have := VecSrc.dr_init s (List.replicate m Cell.moved) [] (toks.drop m) m (by simp)
    (by simpa using hc) (toks.length - m) (by simp)
  rw [this]
  have h1 : List.drop (toks.length - m) (List.drop m toks) = [] := by
    apply List.drop_eq_nil_of_le; simp
  have h2 : List.take (toks.length - m) (List.drop m toks) = List.drop m toks := by
    apply List.take_of_length_le; simp
  rw [h1, h2, List.replicate_append_replicate]
  simp only [List.map_nil, List.append_nil]
  rw [Nat.add_sub_cancel' hm]

theorem Inv.pull {toks s taken} (h : Inv toks s taken) (c : Nat) :
    Inv toks ((s.reserve c).1.take (s.reserve c).2
        (Nat.min c ((s.reserve c).1.cells.length - (s.reserve c).2))).1
      (taken ++ ((s.reserve c).1.take (s.reserve c).2
        (Nat.min c ((s.reserve c).1.cells.length - (s.reserve c).2))).2) := by
  have hlen := h.length
  obtain ⟨hc, hp, hb⟩ := h
  simp only [VecSrc.reserve]
  rw [hlen]
  by_cases hs : toks.length ≤ s.counter
  · have hn : Nat.min c (toks.length - s.counter) = 0 := by
      show min c (toks.length - s.counter) = 0
      omega
    rw [hn, VecSrc.take_zero]
    have hm : min (s.counter + c) toks.length = min s.counter toks.length := by omega
    constructor
    · simp only [hm]; exact hc
    · simp only [hm, List.append_nil]; exact hp
    · exact hb
  · have hs' : s.counter < toks.length := Nat.lt_of_not_le hs
    have hm : min s.counter toks.length = s.counter := by omega
    rw [hm] at hc hp
    have hnmin : Nat.min c (toks.length - s.counter) = min c (toks.length - s.counter) := rfl
    rw [hnmin]
    generalize hn : min c (toks.length - s.counter) = n
    have hnle : n ≤ toks.length - s.counter := by omega
    have hm' : min (s.counter + c) toks.length = s.counter + n := by omega
    have hsplit : toks.drop s.counter = (toks.drop s.counter).take n ++ toks.drop (s.counter + n) := by
      rw [← List.drop_drop, List.take_append_drop]
    have htl : ((toks.drop s.counter).take n).length = n := by
      rw [List.length_take, List.length_drop]; omega
    have := VecSrc.take_init { s with counter := s.counter + c }
      (List.replicate s.counter Cell.moved) ((toks.drop (s.counter + n)).map Cell.init)
      ((toks.drop s.counter).take n) s.counter (by simp)
      (by
        show s.cells = _
        rw [hc, ← List.map_append, ← hsplit]) n (by omega)
    rw [this]
    have hd : List.drop n (List.take n (List.drop s.counter toks)) = [] := by
      apply List.drop_eq_nil_of_le; omega
    have ht : List.take n (List.take n (List.drop s.counter toks)) = List.take n (List.drop s.counter toks) := by
      apply List.take_of_length_le; omega
    constructor
    · simp only [hm', hd, List.replicate_append_replicate]
      simp
    · simp only [hm', ht]
      rw [List.take_add]
      refine (List.Perm.trans ?_ (List.Perm.append_right _ hp))
      simp only [List.append_assoc]
      exact List.Perm.append_left taken List.perm_append_comm
    · exact hb

theorem Inv.skip {toks s taken} (h : Inv toks s taken) : Inv toks s.skipToEnd taken := by
  have hlen := h.length
  obtain ⟨hc, hp, hb⟩ := h
  unfold VecSrc.skipToEnd
  simp only [hlen]
  have hmax : Nat.max s.counter toks.length = max s.counter toks.length := rfl
  rw [hmax]
  by_cases hs : s.counter < toks.length
  · rw [if_pos hs]
    have hm : min s.counter toks.length = s.counter := by omega
    rw [hm] at hc hp
    rw [VecSrc.dropTail toks { s with counter := max s.counter toks.length } s.counter
      (Nat.le_of_lt hs) hc]
    have hm' : min (max s.counter toks.length) toks.length = toks.length := by omega
    constructor
    · simp only [hm']; simp
    · simp only [hm', List.take_length]
      rw [← List.append_assoc]
      refine (List.Perm.append_right _ hp).trans ?_
      rw [List.take_append_drop]
    · exact hb
  · rw [if_neg hs]
    have hm' : min (max s.counter toks.length) toks.length = min s.counter toks.length := by omega
    constructor
    · simp only [hm']; exact hc
    · simp only [hm']; exact hp
    · exact hb

theorem held_replicate_moved (n : Nat) : held (List.replicate n Cell.moved) = [] := by
  apply List.filterMap_eq_nil_iff.2
  intro c hc
  rw [(List.mem_replicate.1 hc).2]

theorem Inv.drop {toks s taken} (h : Inv toks s taken) :
    (taken ++ s.drop.dropped).Perm toks ∧ s.drop.bad = 0 ∧ held s.drop.cells = [] := by
  have hlen := h.length
  obtain ⟨hc, hp, hb⟩ := h
  unfold VecSrc.drop
  rw [hlen]
  have hmin : Nat.min s.counter toks.length = min s.counter toks.length := rfl
  rw [hmin, VecSrc.dropTail toks s (min s.counter toks.length) (Nat.min_le_right _ _) hc]
  refine ⟨?_, hb, held_replicate_moved _⟩
  simp only
  rw [← List.append_assoc]
  refine (List.Perm.append_right _ hp).trans ?_
  rw [List.take_append_drop]

end Res
end OrxPar
