/- The ordered bag of `map_col` and the early-exit kernels. -/
import OrxPar.Model.Accept
import OrxPar.Lemmas.BagFindAux
namespace OrxPar
open K

/-- T-bag: every position `pre.length + i` is written exactly once with `m xᵢ`; counts match -/
theorem mapCol_correct (m : Val → Val) (pre xs : List Val) (ex : Exec) (h : ex.Accepts xs) :
    bagFinish pre (ex.runMap (mapColTask m pre.length)).flatten = some (seqMapCol m pre xs) := by
  have hie := Aux.idxElems_of_tiles h.tiles
  unfold seqMapCol
  apply Aux.bagFinish_of_perm
  have hperm : (ex.order.flatMap fun t => idxElems (ex.asg.filter (·.tid == t))).Perm
      (idxElems ex.asg) :=
    Aux.flatMap_filter_perm (fun c : Chunk => (c.items.zipIdx c.start).map fun p : Val × Nat => ((p.2, p.1) : Nat × Val))
      ex.asg ex.order h.nodup h.tids
  have e : (ex.runMap (mapColTask m pre.length)).flatten
      = (ex.order.flatMap fun t => idxElems (ex.asg.filter (·.tid == t))).map
          (fun p => (pre.length + p.1, m p.2)) := by
    unfold Exec.runMap Exec.chunksOf mapColTask
    rw [List.flatMap_def, List.map_flatten, List.map_map]
    rfl
  rw [e]
  refine (List.Perm.map _ hperm).trans (List.Perm.of_eq ?_)
  rw [hie, List.zipIdx_map, List.map_map, List.map_map]
  rfl

/-- the index reported by the sequential find is the position of the first matching element -/
private theorem seqMapFilFind_spec' (m : Val → Val) (f : Val → Bool) (xs : List Val) :
    seqMapFilFind m f xs
      = (xs.zipIdx 0).findSome? fun p => if f (m p.1) then some (p.2, m p.1) else none := by
  unfold seqMapFilFind
  rw [List.zipIdx_map, List.findSome?_map]
  rfl

/-- T-find (map_fil_find): the least matching source position wins, whichever worker holds it
    and whatever the other workers found -/
theorem mapFilFind_correct (m : Val → Val) (f : Val → Bool) (xs : List Val) (ex : Exec)
    (h : ex.AcceptsFind xs (fun x => f (m x))) :
    (ex.reduce (mapFilFindTask m f) (maybeReduce minIdx)).getD none = seqMapFilFind m f xs := by
  rw [seqMapFilFind_spec']
  refine Aux.find_main (fun p => if f (m p.2) then some (p.1, m p.2) else none) ?_
    (fun x => f (m x)) ?_ xs ex h
  · intro p r hr
    split at hr
    · cases hr; rfl
    · cases hr
  · intro p hp
    simp [hp]

theorem filtermapFilFind_correct (fm : Val → Option Val) (f : Val → Bool) (xs : List Val) (ex : Exec)
    (h : ex.AcceptsFind xs (fun x => match fm x with | none => false | some v => f v)) :
    (ex.reduce (filtermapFilFindTask fm f) (maybeReduce minIdx)).getD none
      = seqFiltermapFilFind fm f xs := by
  have hs : seqFiltermapFilFind fm f xs = (xs.zipIdx 0).findSome? fun q =>
      (fun p : Nat × Val => match fm p.2 with
        | none => none
        | some value => if f value then some (p.1, value) else none) (q.2, q.1) := by
    unfold seqFiltermapFilFind
    rw [List.zipIdx_map, List.findSome?_map]
    rfl
  rw [hs]
  refine Aux.find_main _ ?_ _ ?_ xs ex h
  · intro p r hr
    split at hr
    · cases hr
    · split at hr
      · cases hr; rfl
      · cases hr
  · intro p hp
    split at hp
    · cases hp
    · rename_i v hv
      simp [hv, hp]

private theorem flatmap_seq (g : Val → List Val) (f : Val → Bool) (xs : List Val) (k : Nat) :
    ((xs.zipIdx k).findSome? fun q => ((g q.1).find? f).map fun y => (q.2, y)).map (·.2)
      = (xs.flatMap g).find? f := by
  induction xs generalizing k with
  | nil => rfl
  | cons x xs ih =>
    rw [List.zipIdx_cons, List.findSome?_cons, List.flatMap_cons, List.find?_append]
    cases hx : (g x).find? f with
    | none => simpa using ih (k + 1)
    | some y => simp

theorem flatmapFilFind_correct (g : Val → List Val) (f : Val → Bool) (xs : List Val) (ex : Exec)
    (h : ex.AcceptsFind xs (fun x => (g x).any f)) :
    ((ex.reduce (flatmapFilFindTask g f) (maybeReduce minIdx)).getD none).map (·.2)
      = seqFlatmapFilFind g f xs := by
  have hm := Aux.find_main (fun p => ((g p.2).find? f).map fun y => (p.1, y)) ?_
    (fun x => (g x).any f) ?_ xs ex h
  · unfold seqFlatmapFilFind
    rw [← flatmap_seq g f xs 0]
    exact congrArg (Option.map (·.2)) hm
  · intro p r hr
    cases hx : (g p.2).find? f with
    | none => simp [hx] at hr
    | some y => simp [hx] at hr; cases hr; rfl
  · intro p hp
    simp only [List.any_eq_true] at hp
    obtain ⟨y, hy, hfy⟩ := hp
    intro hn
    simp only [Option.map_eq_none_iff, List.find?_eq_none] at hn
    exact hn y hy hfy

/-- the index reported by the sequential find is the position of the first matching element -/
theorem seqMapFilFind_spec (m : Val → Val) (f : Val → Bool) (xs : List Val) :
    seqMapFilFind m f xs
      = (xs.zipIdx 0).findSome? fun p => if f (m p.1) then some (p.2, m p.1) else none :=
  seqMapFilFind_spec' m f xs

end OrxPar
