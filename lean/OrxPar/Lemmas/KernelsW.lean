/-
  The per-element work of the three kernel families, transcribed with logged closures, and the
  closures each terminal hands to its kernel (the delegations of src/par/par_*.rs): together
  they evaluate, for every source element, exactly the logged stream `P.elem x`.
-/
import OrxPar.Lemmas.Logged
namespace OrxPar

/-- `map_fil_*` kernels, one source element:
    `let value = map(x); if filter(&value) { … value … }` -/
def mapFilStep (m : Val → W Val) (f : Val → W Bool) (x : Val) : Prod :=
  let value := m x
  let keep := f value.val
  if keep.val then .emit (value.log ++ keep.log) value.val .nil else .skip (value.log ++ keep.log) .nil

/-- `filtermap_fil_*` kernels, one source element:
    `let maybe = filter_map(x); if maybe.has_value() { let value = maybe.value(); if filter(&value) { … } }` -/
def filtermapFilStep (fm : Val → W (Option Val)) (f : Val → W Bool) (x : Val) : Prod :=
  let maybe := fm x
  match maybe.val with
  | none => .skip maybe.log .nil
  | some value =>
    let keep := f value
    if keep.val then .emit (maybe.log ++ keep.log) value .nil else .skip (maybe.log ++ keep.log) .nil

/-- `flatmap_fil_*` kernels, one source element: `flat_map(x).into_iter().filter(filter)` -/
def flatmapFilStep (g : Val → Prod) (f : Val → W Bool) (x : Val) : Prod := (g x).filterW f

/-- which kernel family a type's terminals run, with which closures (`Par.core`):
    `ParEmpty` ↦ map_fil(map_self, no_filter), `ParMap` ↦ map_fil(map, no_filter),
    `ParFilter` ↦ map_fil(map_self, filter), `ParFilterMap` ↦ filtermap_fil(fm, no_filter),
    `ParFlatMap` ↦ flatmap_fil(fm, no_filter), … -/
def Par.kernelStep : Par → Val → Prod
  | .empty _ _ => mapFilStep Par.mapSelf Par.noFilter
  | .map _ _ m => mapFilStep m Par.noFilter
  | .fil _ _ f => mapFilStep Par.mapSelf f
  | .mapFil _ _ m f => mapFilStep m f
  | .filterMap _ _ fm => filtermapFilStep fm Par.noFilter
  | .filterMapFil _ _ fm f => filtermapFilStep fm f
  | .flatMap _ _ g => flatmapFilStep g Par.noFilter
  | .flatMapFil _ _ g f => flatmapFilStep g f

/-- the kernel's per-element work is the pipeline's logged stream of that element -/
theorem Prod.filterW_noFilter_eq (s : Prod) : s.filterW Par.noFilter = s := by
  induction s with
  | nil => rfl
  | emit e v r ih =>
    simp only [Prod.filterW, ih]
    simp [Par.noFilter, pureW]
  | skip e r ih => simp only [Prod.filterW, ih]

theorem Par.kernelStep_eq_elem (P : Par) (x : Val) : P.kernelStep x = P.elem x := by
  cases P with
  | empty p s =>
    simp [Par.kernelStep, Par.elem, mapFilStep, Prod.single, Par.mapSelf, Par.noFilter, pureW]
  | map p s m =>
    simp [Par.kernelStep, Par.elem, mapFilStep, Prod.single, Prod.mapW, Par.noFilter, pureW]
  | fil p s f =>
    simp only [Par.kernelStep, Par.elem, mapFilStep, Prod.single, Prod.filterW, Par.mapSelf, pureW,
      id, List.nil_append]
    rfl
  | mapFil p s m f =>
    simp only [Par.kernelStep, Par.elem, mapFilStep, Prod.single, Prod.mapW, Prod.filterW,
      List.nil_append]
  | filterMap p s fm =>
    simp only [Par.kernelStep, Par.elem, filtermapFilStep, Prod.single, Prod.filterMapW,
      Par.noFilter, pureW, List.nil_append, List.append_nil]
    cases (fm x).val <;> simp
  | filterMapFil p s fm f =>
    simp only [Par.kernelStep, Par.elem, filtermapFilStep, Prod.single, Prod.filterMapW,
      List.nil_append]
    cases (fm x).val <;> simp [Prod.filterW]
  | flatMap p s g =>
    simp only [Par.kernelStep, Par.elem, flatmapFilStep, Prod.filterW_noFilter_eq]
  | flatMapFil p s g f =>
    simp only [Par.kernelStep, Par.elem, flatmapFilStep]

/-- the events of a parallel full-visit terminal phase, written with the kernels' own
    per-element work: each worker runs `kernelStep` on every element of its chunks, in order -/
def Par.kernelLog (P : Par) (ex : Exec) : List Event :=
  ex.order.flatMap fun t => (K.elems (ex.chunksOf t)).flatMap fun x => (P.kernelStep x).log

theorem Par.kernelLog_eq_parLog (P : Par) (ex : Exec) : P.kernelLog ex = P.parLog ex := by
  simp only [Par.kernelLog, Par.parLog, Par.kernelStep_eq_elem]

/-- a composed find predicate `filter(x) && predicate(x)` (`find_with_index`, `find` on the
    filtering types) evaluates `predicate` only on elements the chain's filter keeps, after it -/
theorem compAnd_log (f q : Val → W Bool) (x : Val) :
    (Par.compAnd f q x).log = (f x).log ++ (if (f x).val then (q x).log else []) ∧
    (Par.compAnd f q x).val = ((f x).val && (q x).val) := by
  unfold Par.compAnd
  cases h : (f x).val <;> simp [h]

/-- the find kernels of the filtering types run `compAnd filter (callW stPred q)` as their filter:
    per element that is the pipeline's stream followed by the predicate -/
theorem mapFilStep_compAnd (m : Val → W Val) (f : Val → W Bool) (q : Val → Bool) (x : Val) :
    mapFilStep m (Par.compAnd f (callW stPred q)) x
      = (mapFilStep m f x).filterW (callW stPred q) := by
  unfold mapFilStep Par.compAnd
  cases hf : (f (m x).val).val <;> cases hq : q (m x).val <;>
    simp [Prod.filterW, callW, hf, hq, List.append_assoc]

theorem filtermapFilStep_compAnd (fm : Val → W (Option Val)) (f : Val → W Bool) (q : Val → Bool)
    (x : Val) :
    filtermapFilStep fm (Par.compAnd f (callW stPred q)) x
      = (filtermapFilStep fm f x).filterW (callW stPred q) := by
  unfold filtermapFilStep Par.compAnd
  cases hm : (fm x).val with
  | none => simp [Prod.filterW, hm]
  | some v =>
    cases hf : (f v).val <;> cases hq : q v <;>
      simp [Prod.filterW, callW, hm, hf, hq, List.append_assoc]

theorem flatmapFilStep_compAnd (g : Val → Prod) (f : Val → W Bool) (q : Val → Bool) (x : Val) :
    flatmapFilStep g (Par.compAnd f (callW stPred q)) x
      = (flatmapFilStep g f x).filterW (callW stPred q) := by
  unfold flatmapFilStep
  exact Prod.filterW_compAnd f (callW stPred q) (g x)

end OrxPar

