/- A generic progress argument for fair rounds over the worker transition system. -/
import OrxPar.Lemmas.Run
namespace OrxPar
namespace Run

theorem run_cons (s : State) (t : Nat) (ts : List Nat) : run s (t :: ts) = run (step s t) ts := rfl

theorem run_append (s : State) (a b : List Nat) : run s (a ++ b) = run (run s a) b := by
  simp [run, List.foldl_append]

/-- the ingredients of a potential argument: an invariant `G`, a target `T`, a potential `μ`
    that never increases before the target is reached, and in every state short of the target
    an *active* worker whose next step — whenever it comes — lowers the potential or reaches the
    target -/
structure Progress (n : Nat) (G T : State → Prop) (μ : State → Nat)
    (Act : State → Nat → Prop) : Prop where
  gstep : ∀ s t, G s → G (step s t)
  tstep : ∀ s t, G s → T s → T (step s t)
  mono : ∀ s t, G s → ¬ T s → μ (step s t) ≤ μ s ∨ T (step s t)
  act : ∀ s, G s → ¬ T s → ∃ t, t < n ∧ Act s t
  keep : ∀ s t t', G s → ¬ T s → Act s t → t' ≠ t →
    Act (step s t') t ∨ μ (step s t') < μ s ∨ T (step s t')
  fire : ∀ s t, G s → ¬ T s → Act s t → μ (step s t) < μ s ∨ T (step s t)

namespace Progress
variable {n : Nat} {G T : State → Prop} {μ : State → Nat} {Act : State → Nat → Prop}

theorem grun (P : Progress n G T μ Act) (s : State) (r : List Nat) (h : G s) : G (run s r) := by
  induction r generalizing s with
  | nil => exact h
  | cons t ts ih => exact ih (step s t) (P.gstep s t h)

theorem trun (P : Progress n G T μ Act) (s : State) (r : List Nat) (h : G s) (ht : T s) :
    T (run s r) := by
  induction r generalizing s with
  | nil => exact ht
  | cons t ts ih => exact ih (step s t) (P.gstep s t h) (P.tstep s t h ht)

theorem mono_run (P : Progress n G T μ Act) (s : State) (r : List Nat) (h : G s) :
    T (run s r) ∨ μ (run s r) ≤ μ s := by
  induction r generalizing s with
  | nil => exact Or.inr (Nat.le_refl _)
  | cons t ts ih =>
    rw [run_cons]
    by_cases hT : T s
    · exact Or.inl (P.trun _ ts (P.gstep s t h) (P.tstep s t h hT))
    · rcases P.mono s t h hT with h1 | h1
      · rcases ih (step s t) (P.gstep s t h) with h2 | h2
        · exact Or.inl h2
        · exact Or.inr (Nat.le_trans h2 h1)
      · exact Or.inl (P.trun _ ts (P.gstep s t h) h1)

theorem act_run (P : Progress n G T μ Act) (t : Nat) (s : State) (r : List Nat) (h : G s)
    (ha : Act s t) (hr : t ∈ r) : T (run s r) ∨ μ (run s r) < μ s := by
  induction r generalizing s with
  | nil => cases hr
  | cons t' ts ih =>
    rw [run_cons]
    have hg := P.gstep s t' h
    by_cases hT : T s
    · exact Or.inl (P.trun _ ts hg (P.tstep s t' h hT))
    · by_cases htt : t' = t
      · subst htt
        rcases P.fire s t' h hT ha with h1 | h1
        · rcases P.mono_run (step s t') ts hg with h2 | h2
          · exact Or.inl h2
          · exact Or.inr (Nat.lt_of_le_of_lt h2 h1)
        · exact Or.inl (P.trun _ ts hg h1)
      · have hr' : t ∈ ts := by
          rcases List.mem_cons.1 hr with e | e
          · exact absurd e.symm htt
          · exact e
        rcases P.keep s t t' h hT ha htt with h1 | h1 | h1
        · rcases ih (step s t') hg h1 hr' with h2 | h2
          · exact Or.inl h2
          · rcases P.mono s t' h hT with h3 | h3
            · exact Or.inr (Nat.lt_of_lt_of_le h2 h3)
            · exact Or.inl (P.trun _ ts hg h3)
        · rcases P.mono_run (step s t') ts hg with h2 | h2
          · exact Or.inl h2
          · exact Or.inr (Nat.lt_of_le_of_lt h2 h1)
        · exact Or.inl (P.trun _ ts hg h1)

/-- one fair round reaches the target or lowers the potential -/
theorem round (P : Progress n G T μ Act) (s : State) (r : List Nat) (h : G s)
    (hf : ∀ t, t < n → t ∈ r) : T (run s r) ∨ μ (run s r) < μ s := by
  by_cases hT : T s
  · exact Or.inl (P.trun s r h hT)
  · obtain ⟨t, htn, ha⟩ := P.act s h hT
    exact P.act_run t s r h ha (hf t htn)

theorem rounds (P : Progress n G T μ Act) (s : State) (rs : List (List Nat)) (h : G s)
    (hf : ∀ r ∈ rs, ∀ t, t < n → t ∈ r) :
    T (run s rs.flatten) ∨ μ (run s rs.flatten) + rs.length ≤ μ s := by
  induction rs generalizing s with
  | nil => exact Or.inr (Nat.le_refl _)
  | cons r rs ih =>
    rw [List.flatten_cons, run_append]
    have hg := P.grun s r h
    rcases P.round s r h (hf r (List.mem_cons_self ..)) with h1 | h1
    · exact Or.inl (P.trun _ _ hg h1)
    · rcases ih (run s r) hg (fun r' hr' => hf r' (List.mem_cons_of_mem _ hr')) with h2 | h2
      · exact Or.inl h2
      · right
        simp only [List.length_cons]
        omega

/-- more fair rounds than the potential: the target is reached -/
theorem reach (P : Progress n G T μ Act) (s : State) (rs : List (List Nat)) (h : G s)
    (hf : ∀ r ∈ rs, ∀ t, t < n → t ∈ r) (hlen : μ s < rs.length) :
    T (run s rs.flatten) ∧ G (run s rs.flatten) := by
  refine ⟨?_, P.grun s _ h⟩
  rcases P.rounds s rs h hf with h1 | h1
  · exact h1
  · omega

end Progress

end Run
end OrxPar
