/- Lemmas about the settings arithmetic (`Model/Settings.lean`). -/
import OrxPar.Model.Settings
namespace OrxPar

/-- `div_ceil` is the mathematical ceiling -/
theorem divCeil_spec (n d : Nat) (hd : 0 < d) : n ≤ divCeil n d * d ∧ divCeil n d * d < n + d := by
  unfold divCeil
  simp only
  have h1 : n / d * d ≤ n := Nat.div_mul_le_self n d
  have h2 : n < n / d * d + d := by
    have := Nat.lt_div_mul_add (a := n) hd
    simpa [Nat.mul_comm] using this
  generalize n / d = q at *
  split
  · rename_i hr
    rw [Nat.add_mul, Nat.one_mul]
    constructor <;> omega
  · rename_i hr
    rw [Nat.add_zero]
    constructor <;> omega

theorem divCeil_pos (n d : Nat) (hn : 0 < n) (hd : 0 < d) : 0 < divCeil n d := by
  have := (divCeil_spec n d hd).1
  rcases Nat.eq_zero_or_pos (divCeil n d) with h | h
  · rw [h] at this; omega
  · exact h

theorem divCeil_le (n d : Nat) (hd : 0 < d) : divCeil n d ≤ n := by
  have h := (divCeil_spec n d hd).2
  rcases Nat.eq_zero_or_pos (divCeil n d) with h0 | h0
  · omega
  · -- (c - 1) * d + d = c * d < n + d ⇒ (c-1) * d < n ⇒ c - 1 < n
    have h3 : divCeil n d = (divCeil n d - 1) + 1 := by omega
    rw [h3, Nat.add_mul, Nat.one_mul] at h
    have h4 : divCeil n d - 1 ≤ (divCeil n d - 1) * d := Nat.le_mul_of_pos_right _ hd
    omega

theorem findChunk_pos (k : Consts) (task : Task) (len nt : Nat) (chunk : Nat) (hc : 0 < chunk) :
    0 < findChunk k task len nt chunk := by
  fun_induction findChunk k task len nt chunk with
  | case1 => exact hc
  | case2 => exact hc
  | case3 => exact hc
  | case4 chunk _ _ _ h3 ih => exact ih (by omega)

theorem findChunk_le (k : Consts) (task : Task) (len nt : Nat) (chunk : Nat) :
    findChunk k task len nt chunk ≤ chunk := by
  fun_induction findChunk k task len nt chunk with
  | case1 => exact Nat.le_refl _
  | case2 => exact Nat.le_refl _
  | case3 => exact Nat.le_refl _
  | case4 chunk _ _ _ h3 ih => exact Nat.le_trans ih (Nat.div_le_self _ _)

theorem autoChunkSize_pos (k : Consts) (hk : k.Admissible) (task) (len : Option Nat) (nt : Nat) :
    0 < autoChunkSize k task len nt := by
  unfold autoChunkSize
  split
  · decide
  · decide
  · exact findChunk_pos _ _ _ _ _ hk.2.1

theorem minChunkSize_pos (len : Option Nat) (nt c : Nat) (hnt : 0 < nt) (hc : 0 < c) :
    0 < minChunkSize len nt c := by
  unfold minChunkSize
  split
  · exact hc
  · decide
  · rename_i l hl
    simp only
    split
    · apply divCeil_pos _ _ _ hnt
      cases l with
      | zero => exact absurd rfl (hl)
      | succ n => omega
    · exact hc

/-- the chunk-size hypotheses carried by `NonZeroUsize` -/
def ChunkSize.WF : ChunkSize → Prop
  | .auto => True
  | .min c => 0 < c
  | .exact c => 0 < c

def NumThreads.WF : NumThreads → Prop
  | .auto => True
  | .max n => 0 < n

theorem ChunkSize.ofNat_wf (n : Nat) : (ChunkSize.ofNat n).WF := by
  cases n <;> simp [ChunkSize.ofNat, ChunkSize.WF]

theorem NumThreads.ofNat_wf (n : Nat) : (NumThreads.ofNat n).WF := by
  cases n <;> simp [NumThreads.ofNat, NumThreads.WF]

theorem calcChunkSizeRaw_pos (k : Consts) (hk : k.Admissible) (task) (len : Option Nat) (nt : Nat)
    (hnt : 0 < nt) (cs : ChunkSize) (hcs : cs.WF) :
    0 < (calcChunkSizeRaw k task len nt cs).inner := by
  cases cs with
  | auto => exact autoChunkSize_pos k hk task len nt
  | min c => exact minChunkSize_pos len nt c hnt hcs
  | exact c => exact hcs

/-- `validate` never fires -/
theorem calcChunkSize_eq_some (k : Consts) (hk : k.Admissible) (task) (len : Option Nat) (nt : Nat)
    (hnt : 0 < nt) (cs : ChunkSize) (hcs : cs.WF) :
    calcChunkSize k task len nt cs = some (calcChunkSizeRaw k task len nt cs) := by
  unfold calcChunkSize Resolved.validate
  simp [calcChunkSizeRaw_pos k hk task len nt hnt cs hcs]

theorem calcChunkSize_exact (k : Consts) (task) (len : Option Nat) (nt c : Nat) (hc : 0 < c) :
    calcChunkSize k task len nt (.exact c) = some (.exact c) := by
  simp [calcChunkSize, calcChunkSizeRaw, Resolved.validate, Resolved.inner, hc]

theorem calcNumThreads_le_max (k : Consts) (len : Option Nat) (n avail : Nat) :
    calcNumThreads k len (.max n) avail ≤ n := by
  unfold calcNumThreads
  simp only
  exact Nat.le_trans (Nat.min_le_left _ _) (Nat.min_le_right _ _)

theorem calcNumThreads_le_avail (k : Consts) (len : Option Nat) (nt : NumThreads) (avail : Nat) :
    calcNumThreads k len nt avail ≤ avail := by
  unfold calcNumThreads
  cases nt <;> exact Nat.min_le_right _ _

theorem calcNumThreads_le_len (k : Consts) (len : Nat) (nt : NumThreads) (avail : Nat) :
    calcNumThreads k (some len) nt avail ≤ len := by
  unfold calcNumThreads
  cases nt with
  | auto => exact Nat.min_le_left _ _
  | max n => exact Nat.le_trans (Nat.min_le_left _ _) (Nat.min_le_left _ _)

/-- `Runner::new` succeeds and yields `1 ≤ max_num_threads`, a positive chunk -/
theorem mkRunner_spec (k : Consts) (hk : k.Admissible) (p : Params) (hcs : p.chunkSize.WF)
    (task : Task) (len : Option Nat) (avail : Nat) :
    ∃ r, mkRunner k p task len avail = some r ∧ 1 ≤ r.maxThreads ∧ 0 < r.chunk.inner ∧
      r.inputLen = len ∧
      r.maxThreads = Nat.max (calcNumThreads k len p.numThreads avail) 1 ∧
      r.chunk = calcChunkSizeRaw k task len r.maxThreads p.chunkSize := by
  have hpos : 0 < Nat.max (calcNumThreads k len p.numThreads avail) 1 :=
    Nat.lt_of_lt_of_le Nat.one_pos (Nat.le_max_right _ _)
  refine ⟨⟨len, Nat.max (calcNumThreads k len p.numThreads avail) 1,
    calcChunkSizeRaw k task len (Nat.max (calcNumThreads k len p.numThreads avail) 1) p.chunkSize⟩, ?_, ?_, ?_, rfl, rfl, rfl⟩
  · unfold mkRunner
    simp only
    rw [calcChunkSize_eq_some k hk task len _ hpos p.chunkSize hcs]
    rfl
  · exact hpos
  · exact calcChunkSizeRaw_pos k hk task len _ hpos p.chunkSize hcs

/-- `next_chunk_size` neither underflows nor divides by zero when the remaining length does
    not exceed the input length and the chunk is positive -/
theorem nextChunkSize_no_panic (r : Runner) (n : Nat) (h : HasMore) (hc : 0 < r.chunk.inner)
    (hrem : ∀ rem, h = .yes rem → rem ≤ r.inputLen.getD usizeMax) :
    r.nextChunkSizePanics n h = false := by
  unfold Runner.nextChunkSizePanics
  split
  · rename_i rem
    split
    · rfl
    · split
      · rfl
      · rename_i x hx
        split
        · rfl
        · have h1 := hrem rem rfl
          have h2 : 0 < x := by simpa [hx, Resolved.inner] using hc
          simp
          constructor
          · omega
          · omega
  · rfl

/-- every chunk size `next_chunk_size` hands out is positive -/
theorem nextChunkSize_pos (r : Runner) (n : Nat) (h : HasMore) (hc : 0 < r.chunk.inner) (x : Nat)
    (hx : r.nextChunkSize n h = some x) : 0 < x := by
  unfold Runner.nextChunkSize at hx
  split at hx
  · simp at hx
  · split at hx
    · simp at hx
    · simp at hx; omega
  · split at hx
    · simp at hx
    · split at hx
      · rename_i y hy; simp at hx; simp [hy, Resolved.inner] at hc; omega
      · rename_i y hy
        simp [hy, Resolved.inner] at hc
        split at hx
        · simp at hx; omega
        · simp at hx
          subst hx
          exact Nat.mul_pos (Nat.lt_of_lt_of_le Nat.one_pos (Nat.le_max_right _ _)) hc

end OrxPar
