/-
  Transition system: workers over one shared concurrent iterator, under an adversarial
  scheduler.  One step of worker `t` is one shared access or the evaluation of one element:
    * pull a chunk of its size `c` (fails if the iterator was stopped or is exhausted),
    * evaluate the head of the chunk it holds (a *hit* makes it drop the rest of the chunk and
      go on to publish),
    * publish: `iter.skip_to_end()`,
    * finish.
  Full-visit kernels (collect, count, reduce, for_each) are the instance `hit = fun _ => false`.
  The source is `src : Nat → Val` with an optional length, so unbounded sources are covered.
  A schedule is an arbitrary list of worker ids; all workers exist from the start and may take
  their first step arbitrarily late (a superset of the interleavings real spawning allows).
-/
import OrxPar.Model.Kernels
namespace OrxPar
namespace Run

inductive Status
  | running
  | publishing
  | done
  deriving DecidableEq, Repr

structure Worker where
  c : Nat
  /-- unevaluated rest of the chunk it holds -/
  buf : List Val
  /-- source index of the head of `buf` -/
  bufPos : Nat
  status : Status
  /-- ghost: what it evaluated so far, with source indices, in order -/
  seen : List (Nat × Val)
  /-- the hit it found -/
  found : Option (Nat × Val)
  /-- ghost: the rest of the chunk it abandoned after its hit -/
  dropped : List (Nat × Val)
  deriving Repr

structure State where
  src : Nat → Val
  len : Option Nat
  hit : Val → Bool
  pos : Nat
  stopped : Bool
  ws : List Worker
  /-- ghost: the pulls, in pull order -/
  log : List Chunk

/-- the source elements at positions `[a, a + n)` -/
def slice (src : Nat → Val) (a n : Nat) : List Val := (List.range' a n).map src

/-- how many elements a pull of size `c` at `pos` yields -/
def avail (len : Option Nat) (pos c : Nat) : Nat :=
  match len with
  | none => c
  | some l => Nat.min c (l - pos)

def step (s : State) (t : Nat) : State :=
  match s.ws[t]? with
  | none => s
  | some w =>
    match w.status with
    | .done => s
    | .publishing =>
      let w' : Worker := { w with status := .done }
      { s with stopped := true, ws := s.ws.set t w' }
    | .running =>
      match w.buf with
      | x :: rest =>
        if s.hit x then
          let w' : Worker :=
            { w with buf := [], seen := w.seen ++ [(w.bufPos, x)], found := some (w.bufPos, x),
                     status := .publishing,
                     dropped := (rest.zipIdx (w.bufPos + 1)).map fun p => (p.2, p.1) }
          { s with ws := s.ws.set t w' }
        else
          let w' : Worker :=
            { w with buf := rest, bufPos := w.bufPos + 1, seen := w.seen ++ [(w.bufPos, x)] }
          { s with ws := s.ws.set t w' }
      | [] =>
        let n := avail s.len s.pos w.c
        if s.stopped || n == 0 then
          let w' : Worker := { w with status := .done }
          { s with ws := s.ws.set t w' }
        else
          let w' : Worker := { w with buf := slice s.src s.pos n, bufPos := s.pos }
          { s with pos := s.pos + w.c, ws := s.ws.set t w',
                   log := s.log ++ [⟨t, s.pos, slice s.src s.pos n⟩] }

def run (s : State) (sched : List Nat) : State := sched.foldl step s

def init (src : Nat → Val) (len : Option Nat) (hit : Val → Bool) (cs : List Nat) : State :=
  { src := src, len := len, hit := hit, pos := 0, stopped := false,
    ws := cs.map fun c => ⟨c, [], 0, .running, [], none, []⟩, log := [] }

/-- the buffered elements with their source indices -/
def Worker.bufIdx (w : Worker) : List (Nat × Val) := (w.buf.zipIdx w.bufPos).map fun p => (p.2, p.1)

/-- how much of the source has been handed out -/
def covered (s : State) : Nat :=
  match s.len with
  | none => s.pos
  | some l => Nat.min s.pos l

def AllDone (s : State) : Prop := ∀ w ∈ s.ws, w.status = .done

instance (s : State) : Decidable (AllDone s) := by unfold AllDone; infer_instance

/-- a finite list as a source -/
def ofList (xs : List Val) : Nat → Val := fun i => xs.getD i 0

end Run
end OrxPar
