/-
  Model of the terminal operations: the delegations written in src/par/par_*.rs and in the
  provided methods of `Par` (src/par_iter.rs), the `is_sequential()` dispatch inside the
  kernels' entry points, and the three `ParCollectIntoCore` implementations
  (src/par/collect_into/{vec,split_vec,fixed_vec}.rs).
-/
import OrxPar.Model.Kernels
namespace OrxPar

/-- value part of a logged closure -/
def pv {β : Type} (m : Val → W β) : Val → β := fun x => (m x).val
/-- value part of a flat-map closure -/
def pvs (g : Val → Prod) : Val → List Val := fun x => (g x).vals

/-- target kinds of `collect_into` -/
inductive Target
  | vec
  | splitVec
  | fixedVec
  deriving DecidableEq, Repr

inductive Terminal
  | collectVec
  | collect
  | collectInto (t : Target) (pre : List Val)
  | collectX
  | count
  | forEach
  | reduce (op : Val → Val → Val)
  | fold (op : Val → Val → Val) (identity : Val)
  | sum
  | min
  | max
  | minBy
  | maxBy
  | minByKey (key : Val → Nat)
  | maxByKey (key : Val → Nat)
  | find (p : Val → Bool)
  | first
  | any (p : Val → Bool)
  | all (p : Val → Bool)
  | findIdx (p : Val → Bool)
  | firstIdx

inductive Outcome
  | vals (v : List Val)
  | bag (v : List Val)        -- order unspecified (collect_x, the arguments of for_each)
  | opt (o : Option Val)
  | optIdx (o : Option (Nat × Val))
  | num (n : Nat)
  | bool (b : Bool)
  | unsupported               -- the terminal does not exist on this type
  | panic
  deriving Repr

/-- stage ids of the closures passed to terminals -/
def stForEach : Nat := 100
def stPred : Nat := 102

namespace Kern
open K

/-! ### kernel entry points (`match params.is_sequential()`) -/

def mapFilRed (p : Params) (s : Src) (m : Val → Val) (f : Val → Bool) (op : Val → Val → Val)
    (ex : Exec) : Option Val :=
  if p.isSequential then reduceList op ((s.items.map m).filter f)
  else ((ex.reduce (mapFilRedTask m f op) (maybeReduce op)).getD none)

def filtermapFilRed (p : Params) (s : Src) (fm : Val → Option Val) (f : Val → Bool)
    (op : Val → Val → Val) (ex : Exec) : Option Val :=
  if p.isSequential then
    reduceList op ((((s.items.map fm).filter (·.isSome)).filterMap id).filter f)
  else ((ex.reduce (filtermapFilRedTask fm f op) (maybeReduce op)).getD none)

def flatmapFilRed (p : Params) (s : Src) (g : Val → List Val) (f : Val → Bool)
    (op : Val → Val → Val) (ex : Exec) : Option Val :=
  if p.isSequential then reduceList op ((s.items.flatMap g).filter f)
  else ((ex.reduce (flatmapFilRedTask g f op) (maybeReduce op)).getD none)

def mapFilCnt (p : Params) (s : Src) (m : Val → Val) (f : Val → Bool) (ex : Exec) : Nat :=
  if p.isSequential then ((s.items.map m).filter f).length
  else (ex.reduce (mapFilCntTask m f) (· + ·)).getD 0

def filtermapFilCnt (p : Params) (s : Src) (fm : Val → Option Val) (f : Val → Bool) (ex : Exec) : Nat :=
  if p.isSequential then ((((s.items.map fm).filter (·.isSome)).filterMap id).filter f).length
  else (ex.reduce (filtermapFilCntTask fm f) (· + ·)).getD 0

def flatmapFilCnt (p : Params) (s : Src) (g : Val → List Val) (f : Val → Bool) (ex : Exec) : Nat :=
  if p.isSequential then ((s.items.flatMap g).filter f).length
  else (ex.reduce (flatmapFilCntTask g f) (· + ·)).getD 0

def mapFilFind (p : Params) (s : Src) (m : Val → Val) (f : Val → Bool) (ex : Exec) :
    Option (Nat × Val) :=
  if p.isSequential then seqMapFilFind m f s.items
  else ((ex.reduce (mapFilFindTask m f) (maybeReduce minIdx)).getD none)

def filtermapFilFind (p : Params) (s : Src) (fm : Val → Option Val) (f : Val → Bool) (ex : Exec) :
    Option (Nat × Val) :=
  if p.isSequential then seqFiltermapFilFind fm f s.items
  else ((ex.reduce (filtermapFilFindTask fm f) (maybeReduce minIdx)).getD none)

def flatmapFilFind (p : Params) (s : Src) (g : Val → List Val) (f : Val → Bool) (ex : Exec) :
    Option Val :=
  if p.isSequential then seqFlatmapFilFind g f s.items
  else ((ex.reduce (flatmapFilFindTask g f) (maybeReduce minIdx)).getD none).map (·.2)

/-- `map_col` on a bag that already holds `pre`: `none` = panic -/
def mapCol (p : Params) (s : Src) (m : Val → Val) (pre : List Val) (ex : Exec) : Option (List Val) :=
  if p.isSequential then some (seqMapCol m pre s.items)
  else bagFinish pre (ex.runMap (mapColTask m pre.length)).flatten

/-! ### `ParCollectIntoCore` -/

/-- `map_into` for the three targets -/
def mapInto (t : Target) (pre : List Val) (p : Params) (s : Src) (m : Val → Val) (ex : Exec) :
    Option (List Val) :=
  match t with
  | .splitVec => mapCol p s m pre ex
  | .vec | .fixedVec =>          -- FixedVec: `self.into_inner().map_into(par_map).into()`
    match s.knownLen with
    | false => (mapCol p s m [] ex).map (pre ++ ·)   -- through a fresh SplitVec, then `self.extend(split)`
    | true => mapCol p s m pre ex

/-- `map_filter_into` (all three targets: push after the existing contents) -/
def mapFilterInto (pre : List Val) (p : Params) (s : Src) (m : Val → Val) (f : Val → Bool)
    (ex : Exec) : List Val :=
  if p.isSequential then seqMapFilCol m f pre s.items
  else heapSortInto pre (ex.runMap (mapFilColTask m f))

def filtermapFilterInto (pre : List Val) (p : Params) (s : Src) (fm : Val → Option Val)
    (f : Val → Bool) (ex : Exec) : List Val :=
  if p.isSequential then seqFiltermapFilCol fm f pre s.items
  else heapSortInto pre (ex.runMap (filtermapFilColTask fm f))

def flatmapFilterInto (pre : List Val) (p : Params) (s : Src) (g : Val → List Val)
    (f : Val → Bool) (ex : Exec) : List Val :=
  if p.isSequential then seqFlatmapFilCol g f pre s.items
  else heapSortInto pre (ex.runMap (flatmapFilColTask g f))

end Kern

open Kern K in
/-- the terminals that are *required* methods of `Par` plus the inherent `*_with_index`, per type,
    with the delegations of the source.  `collect`, `collect_vec` are `collect_into` an empty
    target of the respective kind. -/
def Par.core (P : Par) (ex : Exec) : Terminal → Outcome
  | .reduce op =>
    match P with
    | .empty p s => .opt (mapFilRed p s (pv Par.mapSelf) (pv Par.noFilter) op ex)
    | .map p s m => .opt (mapFilRed p s (pv m) (pv Par.noFilter) op ex)
    | .fil p s f => .opt (mapFilRed p s (pv Par.mapSelf) (pv f) op ex)
    | .mapFil p s m f => .opt (mapFilRed p s (pv m) (pv f) op ex)
    | .filterMap p s fm => .opt (filtermapFilRed p s (pv fm) (pv Par.noFilter) op ex)
    | .filterMapFil p s fm f => .opt (filtermapFilRed p s (pv fm) (pv f) op ex)
    | .flatMap p s g => .opt (flatmapFilRed p s (pvs g) (pv Par.noFilter) op ex)
    | .flatMapFil p s g f => .opt (flatmapFilRed p s (pvs g) (pv f) op ex)
  | .count =>
    match P with
    | .empty p s => .num (mapFilCnt p s (pv Par.mapSelf) (pv Par.noFilter) ex)
    | .map p s m => .num (mapFilCnt p s (pv m) (pv Par.noFilter) ex)
    | .fil p s f => .num (mapFilCnt p s (pv Par.mapSelf) (pv f) ex)
    | .mapFil p s m f => .num (mapFilCnt p s (pv m) (pv f) ex)
    | .filterMap p s fm => .num (filtermapFilCnt p s (pv fm) (pv Par.noFilter) ex)
    | .filterMapFil p s fm f => .num (filtermapFilCnt p s (pv fm) (pv f) ex)
    | .flatMap p s g => .num (flatmapFilCnt p s (pvs g) (pv Par.noFilter) ex)
    | .flatMapFil p s g f => .num (flatmapFilCnt p s (pvs g) (pv f) ex)
  | .findIdx q =>
    match P with
    | .empty p s => .optIdx (mapFilFind p s (pv Par.mapSelf) q ex)
    | .map p s m => .optIdx (mapFilFind p s (pv m) q ex)
    | .fil p s f => .optIdx (mapFilFind p s (pv Par.mapSelf) (fun x => pv f x && q x) ex)
    | .mapFil p s m f => .optIdx (mapFilFind p s (pv m) (fun x => pv f x && q x) ex)
    | .filterMapFil p s fm f => .optIdx (filtermapFilFind p s (pv fm) (fun x => pv f x && q x) ex)
    | _ => .unsupported
  | .firstIdx =>
    match P with
    | .empty p s => .optIdx (mapFilFind p s (pv Par.mapSelf) (pv Par.noFilter) ex)
    | .map p s m => .optIdx (mapFilFind p s (pv m) (pv Par.noFilter) ex)
    | .fil p s f => .optIdx (mapFilFind p s (pv Par.mapSelf) (pv f) ex)
    | .mapFil p s m f => .optIdx (mapFilFind p s (pv m) (pv f) ex)
    | .filterMapFil p s fm f => .optIdx (filtermapFilFind p s (pv fm) (pv f) ex)
    | _ => .unsupported
  | .find q =>
    match P with
    | .empty p s => .opt ((mapFilFind p s (pv Par.mapSelf) q ex).map (·.2))
    | .map p s m => .opt ((mapFilFind p s (pv m) q ex).map (·.2))
    | .fil p s f => .opt ((mapFilFind p s (pv Par.mapSelf) (fun x => pv f x && q x) ex).map (·.2))
    | .mapFil p s m f => .opt ((mapFilFind p s (pv m) (fun x => pv f x && q x) ex).map (·.2))
    | .filterMap p s fm =>   -- `self.filter(no_filter).find(predicate)`
      .opt ((filtermapFilFind p s (pv fm) (fun x => pv Par.noFilter x && q x) ex).map (·.2))
    | .filterMapFil p s fm f =>
      .opt ((filtermapFilFind p s (pv fm) (fun x => pv f x && q x) ex).map (·.2))
    | .flatMap p s g => .opt (flatmapFilFind p s (pvs g) (fun x => pv Par.noFilter x && q x) ex)
    | .flatMapFil p s g f => .opt (flatmapFilFind p s (pvs g) (fun x => pv f x && q x) ex)
  | .first =>
    match P with
    | .empty p s => .opt ((mapFilFind p s (pv Par.mapSelf) (pv Par.noFilter) ex).map (·.2))
    | .map p s m => .opt ((mapFilFind p s (pv m) (pv Par.noFilter) ex).map (·.2))
    | .fil p s f => .opt ((mapFilFind p s (pv Par.mapSelf) (pv f) ex).map (·.2))
    | .mapFil p s m f => .opt ((mapFilFind p s (pv m) (pv f) ex).map (·.2))
    | .filterMap p s fm => .opt ((filtermapFilFind p s (pv fm) (pv Par.noFilter) ex).map (·.2))
    | .filterMapFil p s fm f => .opt ((filtermapFilFind p s (pv fm) (pv f) ex).map (·.2))
    | .flatMap p s g => .opt (flatmapFilFind p s (pvs g) (pv Par.noFilter) ex)
    | .flatMapFil p s g f => .opt (flatmapFilFind p s (pvs g) (pv f) ex)
  | .collectInto t pre =>
    match P with
    | .empty _ s => .vals (pre ++ s.items)      -- `output.seq_extend(self.iter.into_seq_iter())`
    | .map p s m =>
      match mapInto t pre p s (pv m) ex with
      | some v => .vals v
      | none => .panic
    | .fil p s f => .vals (mapFilterInto pre p s (pv Par.mapSelf) (pv f) ex)
    | .mapFil p s m f => .vals (mapFilterInto pre p s (pv m) (pv f) ex)
    | .filterMap p s fm => .vals (filtermapFilterInto pre p s (pv fm) (pv Par.noFilter) ex)
    | .filterMapFil p s fm f => .vals (filtermapFilterInto pre p s (pv fm) (pv f) ex)
    | .flatMap p s g => .vals (flatmapFilterInto pre p s (pvs g) (pv Par.noFilter) ex)
    | .flatMapFil p s g f => .vals (flatmapFilterInto pre p s (pvs g) (pv f) ex)
  | .collectX =>
    -- ParEmpty: `self.collect()`; the others end in Par{Map,FilterMap,FlatMap}Filter::collect_x:
    -- sequential ⇒ `SplitVec::from(self.collect())`, else the `*_col_x` kernel
    match P with
    | .empty _ s => .bag s.items
    | .map p s m =>
      if p.isSequential then .bag (mapFilterInto [] p s (pv m) (pv Par.noFilter) ex)
      else .bag (appendFragments (ex.runMap (mapFilColXTask (pv m) (pv Par.noFilter))))
    | .fil p s f =>
      if p.isSequential then .bag (mapFilterInto [] p s (pv Par.mapSelf) (pv f) ex)
      else .bag (appendFragments (ex.runMap (mapFilColXTask (pv Par.mapSelf) (pv f))))
    | .mapFil p s m f =>
      if p.isSequential then .bag (mapFilterInto [] p s (pv m) (pv f) ex)
      else .bag (appendFragments (ex.runMap (mapFilColXTask (pv m) (pv f))))
    | .filterMap p s fm =>
      if p.isSequential then .bag (filtermapFilterInto [] p s (pv fm) (pv Par.noFilter) ex)
      else .bag (appendFragments (ex.runMap (filtermapFilColXTask (pv fm) (pv Par.noFilter))))
    | .filterMapFil p s fm f =>
      if p.isSequential then .bag (filtermapFilterInto [] p s (pv fm) (pv f) ex)
      else .bag (appendFragments (ex.runMap (filtermapFilColXTask (pv fm) (pv f))))
    | .flatMap p s g =>
      if p.isSequential then .bag (flatmapFilterInto [] p s (pvs g) (pv Par.noFilter) ex)
      else .bag (appendFragments (ex.runMap (flatmapFilColXTask (pvs g) (pv Par.noFilter))))
    | .flatMapFil p s g f =>
      if p.isSequential then .bag (flatmapFilterInto [] p s (pvs g) (pv f) ex)
      else .bag (appendFragments (ex.runMap (flatmapFilColXTask (pvs g) (pv f))))
  | _ => .unsupported

/-- `Ordering`-based selections of src/par_iter.rs -/
def selMinBy (key : Val → Nat) (x y : Val) : Val := if key x ≤ key y then x else y   -- Less | Equal => x
def selMaxBy (key : Val → Nat) (x y : Val) : Val := if key x > key y then x else y   -- Greater => x, Less | Equal => y (the last maximal element, as Iterator::max_by)

/-- all terminals: the provided methods of the trait reduce to the core ones -/
def Par.term (P : Par) (ex : Exec) : Terminal → Outcome
  | .collectVec => P.core ex (.collectInto .vec [])
  | .collect => P.core ex (.collectInto .splitVec [])
  | .fold op identity =>
    match P.core ex (.reduce op) with
    | .opt o => .opt (some (o.getD identity))
    | o => o
  | .sum =>
    match P.core ex (.reduce (fun x y => (x + y) % 2 ^ 64)) with
    | .opt o => .opt (some (o.getD 0))
    | o => o
  | .min => P.core ex (.reduce Nat.min)
  | .max => P.core ex (.reduce Nat.max)
  | .minBy => P.core ex (.reduce (selMinBy id))
  | .maxBy => P.core ex (.reduce (selMaxBy id))
  | .minByKey key => P.core ex (.reduce (selMinBy key))
  | .maxByKey key => P.core ex (.reduce (selMaxBy key))
  | .any q =>
    match P.core ex (.find q) with
    | .opt o => .bool o.isSome
    | o => o
  | .all q =>
    match P.core ex (.find fun x => !q x) with
    | .opt o => .bool o.isNone
    | o => o
  | .forEach =>
    -- `self.map(|x| f(x)).count()`; the observable result is the multiset of arguments of `f`
    let P' := (P.applyT (.map stForEach fun _ => 0)).1
    match P'.core ex .count with
    | .num _ => .bag ((P'.stream.log.filter (·.stage == stForEach)).map (·.arg))
    | o => o
  | t => P.core ex t

/-! ### specification of the terminals on the sequential stream -/

def specTerm (xs : List Val) : Terminal → Outcome
  | .collectVec | .collect => .vals xs
  | .collectInto _ pre => .vals (pre ++ xs)
  | .collectX | .forEach => .bag xs
  | .count => .num xs.length
  | .reduce op => .opt (K.reduceList op xs)
  | .fold op identity => .opt (some ((K.reduceList op xs).getD identity))
  | .sum => .opt (some ((K.reduceList (fun x y => (x + y) % 2 ^ 64) xs).getD 0))
  | .min => .opt (K.reduceList Nat.min xs)
  | .max => .opt (K.reduceList Nat.max xs)
  | .minBy => .opt (K.reduceList (selMinBy id) xs)
  | .maxBy => .opt (K.reduceList (selMaxBy id) xs)
  | .minByKey key => .opt (K.reduceList (selMinBy key) xs)
  | .maxByKey key => .opt (K.reduceList (selMaxBy key) xs)
  | .find q => .opt (xs.find? q)
  | .first => .opt xs.head?
  | .any q => .bool (xs.any q)
  | .all q => .bool (xs.all q)
  | .findIdx _ | .firstIdx => .unsupported   -- see `specIdx`

/-- specification of the `*_with_index` terminals: the first source position (of the current
    phase) whose pipeline output satisfies the predicate, with that output -/
def specIdx (P : Par) (q : Val → Bool) : Option (Nat × Val) :=
  (P.src.items.zipIdx 0).findSome? fun p => ((P.elem p.1).vals.find? q).map fun v => (p.2, v)

end OrxPar
