/-
  Model of the spawning thread of `Runner::run / run_map / reduce` (src/core/runner.rs):
  the `'lag_period` loop with its inner `for _ in 0..LAG_PERIODICITY` loop, the chunk-size
  update after every period, and the single final spawn.  The environment (what
  `iter.has_more()` returns at each call, i.e. how far the workers have progressed) is an
  arbitrary stream `Nat → HasMore`, indexed by the number of calls made so far.
-/
import OrxPar.Model.Settings
namespace OrxPar

/-- state of the spawning thread; `workers` = chunk handed to each worker, in spawn order;
    `calls` = number of `has_more()` observations consumed so far -/
structure Sp where
  workers : List Nat
  chunk : Nat
  calls : Nat

/-- the `for _ in 0..LAG` loop: returns the state and whether `break 'lag_period` was taken -/
def inner (r : Runner) (env : Nat → HasMore) : Nat → Sp → Sp × Bool
  | 0, s => (s, false)
  | k + 1, s =>
    if r.doSpawn s.workers.length (env s.calls)
    then inner r env k { s with workers := s.workers ++ [s.chunk], calls := s.calls + 1 }
    else ({ s with calls := s.calls + 1 }, true)

/-- the `'lag_period` loop, with fuel; returns `none` if the fuel did not suffice -/
def outer (r : Runner) (lag : Nat) (env : Nat → HasMore) : Nat → Sp → Option Sp
  | 0, _ => none
  | f + 1, s =>
    match inner r env lag s with
    | (s', true) => some s'
    | (s', false) =>
      match r.nextChunkSize s'.workers.length (env s'.calls) with
      | none => some { s' with calls := s'.calls + 1 }
      | some c => outer r lag env f { s' with chunk := c, calls := s'.calls + 1 }

/-- `Runner::run`: the loop, then exactly one more spawn -/
def spRunFuel (r : Runner) (lag : Nat) (env : Nat → HasMore) (fuel : Nat) : Option Sp :=
  (outer r lag env fuel ⟨[], r.chunk.inner, 0⟩).map fun s => { s with workers := s.workers ++ [s.chunk] }

/-- `Runner::run` with enough fuel for every environment when `lag ≥ 1` (`outer_terminates`) -/
def spRun (r : Runner) (lag : Nat) (env : Nat → HasMore) : Option Sp :=
  spRunFuel r lag env (r.maxThreads + 1)


end OrxPar
