/-
  Ownership bookkeeping of the `unsafe` protocols of orx-parallel, at the level of memory
  cells.  Every owned value is a token (a unique natural number).
  * `heap_sort_into_vec` / `heap_sort_into_pinned_vec` (src/core/map_fil_col.rs): the workers'
    vectors are read with raw `ptr.add(idx).read()` (a bitwise copy that leaves the cell
    logically moved-out) and finally truncated with `set_len(0)`, so that dropping the vectors
    drops no element.
  * `map_col` (src/core/map_col.rs): positional writes into a `ConcurrentOrderedBag`,
    `unwrap_only_if_counts_match`, and what happens to the bag when a closure panics: the
    dependency's drop rule treats every position up to the *capacity* as initialised when the
    counts do not match (read from orx-pinned-concurrent-col 2.18); since the `fix:` commit the bag
    is held in `ManuallyDrop` during the run and is leaked on unwinding.
  * the owning source `ConIterOfVec` (dependency, modelled): `take` moves a cell out,
    `skip_to_end` drops the unreserved tail in place, `Drop` drops what was never reserved.
  A `Ledger` records what was handed to the caller, what was dropped, and every *bad* event:
  reading or dropping a cell that is not initialised (never written, or already moved out).
-/
import OrxPar.Model.Kernels
namespace OrxPar
namespace Res

inductive Cell
  | init (tok : Nat)
  | moved
  | uninit
  deriving DecidableEq, Repr

structure Ledger where
  /-- tokens now owned by the caller (in the output collection) -/
  out : List Nat
  /-- tokens dropped -/
  dropped : List Nat
  /-- tokens neither handed out nor dropped (leaked) -/
  leaked : List Nat
  /-- reads or drops of cells that hold no value -/
  bad : Nat
  deriving Repr

def Ledger.empty : Ledger := ⟨[], [], [], 0⟩

/-- `ptr.read()` of a cell: yields its token and leaves it moved-out; reading a cell without a
    value is a bad event -/
def readCell (c : Cell) : Option Nat × Cell × Nat :=
  match c with
  | .init t => (some t, .moved, 0)
  | .moved => (none, .moved, 1)
  | .uninit => (none, .uninit, 1)

/-- dropping a cell in place -/
def dropCell (c : Cell) : List Nat × Nat :=
  match c with
  | .init t => ([t], 0)
  | _ => ([], 1)

/-- tokens still held by a list of cells -/
def held (cs : List Cell) : List Nat := cs.filterMap fun c => match c with | .init t => some t | _ => none

/-! ### heap_sort_into_vec -/

/-- a worker's vector: keys (plain `Copy` data) and the cells holding the values -/
abbrev CVec := List (Key × Cell)

structure HS where
  vecs : List CVec
  indices : List Nat
  out : List Nat
  bad : Nat

/-- the vector whose *current* element (`vectors[v][indices[v]]`) has a minimal key -/
def HS.selMin (h : HS) : Option Nat :=
  let cand := (List.range h.vecs.length).filterMap fun v =>
    match (h.vecs.getD v [])[h.indices.getD v 0]? with
    | some x => some (v, x.1)
    | none => none
  match cand with
  | [] => none
  | c :: cs => some (cs.foldl (fun best x => if Key.lt x.2 best.2 then x else best) c).1

/-- one iteration of the `while let Some(v) = curr_v` loop -/
def HS.step (h : HS) : Option HS :=
  match h.selMin with
  | none => none
  | some v =>
    let idx := h.indices.getD v 0
    let vec := h.vecs.getD v []
    match vec[idx]? with
    | none => none
    | some (k, cell) =>
      let (tok, cell', b) := readCell cell
      some { vecs := h.vecs.set v (vec.set idx (k, cell'))
             indices := h.indices.set v (idx + 1)
             out := h.out ++ tok.toList
             bad := h.bad + b }

def HS.loop : Nat → HS → HS
  | 0, h => h
  | n + 1, h =>
    match h.step with
    | none => h
    | some h' => HS.loop n h'

/-- the whole function: the loop, then `set_len(0)` on every vector (when `setLen0`), then the
    vectors go out of scope.  Without `set_len(0)` the vectors' drop would drop every cell. -/
def heapSort (setLen0 : Bool) (pre : List Nat) (vecs : List CVec) : Ledger :=
  let h := HS.loop (vecs.map List.length).sum ⟨vecs, vecs.map fun _ => 0, [], 0⟩
  let cells := h.vecs.flatten.map (·.2)
  if setLen0 then
    { out := pre ++ h.out, dropped := [], leaked := held cells, bad := h.bad }
  else
    let ds := cells.map dropCell
    { out := pre ++ h.out, dropped := (ds.map (·.1)).flatten, leaked := [], bad := h.bad + (ds.map (·.2)).sum }

/-! ### the ordered bag of map_col -/

structure Bag where
  cells : List Cell        -- capacity many
  numPushed : Nat
  len : Nat                -- max written position + 1 (at least the initial length)
  bad : Nat
  leaked : List Nat

/-- a bag over a vector that already holds `pre`, with room for `extra` more -/
def Bag.new (pre : List Nat) (extra : Nat) : Bag :=
  ⟨pre.map .init ++ List.replicate extra .uninit, pre.length, pre.length, 0, []⟩

/-- `set_value(pos, tok)` / one element of `set_values`: a raw write; overwriting a cell that
    holds a value leaks that value, writing outside the capacity is a bad event -/
def Bag.write (b : Bag) (pos tok : Nat) : Bag :=
  match b.cells[pos]? with
  | none => { b with bad := b.bad + 1, leaked := tok :: b.leaked }
  | some c =>
    { b with cells := b.cells.set pos (Cell.init tok)
             numPushed := b.numPushed + 1
             len := Nat.max b.len (pos + 1)
             leaked := (match c with | .init t => [t] | _ => []) ++ b.leaked }

/-- normal completion: `into_inner().unwrap_only_if_counts_match()`; the result owns the first
    `len` cells, all of which are then treated as initialised -/
def Bag.finish (b : Bag) : Option Ledger :=
  if b.numPushed == b.len then
    let cs := b.cells.take b.len
    some { out := held cs, dropped := [], leaked := b.leaked,
           bad := b.bad + (cs.filter fun c => match c with | .init _ => false | _ => true).length }
  else none

/-- unwinding with the bag in `ManuallyDrop` (the `fix:` commit): nothing is dropped -/
def Bag.unwindGuarded (b : Bag) : Ledger :=
  { out := [], dropped := [], leaked := held b.cells ++ b.leaked, bad := b.bad }

/-- unwinding as in the pinned source: the bag is dropped; when the counts do not match the
    dependency drops every position up to the capacity -/
def Bag.unwindUnguarded (b : Bag) : Ledger :=
  let upto := if b.numPushed == b.len then b.len else b.cells.length
  let ds := (b.cells.take upto).map dropCell
  { out := [], dropped := (ds.map (·.1)).flatten, leaked := held (b.cells.drop upto) ++ b.leaked,
    bad := b.bad + (ds.map (·.2)).sum }

/-! ### the owning source (dependency, modelled) -/

structure VecSrc where
  cells : List Cell
  counter : Nat           -- positions `< counter` are reserved by some worker
  dropped : List Nat
  bad : Nat

def VecSrc.new (toks : List Nat) : VecSrc := ⟨toks.map .init, 0, [], 0⟩

/-- a worker takes the elements it reserved: `[start, start + n)` are moved out -/
def VecSrc.take (s : VecSrc) (start n : Nat) : VecSrc × List Nat :=
  (List.range n).foldl (fun (acc : VecSrc × List Nat) i =>
    let (tok, cell', b) := readCell (acc.1.cells.getD (start + i) .uninit)
    ({ acc.1 with cells := acc.1.cells.set (start + i) cell', bad := acc.1.bad + b }, acc.2 ++ tok.toList)) (s, [])

/-- `reserve c`: `fetch_add` -/
def VecSrc.reserve (s : VecSrc) (c : Nat) : VecSrc × Nat := ({ s with counter := s.counter + c }, s.counter)

def VecSrc.dropRange (s : VecSrc) (a b : Nat) : VecSrc :=
  (List.range (b - a)).foldl (fun acc i =>
    let c := acc.cells.getD (a + i) .uninit
    let (ts, bd) := dropCell c
    { acc with cells := acc.cells.set (a + i) .moved, dropped := acc.dropped ++ ts, bad := acc.bad + bd }) s

/-- `skip_to_end`: `fetch_max(len)`; the unreserved tail is dropped in place -/
def VecSrc.skipToEnd (s : VecSrc) : VecSrc :=
  let before := s.counter
  let s' := { s with counter := Nat.max s.counter s.cells.length }
  if before < s.cells.length then s'.dropRange before s.cells.length else s'

/-- `Drop`: what was never reserved is dropped -/
def VecSrc.drop (s : VecSrc) : VecSrc :=
  s.dropRange (Nat.min s.counter s.cells.length) s.cells.length

end Res
end OrxPar
