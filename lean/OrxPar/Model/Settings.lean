/-
  Model of the pure decision logic of orx-parallel 1.16.0:
    src/num_threads.rs, src/chunk_size.rs, src/params.rs,
    src/core/runner_settings/{num_threads,chunk_size,utils}.rs,
    src/core/runner.rs (Runner::new, do_spawn, next_chunk_size*).
  `usize` is `Nat`; the places where the Rust code would panic (division by zero,
  subtraction underflow, the `validate` assertion) are made explicit as `…Panics` predicates
  or `Option` results, never silently totalised.  This file imports nothing.
-/
namespace OrxPar

/-- `usize::MAX` on the 64-bit targets the harness runs on -/
def usizeMax : Nat := 2 ^ 64 - 1

/-- `NumThreads` (src/num_threads.rs); `max n` carries a `NonZeroUsize`, i.e. `n ≥ 1` -/
inductive NumThreads
  | auto
  | max (n : Nat)
  deriving DecidableEq, Repr, Inhabited

/-- `ChunkSize` (src/chunk_size.rs); `min c`/`exact c` carry a `NonZeroUsize` -/
inductive ChunkSize
  | auto
  | min (c : Nat)
  | exact (c : Nat)
  deriving DecidableEq, Repr, Inhabited

/-- `impl From<usize> for NumThreads` -/
def NumThreads.ofNat : Nat → NumThreads
  | 0 => .auto
  | n + 1 => .max (n + 1)

/-- `impl From<usize> for ChunkSize` -/
def ChunkSize.ofNat : Nat → ChunkSize
  | 0 => .auto
  | n + 1 => .exact (n + 1)

/-- `Params` (src/params.rs); `Default` is `Auto/Auto` -/
structure Params where
  numThreads : NumThreads := .auto
  chunkSize : ChunkSize := .auto
  deriving DecidableEq, Repr, Inhabited

/-- `Params::is_sequential`: `self.num_threads == NumThreads::sequential()` (= `Max(1)`) -/
def Params.isSequential (p : Params) : Bool := p.numThreads == .max 1

/-- `Params::with_num_threads` -/
def Params.withNumThreads (p : Params) (v : NumThreads) : Params :=
  { numThreads := v, chunkSize := p.chunkSize }

/-- `Params::with_chunk_size` -/
def Params.withChunkSize (p : Params) (v : ChunkSize) : Params :=
  { numThreads := p.numThreads, chunkSize := v }

/-- the heuristic constants of the runner; read from the code at run time by the harness
    (`LAG_PERIODICITY`, `INITIAL_CHUNK_SIZE`, `DESIRED_MIN_CHUNK_SIZE`, `MAX_UNSET_NUM_THREADS`
    and the three multipliers of `min_required_len`) -/
structure Consts where
  lag : Nat
  initialChunk : Nat
  desiredMinChunk : Nat
  maxUnset : Nat
  mulCollect : Nat
  mulEarly : Nat
  mulReduce : Nat
  deriving DecidableEq, Repr

/-- the values in the pinned source -/
def Consts.pinned : Consts :=
  { lag := 4, initialChunk := 2 ^ 20, desiredMinChunk := 64, maxUnset := 8,
    mulCollect := 4, mulEarly := 8, mulReduce := 4 }

/-- what the theorems need of the constants -/
def Consts.Admissible (k : Consts) : Prop := 1 ≤ k.lag ∧ 1 ≤ k.initialChunk ∧ 1 ≤ k.maxUnset

instance (k : Consts) : Decidable k.Admissible := by unfold Consts.Admissible; infer_instance

/-- `ParTask` -/
inductive Task
  | collect
  | earlyReturn
  | reduce
  deriving DecidableEq, Repr

/-- `ResolvedChunkSize` -/
inductive Resolved
  | min (c : Nat)
  | exact (c : Nat)
  deriving DecidableEq, Repr

def Resolved.inner : Resolved → Nat
  | .min c => c
  | .exact c => c

def Resolved.isExact : Resolved → Bool
  | .min _ => false
  | .exact _ => true

/-- `runner_settings::utils::div_ceil`; the Rust code panics for `divider = 0`
    (see `divCeilPanics`) -/
def divCeil (number divider : Nat) : Nat :=
  let x := number / divider
  let remainder := number - x * divider
  x + if remainder > 0 then 1 else 0

def divCeilPanics (divider : Nat) : Bool := divider == 0

/-- `num_threads::calc_num_threads` with `available_parallelism() = Ok(avail)`.
    (The `Err` branch hits a `debug_assert!(false)` and is not modelled.) -/
def calcNumThreads (k : Consts) (inputLen : Option Nat) (nt : NumThreads) (avail : Nat) : Nat :=
  match nt with
  | .auto => Nat.min (inputLen.getD k.maxUnset) avail
  | .max x => Nat.min (Nat.min (inputLen.getD usizeMax) x) avail

/-- `chunk_size::min_required_len` -/
def minRequiredLen (k : Consts) (task : Task) (oneRoundLen : Nat) : Nat :=
  match task with
  | .collect => oneRoundLen * k.mulCollect
  | .reduce => oneRoundLen * k.mulReduce
  | .earlyReturn => oneRoundLen * k.mulEarly

/-- the `loop` of `auto_chunk_size::find_chunk_size`, started from `chunk`.
    The Rust loop exits on `chunk_size == 1`; for `chunk = 0` (excluded by `Consts.Admissible`)
    it would spin forever, the model returns 0 there. -/
def findChunk (k : Consts) (task : Task) (len numThreads : Nat) (chunk : Nat) : Nat :=
  let oneRoundLen := chunk * numThreads
  if len ≥ minRequiredLen k task oneRoundLen then chunk
  else if len ≥ oneRoundLen ∧ chunk ≤ k.desiredMinChunk then chunk
  else if chunk ≤ 1 then chunk
  else findChunk k task len numThreads (chunk / 2)
termination_by chunk
decreasing_by omega

/-- `chunk_size::auto_chunk_size` -/
def autoChunkSize (k : Consts) (task : Task) (inputLen : Option Nat) (maxNumThreads : Nat) : Nat :=
  match inputLen with
  | none => 1
  | some 0 => 1
  | some len => findChunk k task len maxNumThreads k.initialChunk

/-- `chunk_size::min_chunk_size` (with the saturating product of the `fix:` commit) -/
def minChunkSize (inputLen : Option Nat) (maxNumThreads chunkSize : Nat) : Nat :=
  match inputLen with
  | none => chunkSize
  | some 0 => 1
  | some len =>
    let oneRoundLen := Nat.min (maxNumThreads * chunkSize) usizeMax
    if oneRoundLen > len then divCeil len maxNumThreads else chunkSize

/-- `calc_chunk_size` before `.validate()` -/
def calcChunkSizeRaw (k : Consts) (task : Task) (inputLen : Option Nat) (maxNumThreads : Nat)
    (cs : ChunkSize) : Resolved :=
  match cs with
  | .auto => .min (autoChunkSize k task inputLen maxNumThreads)
  | .min x => .min (minChunkSize inputLen maxNumThreads x)
  | .exact x => .exact x

/-- `ResolvedChunkSize::validate`: `none` = the assertion "Chunk size must be positive" fires -/
def Resolved.validate (r : Resolved) : Option Resolved := if r.inner > 0 then some r else none

/-- `chunk_size::calc_chunk_size` -/
def calcChunkSize (k : Consts) (task : Task) (inputLen : Option Nat) (maxNumThreads : Nat)
    (cs : ChunkSize) : Option Resolved :=
  (calcChunkSizeRaw k task inputLen maxNumThreads cs).validate

/-- `Runner` (without the unused `_task`) -/
structure Runner where
  inputLen : Option Nat
  maxThreads : Nat
  chunk : Resolved
  deriving DecidableEq, Repr

/-- `Runner::new`; `none` = `validate` panics -/
def mkRunner (k : Consts) (p : Params) (task : Task) (inputLen : Option Nat) (avail : Nat) :
    Option Runner :=
  let maxNumThreads := Nat.max (calcNumThreads k inputLen p.numThreads avail) 1
  (calcChunkSize k task inputLen maxNumThreads p.chunkSize).map fun c =>
    { inputLen := inputLen, maxThreads := maxNumThreads, chunk := c }

/-- `orx_concurrent_iter::HasMore` -/
inductive HasMore
  | yes (n : Nat)
  | maybe
  | no
  deriving DecidableEq, Repr

/-- `Runner::do_spawn` -/
def Runner.doSpawn (r : Runner) (numSpawned : Nat) (h : HasMore) : Bool :=
  if numSpawned ≥ r.maxThreads - 1 then false else h != .no

/-- `Runner::next_chunk_size` with `next_chunk_size_unknown_len` / `next_chunk_size_known_len` -/
def Runner.nextChunkSize (r : Runner) (numSpawned : Nat) (h : HasMore) : Option Nat :=
  match h with
  | .no => none
  | .maybe => if numSpawned ≥ r.maxThreads - 1 then none else some r.chunk.inner
  | .yes remaining =>
    if numSpawned ≥ r.maxThreads - 1 then none else
    match r.chunk with
    | .exact x => some x
    | .min x =>
      match numSpawned with
      | 0 => some x
      | n + 1 =>
        let len := r.inputLen.getD usizeMax
        let done := len - remaining
        let donePerThread := done / (n + 1)
        some (Nat.max (donePerThread / x) 1 * x)

/-- the inputs on which `next_chunk_size` panics in Rust (debug build): `len - remaining_len`
    underflows, or `done_per_thread / x` divides by zero -/
def Runner.nextChunkSizePanics (r : Runner) (numSpawned : Nat) (h : HasMore) : Bool :=
  match h with
  | .yes remaining =>
    if numSpawned ≥ r.maxThreads - 1 then false else
    match r.chunk with
    | .exact _ => false
    | .min x =>
      match numSpawned with
      | 0 => false
      | _ + 1 => decide (remaining > r.inputLen.getD usizeMax) || x == 0
  | _ => false

end OrxPar
