/-
  Logged evaluation.  User closures are pure functions of their argument; every invocation is
  recorded as an `Event` (stage id, argument).  `W α` is a value together with the events its
  computation produced (a writer monad); `Prod` is a lazy logged stream: what a std iterator
  chain yields for one source element, with the events each `next()` produces.
  This file imports nothing.
-/
namespace OrxPar

abbrev Val := Nat

/-- one invocation of the user closure of stage `stage` on `arg` -/
structure Event where
  stage : Nat
  arg : Val
  deriving DecidableEq, Repr

structure W (α : Type) where
  val : α
  log : List Event

/-- a user closure of stage `k` -/
def callW {β : Type} (k : Nat) (f : Val → β) (x : Val) : W β := ⟨f x, [⟨k, x⟩]⟩

/-- a library-internal function that is not a user closure (`map_self`, `no_filter`): no event -/
def pureW {β : Type} (f : Val → β) (x : Val) : W β := ⟨f x, []⟩

/-- lazy logged stream: `next()` logs `e` and yields `v`, or logs `e` and goes on -/
inductive Prod
  | nil
  | emit (e : List Event) (v : Val) (rest : Prod)
  | skip (e : List Event) (rest : Prod)

namespace Prod

def ofList : List Val → Prod
  | [] => .nil
  | x :: xs => .emit [] x (ofList xs)

/-- the stream of one source element -/
def single (x : Val) : Prod := .emit [] x .nil

/-- the stream of a closure call returning a collection: the call is logged when the stream is
    first advanced, iterating over the returned collection is silent -/
def ofCall (e : List Event) : List Val → Prod
  | [] => .skip e .nil
  | y :: ys => .emit e y (ofList ys)

def append : Prod → Prod → Prod
  | .nil, t => t
  | .emit e v r, t => .emit e v (append r t)
  | .skip e r, t => .skip e (append r t)

/-- full consumption: the values … -/
def vals : Prod → List Val
  | .nil => []
  | .emit _ v r => v :: r.vals
  | .skip _ r => r.vals

/-- … and the events, in evaluation order -/
def log : Prod → List Event
  | .nil => []
  | .emit e _ r => e ++ r.log
  | .skip e r => e ++ r.log

/-- `Iterator::next` / `find(|_| true)`: the first value and exactly the events up to it -/
def first : Prod → Option Val × List Event
  | .nil => (none, [])
  | .emit e v _ => (some v, e)
  | .skip e r => let (o, l) := r.first; (o, e ++ l)

/-- `iter.map(m)` -/
def mapW (m : Val → W Val) : Prod → Prod
  | .nil => .nil
  | .emit e v r => let w := m v; .emit (e ++ w.log) w.val (r.mapW m)
  | .skip e r => .skip e (r.mapW m)

/-- `iter.filter(p)` -/
def filterW (p : Val → W Bool) : Prod → Prod
  | .nil => .nil
  | .emit e v r =>
    let w := p v
    if w.val then .emit (e ++ w.log) v (r.filterW p) else .skip (e ++ w.log) (r.filterW p)
  | .skip e r => .skip e (r.filterW p)

/-- `iter.filter_map(h)` -/
def filterMapW (h : Val → W (Option Val)) : Prod → Prod
  | .nil => .nil
  | .emit e v r =>
    let w := h v
    match w.val with
    | some y => .emit (e ++ w.log) y (r.filterMapW h)
    | none => .skip (e ++ w.log) (r.filterMapW h)
  | .skip e r => .skip e (r.filterMapW h)

/-- prefix the events `e` to whatever the stream does first (`e` happened before it was advanced) -/
def prefixLog (e : List Event) : Prod → Prod
  | .nil => if e.isEmpty then .nil else .skip e .nil
  | .emit e' v r => .emit (e ++ e') v r
  | .skip e' r => .skip (e ++ e') r

/-- `iter.flat_map(g)` where `g` yields a lazy logged stream -/
def flatMapW (g : Val → Prod) : Prod → Prod
  | .nil => .nil
  | .emit e v r => append (prefixLog e (g v)) (r.flatMapW g)
  | .skip e r => .skip e (r.flatMapW g)

/-- the whole pipeline over a source: per-element streams one after the other -/
def bindList (xs : List Val) (g : Val → Prod) : Prod :=
  match xs with
  | [] => .nil
  | x :: xs => append (g x) (bindList xs g)

end Prod
end OrxPar
