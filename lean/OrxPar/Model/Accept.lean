/-
  Accepted executions: which (chunk assignment, thread order) pairs the theorems quantify over.
  An assignment lists the pulled chunks in increasing begin order.  The concurrent iterator's
  contract (orx-concurrent-iter) is that pulls hand out consecutive, disjoint index blocks in
  increasing order, each with the elements at those positions; `Tiles asg p xs` says exactly
  that for the part `xs` of the source starting at position `p`.  Which worker pulled which
  chunk, how long each chunk is, how many workers exist and in which order they were spawned is
  arbitrary.
-/
import OrxPar.Model.Kernels
namespace OrxPar

/-- the chunks, in begin order, tile `xs` starting at source position `p` -/
def Tiles : List Chunk → Nat → List Val → Prop
  | [], _, xs => xs = []
  | c :: cs, p, xs =>
    c.start = p ∧ c.items ≠ [] ∧ ∃ rest, xs = c.items ++ rest ∧ Tiles cs (p + c.items.length) rest

/-- a full-visit execution of one runner run over the source `xs` -/
structure Exec.Accepts (ex : Exec) (xs : List Val) : Prop where
  tiles : Tiles ex.asg 0 xs
  nodup : ex.order.Nodup
  tids : ∀ c ∈ ex.asg, c.tid ∈ ex.order

/-- an execution of a short-circuit kernel: the evaluated chunks tile a prefix `xs.take n`
    of the source, and either that prefix is everything or it contains a hit
    (`hit x` = the pipeline output of element `x` satisfies the predicate).
    Justification (T-stop, `Model/Run.lean`): pulls stop only after some worker found a match
    and called `skip_to_end`; a worker evaluates a pulled chunk up to its first match. -/
structure Exec.AcceptsFindAt (ex : Exec) (xs : List Val) (hit : Val → Bool) (n : Nat) : Prop where
  tiles : Tiles ex.asg 0 (xs.take n)
  nodup : ex.order.Nodup
  tids : ∀ c ∈ ex.asg, c.tid ∈ ex.order
  covers : xs.length ≤ n ∨ ∃ x ∈ xs.take n, hit x = true

def Exec.AcceptsFind (ex : Exec) (xs : List Val) (hit : Val → Bool) : Prop :=
  ∃ n, ex.AcceptsFindAt xs hit n

end OrxPar
