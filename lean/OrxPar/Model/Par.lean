/-
  Model of the transformation algebra of orx-parallel: the eight iterator types
  (src/par/par_{empty,map,fil,map_fil,filtermap,filtermap_fil,flatmap,flatmap_fil}.rs),
  their 8×4 transformation sites with the composed closures transcribed one by one, the two
  setters, and `params()`.  Closures are logged (`Model/Stream.lean`).
  The 8 sites that collect the upstream stage eagerly (`self.collect_vec()` inside the
  transformation) evaluate it here with the specification evaluation and record its events as
  *construction effects*; by C01/C05 every parallel execution of that stage yields the same
  values and the same multiset of events.
-/
import OrxPar.Model.Settings
import OrxPar.Model.Stream
namespace OrxPar

/-- the source handed to `par()/into_par()`: its elements and whether its length is known up
    front (`try_get_len()`) -/
structure Src where
  items : List Val
  knownLen : Bool
  deriving Repr

/-- a transformation or a setter, as the user writes it; `k` is the stage id used in events -/
inductive Op
  | map (k : Nat) (f : Val → Val)
  | filter (k : Nat) (p : Val → Bool)
  | flatMap (k : Nat) (g : Val → List Val)
  | filterMap (k : Nat) (h : Val → Option Val)
  | numThreads (v : NumThreads)
  | chunkSize (v : ChunkSize)

/-- one constructor per Rust type; fields = the struct's fields -/
inductive Par
  | empty (p : Params) (s : Src)
  | map (p : Params) (s : Src) (m : Val → W Val)
  | fil (p : Params) (s : Src) (f : Val → W Bool)
  | mapFil (p : Params) (s : Src) (m : Val → W Val) (f : Val → W Bool)
  | filterMap (p : Params) (s : Src) (fm : Val → W (Option Val))
  | filterMapFil (p : Params) (s : Src) (fm : Val → W (Option Val)) (f : Val → W Bool)
  | flatMap (p : Params) (s : Src) (fm : Val → Prod)
  | flatMapFil (p : Params) (s : Src) (fm : Val → Prod) (f : Val → W Bool)

namespace Par

/-- `Par::params` -/
def params : Par → Params
  | empty p _ | map p _ _ | fil p _ _ | mapFil p _ _ _ | filterMap p _ _
  | filterMapFil p _ _ _ | flatMap p _ _ | flatMapFil p _ _ _ => p

def src : Par → Src
  | empty _ s | map _ s _ | fil _ s _ | mapFil _ s _ _ | filterMap _ s _
  | filterMapFil _ s _ _ | flatMap _ s _ | flatMapFil _ s _ _ => s

def setParams (q : Params) : Par → Par
  | empty _ s => empty q s
  | map _ s m => map q s m
  | fil _ s f => fil q s f
  | mapFil _ s m f => mapFil q s m f
  | filterMap _ s fm => filterMap q s fm
  | filterMapFil _ s fm f => filterMapFil q s fm f
  | flatMap _ s fm => flatMap q s fm
  | flatMapFil _ s fm f => flatMapFil q s fm f

/-- `no_filter` -/
def noFilter : Val → W Bool := pureW fun _ => true
/-- `map_self` -/
def mapSelf : Val → W Val := pureW id

/-- what the pipeline yields, lazily and with its events, for one source element -/
def elem : Par → Val → Prod
  | empty _ _, x => .single x
  | map _ _ m, x => (Prod.single x).mapW m
  | fil _ _ f, x => (Prod.single x).filterW f
  | mapFil _ _ m f, x => ((Prod.single x).mapW m).filterW f
  | filterMap _ _ fm, x => (Prod.single x).filterMapW fm
  | filterMapFil _ _ fm f, x => ((Prod.single x).filterMapW fm).filterW f
  | flatMap _ _ fm, x => fm x
  | flatMapFil _ _ fm f, x => (fm x).filterW f

/-- the whole pipeline as one lazy logged stream (the sequential evaluation) -/
def stream (P : Par) : Prod := Prod.bindList P.src.items P.elem

/-! ### composed closures, transcribed -/

/-- `move |x| map(map1(x))`, also `flat_map(map(x))`, `filter_map(map(x))` -/
def compMap {β : Type} (map1 : Val → W Val) (g : Val → W β) : Val → W β := fun x =>
  let a := map1 x
  let b := g a.val
  ⟨b.val, a.log ++ b.log⟩

/-- `move |x| flat_map(map(x))` as a stream -/
def compMapFlat (map1 : Val → W Val) (k : Nat) (g : Val → List Val) : Val → Prod := fun x =>
  let a := map1 x
  Prod.ofCall (a.log ++ [⟨k, a.val⟩]) (g a.val)

/-- `move |x| filter1(x) && filter(x)` (short-circuit) -/
def compAnd (filter1 filter : Val → W Bool) : Val → W Bool := fun x =>
  let a := filter1 x
  if a.val then
    let b := filter x
    ⟨b.val, a.log ++ b.log⟩
  else ⟨false, a.log⟩

/-- `Fallible::into_option` on the model's `Option` -/
def intoOption (o : Option Val) : Option Val :=
  match o.isSome with
  | false => none
  | true => o

/-- ParFilter::map — `match filter(&x) { false => None, true => Some(map(x)) }` -/
def filThenMap (filter : Val → W Bool) (map : Val → W Val) : Val → W (Option Val) := fun x =>
  let b := filter x
  match b.val with
  | false => ⟨none, b.log⟩
  | true => let y := map x; ⟨some y.val, b.log ++ y.log⟩

/-- ParFilter::filter_map — `match filter(&x) { false => None, true => filter_map(x).into_option() }` -/
def filThenFilterMap (filter : Val → W Bool) (fm : Val → W (Option Val)) : Val → W (Option Val) :=
  fun x =>
    let b := filter x
    match b.val with
    | false => ⟨none, b.log⟩
    | true => let y := fm x; ⟨intoOption y.val, b.log ++ y.log⟩

/-- ParMapFilter::map — `let value = map1(x); match filter(&value) { false => None, true => Some(map(value)) }` -/
def mapFilThenMap (map1 : Val → W Val) (filter : Val → W Bool) (map : Val → W Val) :
    Val → W (Option Val) := fun x =>
  let v := map1 x
  let b := filter v.val
  match b.val with
  | false => ⟨none, v.log ++ b.log⟩
  | true => let y := map v.val; ⟨some y.val, v.log ++ b.log ++ y.log⟩

/-- ParMapFilter::filter_map -/
def mapFilThenFilterMap (map1 : Val → W Val) (filter : Val → W Bool) (fm : Val → W (Option Val)) :
    Val → W (Option Val) := fun x =>
  let v := map1 x
  let b := filter v.val
  match b.val with
  | false => ⟨none, v.log ++ b.log⟩
  | true => let y := fm v.val; ⟨intoOption y.val, v.log ++ b.log ++ y.log⟩

/-- ParFilterMap::map — `filter_map(x).into_option().map(map.clone())` -/
def fmThenMap (fm : Val → W (Option Val)) (map : Val → W Val) : Val → W (Option Val) := fun x =>
  let o := fm x
  match intoOption o.val with
  | none => ⟨none, o.log⟩
  | some v => let y := map v; ⟨some y.val, o.log ++ y.log⟩

/-- ParFilterMap::filter_map — `let mapped = fm1(x); match mapped.has_value() { false => None,
    true => filter_map(mapped.value()).into_option() }` -/
def fmThenFilterMap (fm1 : Val → W (Option Val)) (fm : Val → W (Option Val)) :
    Val → W (Option Val) := fun x =>
  let o := fm1 x
  match o.val with
  | none => ⟨none, o.log⟩
  | some v => let y := fm v; ⟨intoOption y.val, o.log ++ y.log⟩

/-- ParFilterMapFilter::map -/
def fmFilThenMap (fm : Val → W (Option Val)) (filter : Val → W Bool) (map : Val → W Val) :
    Val → W (Option Val) := fun x =>
  let o := fm x
  match o.val with
  | none => ⟨none, o.log⟩
  | some v =>
    let b := filter v
    match b.val with
    | false => ⟨none, o.log ++ b.log⟩
    | true => let y := map v; ⟨some y.val, o.log ++ b.log ++ y.log⟩

/-- ParFilterMapFilter::filter_map -/
def fmFilThenFilterMap (fm1 : Val → W (Option Val)) (filter : Val → W Bool)
    (fm : Val → W (Option Val)) : Val → W (Option Val) := fun x =>
  let o := fm1 x
  match o.val with
  | none => ⟨none, o.log⟩
  | some v =>
    let b := filter v
    match b.val with
    | false => ⟨none, o.log ++ b.log⟩
    | true => let y := fm v; ⟨intoOption y.val, o.log ++ b.log ++ y.log⟩

/-- a user flat-map closure of stage `k` as a stream -/
def callFlat (k : Nat) (g : Val → List Val) : Val → Prod := fun x => Prod.ofCall [⟨k, x⟩] (g x)

/-- the eager sites: `let vec = self.collect_vec(); vec.into_con_iter()`.
    Returns the new source and the events of the collection (construction effects). -/
def collectEager (P : Par) : Src × List Event :=
  (⟨P.stream.vals, true⟩, P.stream.log)

/-- the (type, transformation) sites; `none` in the second component = a lazy site -/
def applyT : Par → Op → Par × List Event
  -- ParEmpty
  | empty p s, .map k f => (map p s (callW k f), [])
  | empty p s, .filter k q => (fil p s (callW k q), [])
  | empty p s, .flatMap k g => (flatMap p s (callFlat k g), [])
  | empty p s, .filterMap k h => (filterMap p s (callW k h), [])
  -- ParMap
  | map p s m, .map k f => (map p s (compMap m (callW k f)), [])
  | map p s m, .filter k q => (mapFil p s m (callW k q), [])
  | map p s m, .flatMap k g => (flatMap p s (compMapFlat m k g), [])
  | map p s m, .filterMap k h => (filterMap p s (compMap m (callW k h)), [])
  -- ParFilter
  | fil p s f, .map k g => (filterMap p s (filThenMap f (callW k g)), [])
  | fil p s f, .filter k q => (fil p s (compAnd f (callW k q)), [])
  | P@(fil p _ _), .flatMap k g =>
    let (s', e) := P.collectEager; (flatMap p s' (callFlat k g), e)
  | fil p s f, .filterMap k h => (filterMap p s (filThenFilterMap f (callW k h)), [])
  -- ParMapFilter
  | mapFil p s m f, .map k g => (filterMap p s (mapFilThenMap m f (callW k g)), [])
  | mapFil p s m f, .filter k q => (mapFil p s m (compAnd f (callW k q)), [])
  | P@(mapFil p _ _ _), .flatMap k g =>
    let (s', e) := P.collectEager; (flatMap p s' (callFlat k g), e)
  | mapFil p s m f, .filterMap k h => (filterMap p s (mapFilThenFilterMap m f (callW k h)), [])
  -- ParFilterMap
  | filterMap p s fm, .map k g => (filterMap p s (fmThenMap fm (callW k g)), [])
  | filterMap p s fm, .filter k q => (filterMapFil p s fm (callW k q), [])
  | P@(filterMap p _ _), .flatMap k g =>
    let (s', e) := P.collectEager; (flatMap p s' (callFlat k g), e)
  | filterMap p s fm, .filterMap k h => (filterMap p s (fmThenFilterMap fm (callW k h)), [])
  -- ParFilterMapFilter
  | filterMapFil p s fm f, .map k g => (filterMap p s (fmFilThenMap fm f (callW k g)), [])
  | filterMapFil p s fm f, .filter k q => (filterMapFil p s fm (compAnd f (callW k q)), [])
  | P@(filterMapFil p _ _ _), .flatMap k g =>
    let (s', e) := P.collectEager; (flatMap p s' (callFlat k g), e)
  | filterMapFil p s fm f, .filterMap k h =>
    (filterMap p s (fmFilThenFilterMap fm f (callW k h)), [])
  -- ParFlatMap
  | flatMap p s fm, .map k g => (flatMap p s (fun x => (fm x).mapW (callW k g)), [])
  | flatMap p s fm, .filter k q => (flatMapFil p s fm (callW k q), [])
  | flatMap p s fm, .flatMap k g => (flatMap p s (fun x => (fm x).flatMapW (callFlat k g)), [])
  | flatMap p s fm, .filterMap k h =>
    -- `self.filter(no_filter).filter_map(filter_map)`
    let (s', e) := (flatMapFil p s fm noFilter).collectEager; (filterMap p s' (callW k h), e)
  -- ParFlatMapFilter
  | P@(flatMapFil p _ _ _), .map k g =>
    let (s', e) := P.collectEager; (map p s' (callW k g), e)
  | flatMapFil p s fm f, .filter k q => (flatMapFil p s fm (compAnd f (callW k q)), [])
  | P@(flatMapFil p _ _ _), .flatMap k g =>
    let (s', e) := P.collectEager; (flatMap p s' (callFlat k g), e)
  | P@(flatMapFil p _ _ _), .filterMap k h =>
    let (s', e) := P.collectEager; (filterMap p s' (callW k h), e)
  -- setters (all eight types: `self.params = self.params.with_…(v); self`)
  | P, .numThreads v => (P.setParams (P.params.withNumThreads v), [])
  | P, .chunkSize v => (P.setParams (P.params.withChunkSize v), [])

/-- `ParEmpty::new(iter)`: `Params::default()` -/
def new (s : Src) : Par := empty {} s

/-- build a computation: the ops applied left to right; the events are everything that ran
    *before* the terminal call -/
def build (s : Src) (ops : List Op) : Par × List Event :=
  ops.foldl (fun (acc : Par × List Event) op => let (P, e) := acc.1.applyT op; (P, acc.2 ++ e)) (new s, [])

/-- is this (type, transformation) site one of the eager ones? -/
def isEagerSite : Par → Op → Bool
  | fil .., .flatMap .. | mapFil .., .flatMap .. | filterMap .., .flatMap ..
  | filterMapFil .., .flatMap .. | flatMap .., .filterMap ..
  | flatMapFil .., .map .. | flatMapFil .., .flatMap .. | flatMapFil .., .filterMap .. => true
  | _, _ => false

end Par

/-! ### specification: the std iterator chain -/

/-- one std adaptor on a logged stream -/
def Op.applySeq (s : Prod) : Op → Prod
  | .map k f => s.mapW (callW k f)
  | .filter k p => s.filterW (callW k p)
  | .flatMap k g => s.flatMapW (Par.callFlat k g)
  | .filterMap k h => s.filterMapW (callW k h)
  | .numThreads _ => s
  | .chunkSize _ => s

/-- `src.into_iter().op₁(..).op₂(..)…` as a lazy logged stream -/
def seqStream (src : List Val) (ops : List Op) : Prod := ops.foldl Op.applySeq (Prod.ofList src)

/-- the sequential result -/
def seqChain (src : List Val) (ops : List Op) : List Val := (seqStream src ops).vals

/-- value-level semantics of one op, without logs -/
def Op.applyVals (xs : List Val) : Op → List Val
  | .map _ f => xs.map f
  | .filter _ p => xs.filter p
  | .flatMap _ g => xs.flatMap g
  | .filterMap _ h => xs.filterMap h
  | .numThreads _ => xs
  | .chunkSize _ => xs

/-- `List.map/filter/flatMap/filterMap` chain — what std yields, stated without streams -/
def seqVals (src : List Val) (ops : List Op) : List Val := ops.foldl Op.applyVals src

end OrxPar
