/-
  Model of the 17 computation kernels of src/core/*.rs at the level of values:
  what one worker returns as a function of the chunks it pulled (`…Task`, both the
  `chunk_size == 1` path and the chunked path transcribed), and how the caller combines the
  workers' results (k-way merge by key, ordered bag, fragments, sum, `maybe_reduce`, min by
  index), plus the `seq_*` functions.  Closures here are the value parts of the logged closures.
  This file imports only the model files.
-/
import OrxPar.Model.Par
namespace OrxPar

/-- one pull of a worker: who, the begin index, the elements -/
structure Chunk where
  tid : Nat
  start : Nat
  items : List Val
  deriving Repr

/-- merge keys: `idx` is represented as `(idx, 0)`, flat-map keys are `(idx, i)` -/
abbrev Key := Nat × Nat

def Key.lt (a b : Key) : Bool := a.1 < b.1 || (a.1 == b.1 && a.2 < b.2)
def Key.le (a b : Key) : Bool := a.1 < b.1 || (a.1 == b.1 && a.2 ≤ b.2)

namespace K

/-- the elements a worker received, in the order it received them -/
def elems (chunks : List Chunk) : List Val := chunks.flatMap (·.items)

/-- the same with their source indices -/
def idxElems (chunks : List Chunk) : List (Nat × Val) :=
  chunks.flatMap fun c => (c.items.zipIdx c.start).map fun p => (p.2, p.1)

/-! #### utils.rs -/

/-- `maybe_reduce` -/
def maybeReduce {α : Type} (op : α → α → α) : Option α → Option α → Option α
  | none, none => none
  | none, some b => some b
  | some a, none => some a
  | some a, some b => some (op a b)

/-- `Iterator::reduce` -/
def reduceList {α : Type} (op : α → α → α) : List α → Option α
  | [] => none
  | x :: xs => some (xs.foldl op x)

/-! #### map_col.rs -/

/-- what one worker writes into the ordered bag: `(position, value)`; identical for the
    `set_value` (chunk 1) and `set_values` (chunked) paths -/
def mapColTask (m : Val → Val) (offset : Nat) (_c : Nat) (chunks : List Chunk) : List (Nat × Val) :=
  (idxElems chunks).map fun p => (offset + p.1, m p.2)

/-- `collected.into_inner().unwrap_only_if_counts_match()` on a bag that started with `pre`:
    `none` = the counts do not match (panic) -/
def bagFinish (pre : List Val) (writes : List (Nat × Val)) : Option (List Val) :=
  let len := (writes.map (·.1 + 1)).foldl Nat.max pre.length
  if len == pre.length + writes.length then
    ((List.range writes.length).mapM fun j =>
      (writes.find? (·.1 == pre.length + j)).map (·.2)).map (pre ++ ·)
  else none

/-- `seq_map_col` -/
def seqMapCol (m : Val → Val) (pre : List Val) (xs : List Val) : List Val := pre ++ xs.map m

/-! #### map_fil_col.rs, filtermap_fil_col.rs, flatmap_fil_col.rs -/

/-- `map_fil_col::task` -/
def mapFilColTask (m : Val → Val) (f : Val → Bool) (c : Nat) (chunks : List Chunk) :
    List (Key × Val) :=
  if c == 1 then
    (idxElems chunks).filterMap fun p =>
      let value := m p.2
      if f value then some ((p.1, 0), value) else none
  else
    chunks.flatMap fun ch =>
      (((ch.items.map m).filter f).zipIdx ch.start).map fun p => ((p.2, 0), p.1)

/-- `filtermap_fil_col::task` (both paths use the source index as key) -/
def filtermapFilColTask (fm : Val → Option Val) (f : Val → Bool) (_c : Nat) (chunks : List Chunk) :
    List (Key × Val) :=
  (idxElems chunks).filterMap fun p =>
    match fm p.2 with
    | none => none
    | some value => if f value then some ((p.1, 0), value) else none

/-- `flatmap_fil_col::task` -/
def flatmapFilColTask (g : Val → List Val) (f : Val → Bool) (_c : Nat) (chunks : List Chunk) :
    List (Key × Val) :=
  (idxElems chunks).flatMap fun p =>
    (((g p.2).filter f).zipIdx 0).map fun q => ((p.1, q.2), q.1)

/-- what the binary heap delivers: the vector whose head has a minimal key (the first such),
    with that head removed -/
def popMin : List (List (Key × Val)) → Option ((Key × Val) × List (List (Key × Val)))
  | [] => none
  | [] :: vs =>
    match popMin vs with
    | none => none
    | some (y, vs') => some (y, [] :: vs')
  | (x :: v) :: vs =>
    match popMin vs with
    | none => some (x, v :: vs)
    | some (y, vs') => if Key.le x.1 y.1 then some (x, v :: vs) else some (y, (x :: v) :: vs')

def kmergeFuel : Nat → List (List (Key × Val)) → List (Key × Val)
  | 0, _ => []
  | n + 1, vs =>
    match popMin vs with
    | none => []
    | some (x, vs') => x :: kmergeFuel n vs'

/-- `heap_sort_into_vec` / `heap_sort_into_pinned_vec`: the values in merged key order are
    pushed after the existing contents -/
def heapSortInto (pre : List Val) (vectors : List (List (Key × Val))) : List Val :=
  pre ++ (kmergeFuel (vectors.map List.length).sum vectors).map (·.2)

def seqMapFilCol (m : Val → Val) (f : Val → Bool) (pre xs : List Val) : List Val :=
  pre ++ (xs.map m).filter f
def seqFiltermapFilCol (fm : Val → Option Val) (f : Val → Bool) (pre xs : List Val) : List Val :=
  pre ++ (((xs.map fm).filter (·.isSome)).filterMap id).filter f
def seqFlatmapFilCol (g : Val → List Val) (f : Val → Bool) (pre xs : List Val) : List Val :=
  pre ++ (xs.flatMap g).filter f

/-! #### *_col_x.rs -/

def mapFilColXTask (m : Val → Val) (f : Val → Bool) (c : Nat) (chunks : List Chunk) : List Val :=
  if c == 1 then ((elems chunks).map m).filter f
  else chunks.foldl (fun acc ch => acc ++ (ch.items.map m).filter f) []
def filtermapFilColXTask (fm : Val → Option Val) (f : Val → Bool) (c : Nat) (chunks : List Chunk) :
    List Val :=
  if c == 1 then ((((elems chunks).map fm).filter (·.isSome)).filterMap id).filter f
  else chunks.foldl
    (fun acc ch => acc ++ (((ch.items.map fm).filter (·.isSome)).filterMap id).filter f) []
def flatmapFilColXTask (g : Val → List Val) (f : Val → Bool) (c : Nat) (chunks : List Chunk) :
    List Val :=
  if c == 1 then ((elems chunks).flatMap g).filter f
  else chunks.foldl (fun acc ch => acc ++ (ch.items.flatMap g).filter f) []

/-- `output.append(vectors)`: the workers' vectors become fragments, in spawn order -/
def appendFragments (vectors : List (List Val)) : List Val := vectors.flatten

/-! #### *_cnt.rs -/

def mapFilCntTask (m : Val → Val) (f : Val → Bool) (c : Nat) (chunks : List Chunk) : Nat :=
  if c == 1 then (((elems chunks).map m).filter f).length
  else chunks.foldl (fun count ch => count + ((ch.items.map m).filter f).length) 0

/-- does an element survive `filter_map` + `filter` -/
def fmSurv (fm : Val → Option Val) (f : Val → Bool) (x : Val) : Option Val :=
  match fm x with
  | none => none
  | some v => if f v then some v else none

/-- the hand-written nested loop of `filtermap_fil_cnt::task` for `chunk_size == 1` -/
def filtermapFilCntOne (fm : Val → Option Val) (f : Val → Bool) : List Val → Nat
  | [] => 0
  | x :: rest =>
    match fmSurv fm f x with
    | some _ => rest.foldl (fun acc y => match fmSurv fm f y with | some _ => acc + 1 | none => acc) 1
    | none => filtermapFilCntOne fm f rest

def filtermapFilCntTask (fm : Val → Option Val) (f : Val → Bool) (c : Nat) (chunks : List Chunk) : Nat :=
  if c == 1 then filtermapFilCntOne fm f (elems chunks)
  else chunks.foldl
    (fun acc ch => acc + ((((ch.items.map fm).filter (·.isSome)).filterMap id).filter f).length) 0

def flatmapFilCntTask (g : Val → List Val) (f : Val → Bool) (c : Nat) (chunks : List Chunk) : Nat :=
  if c == 1 then (((elems chunks).flatMap g).filter f).length
  else chunks.foldl (fun count ch => count + ((ch.items.flatMap g).filter f).length) 0

/-! #### *_red.rs -/

def mapFilRedTask (m : Val → Val) (f : Val → Bool) (op : Val → Val → Val) (c : Nat)
    (chunks : List Chunk) : Option Val :=
  if c == 1 then reduceList op (((elems chunks).map m).filter f)
  else chunks.foldl (fun acc ch => maybeReduce op acc (reduceList op ((ch.items.map m).filter f))) none

/-- the nested loop of `filtermap_fil_red::task` for `chunk_size == 1` -/
def filtermapFilRedOne (fm : Val → Option Val) (f : Val → Bool) (op : Val → Val → Val) :
    List Val → Option Val
  | [] => none
  | x :: rest =>
    match fmSurv fm f x with
    | some v => some (rest.foldl (fun acc y => match fmSurv fm f y with | some w => op acc w | none => acc) v)
    | none => filtermapFilRedOne fm f op rest

def filtermapFilRedTask (fm : Val → Option Val) (f : Val → Bool) (op : Val → Val → Val) (c : Nat)
    (chunks : List Chunk) : Option Val :=
  if c == 1 then filtermapFilRedOne fm f op (elems chunks)
  else chunks.foldl
    (fun acc ch => maybeReduce op acc
      (reduceList op ((((ch.items.map fm).filter (·.isSome)).filterMap id).filter f))) none

def flatmapFilRedTask (g : Val → List Val) (f : Val → Bool) (op : Val → Val → Val) (c : Nat)
    (chunks : List Chunk) : Option Val :=
  if c == 1 then reduceList op (((elems chunks).flatMap g).filter f)
  else chunks.foldl (fun acc ch => maybeReduce op acc (reduceList op ((ch.items.flatMap g).filter f))) none

/-! #### *_find.rs -/

/-- `map_fil_find::task`: first match among the elements the worker pulled (it stops pulling
    after a match); both paths -/
def mapFilFindTask (m : Val → Val) (f : Val → Bool) (_c : Nat) (chunks : List Chunk) :
    Option (Nat × Val) :=
  (idxElems chunks).findSome? fun p => let v := m p.2; if f v then some (p.1, v) else none

def filtermapFilFindTask (fm : Val → Option Val) (f : Val → Bool) (_c : Nat) (chunks : List Chunk) :
    Option (Nat × Val) :=
  (idxElems chunks).findSome? fun p =>
    match fm p.2 with
    | none => none
    | some value => if f value then some (p.1, value) else none

def flatmapFilFindTask (g : Val → List Val) (f : Val → Bool) (_c : Nat) (chunks : List Chunk) :
    Option (Nat × Val) :=
  (idxElems chunks).findSome? fun p => ((g p.2).find? f).map fun y => (p.1, y)

/-- `|a, b| if b.0 < a.0 { b } else { a }` -/
def minIdx (a b : Nat × Val) : Nat × Val := if b.1 < a.1 then b else a

def seqMapFilFind (m : Val → Val) (f : Val → Bool) (xs : List Val) : Option (Nat × Val) :=
  ((xs.map m).zipIdx 0).findSome? fun p => if f p.1 then some (p.2, p.1) else none
def seqFiltermapFilFind (fm : Val → Option Val) (f : Val → Bool) (xs : List Val) :
    Option (Nat × Val) :=
  ((xs.map fm).zipIdx 0).findSome? fun p =>
    match p.1 with
    | none => none
    | some value => if f value then some (p.2, value) else none
def seqFlatmapFilFind (g : Val → List Val) (f : Val → Bool) (xs : List Val) : Option Val :=
  (xs.flatMap g).find? f

end K

/-- how the parallel part of a terminal was executed: the chunks pulled (sorted by begin
    index), the workers in spawn order, and the chunk size each worker was handed -/
structure Exec where
  asg : List Chunk
  order : List Nat
  cs : Nat → Nat

namespace Exec
/-- the chunks of worker `t`, in the order it pulled them -/
def chunksOf (ex : Exec) (t : Nat) : List Chunk := ex.asg.filter (·.tid == t)
/-- `Runner::run_map`: the workers' results in spawn order -/
def runMap {β : Type} (ex : Exec) (task : Nat → List Chunk → β) : List β :=
  ex.order.map fun t => task (ex.cs t) (ex.chunksOf t)
/-- `Runner::reduce`: `threads.map(join).reduce(reduce)` -/
def reduce {β : Type} (ex : Exec) (task : Nat → List Chunk → β) (op : β → β → β) : Option β :=
  K.reduceList op (ex.runMap task)
end Exec

end OrxPar
