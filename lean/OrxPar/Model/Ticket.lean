/-
  Model of the handle ("ticket") protocol of `ConIterOfIter` in the dependency
  orx-concurrent-iter 1.30.0 (src/iter/implementors/iter.rs), which serialises `next()` on a
  by-value iterator source:
    begin_idx = counter.fetch_add(n)                                  -- take a ticket
    loop { CAS(yielded_counter: begin_idx → IS_MUTATING) ok ⇒ enter;  -- try_get_handle
           yielded_counter = COMPLETED ⇒ give up }
    read up to n items from the inner iterator
    CAS(IS_MUTATING → begin_idx + n)   if n items were read            -- release_handle
    CAS(IS_MUTATING → COMPLETED)       otherwise                       -- release_handle_complete
    skip_to_end: yielded_counter.store(COMPLETED)                      -- at any time, by anybody
  Every atomic access is one step; threads interleave arbitrarily.  Atomics are taken to be
  sequentially consistent.  This file imports nothing.
-/
namespace OrxPar
namespace Ticket

/-- `yielded_counter` -/
inductive Y
  | val (n : Nat)
  | mutating
  | completed
  deriving DecidableEq, Repr

inductive PC
  | idle
  /-- spinning in `try_get_handle` with ticket `t` for `n` items -/
  | waiting (t n : Nat)
  /-- holds the handle; `got` items read so far; `dry` = the inner iterator returned `None` -/
  | inside (t n got : Nat) (dry : Bool)
  deriving DecidableEq, Repr

structure Thread where
  pc : PC
  deriving Repr

/-- what a thread may do next -/
inductive Act
  | start (n : Nat)
  | tryAcquire
  | readOne
  | release
  | skip
  deriving DecidableEq, Repr

structure State where
  counter : Nat
  y : Y
  ths : List Thread
  /-- inner iterator: how many `next()` calls have returned an item so far -/
  innerPos : Nat
  /-- inner iterator length (`none` = endless) -/
  innerLen : Option Nat
  /-- ghost: (index claimed for the item, actual position of the item in the inner iterator),
      one entry per item handed out -/
  handed : List (Nat × Nat)
  /-- ghost: a `release` found `yielded_counter` neither IS_MUTATING nor COMPLETED
      (the `assert_eq!` in `release_handle*` would fire) -/
  assertFailed : Bool

def setPc (s : State) (tid : Nat) (pc : PC) : State := { s with ths := s.ths.set tid ⟨pc⟩ }

def step (s : State) (tid : Nat) (a : Act) : State :=
  match s.ths[tid]?, a with
  | some _, .skip => { s with y := .completed }
  | some ⟨.idle⟩, .start n =>
    if n == 0 then s else setPc { s with counter := s.counter + n } tid (.waiting s.counter n)
  | some ⟨.waiting t n⟩, .tryAcquire =>
    if s.y == .val t then setPc { s with y := .mutating } tid (.inside t n 0 false)
    else if s.y == .completed then setPc s tid .idle
    else s
  | some ⟨.inside t n got dry⟩, .readOne =>
    if got < n && !dry then
      match s.innerLen with
      | some l =>
        if s.innerPos < l then
          setPc { s with innerPos := s.innerPos + 1, handed := s.handed ++ [(t + got, s.innerPos)] }
            tid (.inside t n (got + 1) false)
        else setPc s tid (.inside t n got true)
      | none =>
        setPc { s with innerPos := s.innerPos + 1, handed := s.handed ++ [(t + got, s.innerPos)] }
          tid (.inside t n (got + 1) false)
    else s
  | some ⟨.inside t n got dry⟩, .release =>
    -- the chunk is complete (`buffer.len() == chunk_size`) or the iterator ran dry
    if got == n || dry then
      let y' : Y := if got == n then .val (t + n) else .completed
      match s.y with
      | .mutating => setPc { s with y := y' } tid .idle
      | .completed => setPc s tid .idle
      | .val _ => setPc { s with assertFailed := true } tid .idle
    else s
  | _, _ => s

def run (s : State) (sched : List (Nat × Act)) : State :=
  sched.foldl (fun s p => step s p.1 p.2) s

def init (nThreads : Nat) (innerLen : Option Nat) : State :=
  { counter := 0, y := .val 0, ths := List.replicate nThreads ⟨.idle⟩, innerPos := 0,
    innerLen := innerLen, handed := [], assertFailed := false }

def isInside : Thread → Bool
  | ⟨.inside ..⟩ => true
  | _ => false

/-- the number of threads between acquire and release -/
def insideCount (s : State) : Nat := (s.ths.filter isInside).length

end Ticket
end OrxPar
