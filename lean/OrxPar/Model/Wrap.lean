/-
  The position counter of the dependency's slice / Vec / range iterators is a `usize` advanced
  by `fetch_add(c)` (wrapping) for every pull, successful or not.  This file models that one
  register with 64-bit wrap-around, to state precisely where the contract "pulls hand out
  consecutive disjoint blocks" (`Tiles`) holds and where the known finding C15
  `chunk-wrap:known-len-source:c>=2^63` lives.  Imports nothing.
-/
namespace OrxPar
namespace Wrap

def W64 : Nat := 2 ^ 64

/-- one pull: the begin index is the old counter value; the counter wraps modulo 2^64;
    a chunk is handed out iff the begin index lies inside the source -/
def pull (counter c len : Nat) : Nat × Option (Nat × Nat) :=
  let begin := counter
  ((counter + c) % W64, if begin < len then some (begin, Nat.min c (len - begin)) else none)

/-- `k` pulls of size `c`: the chunks handed out, in order -/
def pulls (c len : Nat) : Nat → Nat → List (Nat × Nat)
  | 0, _ => []
  | k + 1, counter =>
    let (counter', r) := pull counter c len
    match r with
    | some ch => ch :: pulls c len k counter'
    | none => pulls c len k counter'

end Wrap
end OrxPar
