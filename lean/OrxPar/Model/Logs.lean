/-
  Which closure invocations a terminal performs, as a function of how its runner was executed
  (`Exec`): full-visit terminals evaluate the whole logged stream of every element; the
  short-circuit terminals let every worker scan its elements up to its first output.
  Also: what happens to the call when one particular invocation panics.
  This file imports only model files.
-/
import OrxPar.Model.Terminals
namespace OrxPar

/-- the events of the terminal phase of a full-visit terminal under a parallel execution: every
    worker evaluates, for each element of its chunks in order, the element's whole stream
    (representative interleaving: the workers one after the other) -/
def Par.parLog (P : Par) (ex : Exec) : List Event :=
  ex.order.flatMap fun t => (K.elems (ex.chunksOf t)).flatMap fun x => (P.elem x).log

/-- the events of the terminal phase: sequential mode evaluates the lazy stream front to back -/
def Par.fullLog (P : Par) (ex : Exec) : List Event :=
  if P.params.isSequential then P.stream.log else P.parLog ex

/-- a worker scanning elements for a first output: each element's stream is evaluated up to its
    first output; the scan stops after the first element that has one -/
def scanLog (g : Val → Prod) : List Val → List Event
  | [] => []
  | x :: r =>
    match (g x).first with
    | (some _, l) => l
    | (none, l) => l ++ scanLog g r

/-- the predicate of a find-family terminal applied to the pipeline of one element -/
def Par.elemQ (P : Par) (q : Val → Bool) : Val → Prod := fun x => (P.elem x).filterW (callW stPred q)

def Par.parFindLog (P : Par) (q : Val → Bool) (ex : Exec) : List Event :=
  ex.order.flatMap fun t => scanLog (P.elemQ q) (K.elems (ex.chunksOf t))

def Par.seqFindLog (P : Par) (q : Val → Bool) : List Event :=
  ((P.stream.filterW (callW stPred q)).first).2

/-- the pipeline a terminal actually runs, and what is evaluated to get there:
    `for_each(f)` is `map(f).count()`, and `map` on a `ParFlatMapFilter` is one of the eager sites
    (it collects the upstream stage first) -/
def Par.forTerminal (P : Par) : Terminal → Par × List Event
  | .forEach => P.applyT (.map stForEach fun _ => 0)
  | _ => (P, [])

/-- the predicate closure a find-family terminal evaluates (`all(p)` searches for `!p`, logging
    the same invocations of `p`); `none` = the terminal has no predicate closure -/
def Terminal.pred? : Terminal → Option (Val → Bool)
  | .find q | .any q | .findIdx q => some q
  | .all q => some fun x => !q x
  | _ => none

def Terminal.isShortCircuit : Terminal → Bool
  | .find _ | .any _ | .all _ | .findIdx _ | .first | .firstIdx => true
  | _ => false

/-- what a worker of a short-circuit terminal evaluates per source element: the element's stream,
    through the predicate if the terminal has one; it stops at the first output -/
def Par.scanFn (P : Par) (t : Terminal) : Val → Prod :=
  match t.pred? with
  | some q => P.elemQ q
  | none => P.elem

/-- all closure invocations of the terminal phase under execution `ex` -/
def Par.termLog (P : Par) (ex : Exec) (t : Terminal) : List Event :=
  match t.pred?, t.isShortCircuit with
  | some q, _ => if P.params.isSequential then P.seqFindLog q else P.parFindLog q ex
  | none, true =>
    if P.params.isSequential then P.stream.first.2
    else ex.order.flatMap fun w => scanLog P.elem (K.elems (ex.chunksOf w))
  | none, false => (P.forTerminal t).2 ++ (P.forTerminal t).1.fullLog ex

/-- the invocations every execution of the terminal performs: the lazy sequential prefix for the
    short-circuit terminals, everything for the others -/
def Par.certainLog (P : Par) (t : Terminal) : List Event :=
  match t.pred?, t.isShortCircuit with
  | some q, _ => P.seqFindLog q
  | none, true => P.stream.first.2
  | none, false => (P.forTerminal t).2 ++ (P.forTerminal t).1.stream.log

/-- the invocations some execution of the terminal may perform -/
def Par.possibleLog (P : Par) (t : Terminal) : List Event :=
  match t.pred?, t.isShortCircuit with
  | some q, _ => if P.params.isSequential then P.seqFindLog q else (P.stream.filterW (callW stPred q)).log
  | none, true => if P.params.isSequential then P.stream.first.2 else P.stream.log
  | none, false => (P.forTerminal t).2 ++ (P.forTerminal t).1.stream.log

/-- does the computation panic when invocation `pe` panics? -/
inductive PanicPred
  | yes     -- every execution evaluates `pe` (or it is evaluated while the chain is built)
  | maybe   -- a parallel short-circuit terminal may or may not reach `pe`
  | no      -- no execution evaluates `pe`
  deriving DecidableEq, Repr

/-- `effects` = the invocations performed while building the chain (eager sites) -/
def panicPred (effects : List Event) (P : Par) (t : Terminal) (pe : Event) : PanicPred :=
  if effects.contains pe || (P.certainLog t).contains pe then .yes
  else if (P.possibleLog t).contains pe then .maybe
  else .no

end OrxPar
