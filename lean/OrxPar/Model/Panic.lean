/-
  Panic propagation through the three entry points of `Runner` (src/core/runner.rs):
  how `std::thread::scope`, `JoinHandle::join` and `.expect(..)` turn a panicking worker into a
  panic of the calling thread.  `std`'s behaviour, as documented and relied upon here:
  * `JoinHandle::join` returns `Err(payload)` iff the thread panicked, and consumes that panic;
  * `Result::expect` panics on `Err`;
  * `thread::scope` joins, after its closure has returned or unwound, every spawned thread that
    has not been joined through its handle; it resumes the closure's panic if there was one and
    otherwise panics ("a scoped thread panicked") iff one of those implicitly joined threads
    panicked.
  A worker's fate is `WRes`: the value its task returned, or `panicked` if a user closure it
  evaluated panicked.  This file imports only model files.
-/
import OrxPar.Model.Terminals
namespace OrxPar

/-- what a spawned worker leaves behind -/
inductive WRes (β : Type)
  | ok (b : β)
  | panicked
  deriving Repr

def WRes.isPanicked {β : Type} : WRes β → Bool
  | .panicked => true
  | .ok _ => false

/-- what a call does on the calling thread -/
inductive Call (β : Type)
  | ret (b : β)
  | panic
  deriving Repr

namespace Scope

/-- `std::thread::scope(|s| body)`: `unjoined` are the threads the body did not join through
    their handles -/
def scope {β γ : Type} (body : Call β) (unjoined : List (WRes γ)) : Call β :=
  match body with
  | .panic => .panic
  | .ret b => if unjoined.any WRes.isPanicked then .panic else .ret b

/-- `for x in handles { vec.push(x.join().expect("failed to join the thread")) }` (`run_map`):
    the values, or a panic at the first panicked worker; second component: the handles that were
    not joined when the loop ended -/
def joinAllExpect {β : Type} : List (WRes β) → Call (List β) × List (WRes β)
  | [] => (.ret [], [])
  | .ok b :: hs =>
    match joinAllExpect hs with
    | (.ret bs, rest) => (.ret (b :: bs), rest)
    | (.panic, rest) => (.panic, rest)
  | .panicked :: hs => (.panic, hs)

/-- `threads.into_iter().map(|x| x.join().expect("Failed to join thread")).reduce(reduce)`
    (`Runner::reduce`): join and fold alternate; `acc = none` before the first join -/
def joinReduceExpect {β : Type} (op : β → β → β) : Option β → List (WRes β) → Call (Option β) × List (WRes β)
  | acc, [] => (.ret acc, [])
  | none, .ok b :: hs => joinReduceExpect op (some b) hs
  | some a, .ok b :: hs => joinReduceExpect op (some (op a b)) hs
  | _, .panicked :: hs => (.panic, hs)

/-- the alternative a seeded change once introduced: `handles.into_iter().flat_map(|h| h.join())`
    — `join`'s `Err` is dropped, the panic is consumed and nobody re-raises it -/
def joinAllSwallow {β : Type} : List (WRes β) → List β
  | [] => []
  | .ok b :: hs => b :: joinAllSwallow hs
  | .panicked :: hs => joinAllSwallow hs

end Scope

namespace RunnerP
open Scope

/-- `Runner::run` (used by `map_col`): workers are spawned and never joined by handle; returns
    the number of spawned threads -/
def run (ws : List (WRes Unit)) : Call Nat := scope (.ret ws.length) ws

/-- `Runner::run_map` -/
def runMap {β : Type} (ws : List (WRes β)) : Call (List β) :=
  let r := joinAllExpect ws
  scope r.1 r.2

/-- `Runner::reduce` -/
def reduce {β : Type} (ws : List (WRes β)) (op : β → β → β) : Call (Nat × Option β) :=
  let r := joinReduceExpect op none ws
  scope (match r.1 with
    | .ret acc => .ret (ws.length, acc)
    | .panic => .panic) r.2

/-- the refuted alternative of `run_map` -/
def runMapSwallow {β : Type} (ws : List (WRes β)) : Call (List β) :=
  scope (.ret (joinAllSwallow ws)) ([] : List (WRes β))

end RunnerP

/-- a worker that evaluates the invocations `evs t` and would return `val t`: it unwinds iff the
    panicking invocation `pe` is among them -/
def workerRes {β : Type} (evs : Nat → List Event) (pe : Event) (val : Nat → β) (t : Nat) : WRes β :=
  if (evs t).contains pe then .panicked else .ok (val t)

/-- the invocations worker `t` evaluates in a full-visit kernel: the whole logged stream of every
    element of its chunks, in order (it stops at `pe`, which does not change membership) -/
def Par.workerEvents (P : Par) (ex : Exec) (t : Nat) : List Event :=
  (K.elems (ex.chunksOf t)).flatMap fun x => (P.elem x).log

end OrxPar
