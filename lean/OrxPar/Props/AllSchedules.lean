/-
  End-to-end corollaries: the result theorems of C03, C04, C06, C07 composed with
  `Run.run_accepts_full` — for EVERY finished schedule of the worker transition system over the
  source of the terminal's runner (any number of workers, any positive chunk sizes, any
  interleaving of pulls and evaluations) the terminal returns the sequential result.
  (C01 and C02 have theirs in their own files.)
-/
import OrxPar.Props.C03
import OrxPar.Props.C04
import OrxPar.Props.C06
import OrxPar.Props.C07
import OrxPar.Lemmas.Run
import OrxPar.Lemmas.RunFair
namespace OrxPar
open K

/-- the execution a finished schedule leaves behind -/
abbrev schedExec (xs : List Val) (cs : List Nat) (sched : List Nat) : Exec :=
  Run.execOf (Run.run (Run.init (Run.ofList xs) (some xs.length) (fun _ => false) cs) sched)

theorem build_ok_of_schedule (s : Src) (ops : List Op) (cs : List Nat) (hne : cs ≠ [])
    (hpos : ∀ c ∈ cs, 0 < c) (sched : List Nat)
    (hd : Run.AllDone (Run.run (Run.init (Run.ofList (Par.build s ops).1.src.items)
      (some (Par.build s ops).1.src.items.length) (fun _ => false) cs) sched)) :
    (Par.build s ops).1.Ok (schedExec (Par.build s ops).1.src.items cs sched) :=
  Or.inr (Run.run_accepts_full _ cs hne hpos sched hd)

/-- **C03 (every interleaving).** -/
theorem C03_reduce_all_schedules (s : Src) (ops : List Op) (cs : List Nat) (hne : cs ≠ [])
    (hpos : ∀ c ∈ cs, 0 < c) (sched : List Nat)
    (hd : Run.AllDone (Run.run (Run.init (Run.ofList (Par.build s ops).1.src.items)
      (some (Par.build s ops).1.src.items.length) (fun _ => false) cs) sched))
    (op : Val → Val → Val) (hA : ∀ a b c, op (op a b) c = op a (op b c)) (hC : ∀ a b, op a b = op b a) :
    (Par.build s ops).1.term (schedExec (Par.build s ops).1.src.items cs sched) (.reduce op)
      = .opt (reduceList op (seqVals s.items ops)) :=
  C03_reduce s ops _ (build_ok_of_schedule s ops cs hne hpos sched hd) op hA hC

/-- **C04 (every interleaving).** -/
theorem C04_count_all_schedules (s : Src) (ops : List Op) (cs : List Nat) (hne : cs ≠ [])
    (hpos : ∀ c ∈ cs, 0 < c) (sched : List Nat)
    (hd : Run.AllDone (Run.run (Run.init (Run.ofList (Par.build s ops).1.src.items)
      (some (Par.build s ops).1.src.items.length) (fun _ => false) cs) sched)) :
    (Par.build s ops).1.term (schedExec (Par.build s ops).1.src.items cs sched) .count
      = .num (seqVals s.items ops).length :=
  C04_count s ops _ (build_ok_of_schedule s ops cs hne hpos sched hd)

/-- **C06 (every interleaving).** -/
theorem C06_collect_into_all_schedules (s : Src) (ops : List Op) (cs : List Nat) (hne : cs ≠ [])
    (hpos : ∀ c ∈ cs, 0 < c) (sched : List Nat)
    (hd : Run.AllDone (Run.run (Run.init (Run.ofList (Par.build s ops).1.src.items)
      (some (Par.build s ops).1.src.items.length) (fun _ => false) cs) sched))
    (t : Target) (pre : List Val) :
    (Par.build s ops).1.term (schedExec (Par.build s ops).1.src.items cs sched) (.collectInto t pre)
      = .vals (pre ++ seqVals s.items ops) :=
  C06_collect_into s ops _ (build_ok_of_schedule s ops cs hne hpos sched hd) t pre

/-- **C07 (every interleaving).** -/
theorem C07_collect_x_all_schedules (s : Src) (ops : List Op) (cs : List Nat) (hne : cs ≠ [])
    (hpos : ∀ c ∈ cs, 0 < c) (sched : List Nat)
    (hd : Run.AllDone (Run.run (Run.init (Run.ofList (Par.build s ops).1.src.items)
      (some (Par.build s ops).1.src.items.length) (fun _ => false) cs) sched)) :
    ∃ v, (Par.build s ops).1.term (schedExec (Par.build s ops).1.src.items cs sched) .collectX = .bag v
      ∧ v.Perm (seqVals s.items ops) :=
  C07_collect_x s ops _ (build_ok_of_schedule s ops cs hne hpos sched hd)

/-- hypothesis bundle: `sched` is a finished schedule of the worker system over the source of the
    terminal's runner -/
abbrev Finished (P : Par) (cs : List Nat) (sched : List Nat) : Prop :=
  Run.AllDone (Run.run (Run.init (Run.ofList P.src.items) (some P.src.items.length) (fun _ => false) cs) sched)

/-- **C03 (every interleaving) — fold.** -/
theorem C03_fold_all_schedules (s : Src) (ops : List Op) (cs : List Nat) (hne : cs ≠ [])
    (hpos : ∀ c ∈ cs, 0 < c) (sched : List Nat) (hd : Finished (Par.build s ops).1 cs sched)
    (op : Val → Val → Val) (identity : Val)
    (hA : ∀ a b c, op (op a b) c = op a (op b c)) (hC : ∀ a b, op a b = op b a) :
    (Par.build s ops).1.term (schedExec (Par.build s ops).1.src.items cs sched) (.fold op identity)
      = .opt (some ((reduceList op (seqVals s.items ops)).getD identity)) :=
  C03_fold s ops _ (build_ok_of_schedule s ops cs hne hpos sched hd) op identity hA hC

/-- **C03 (every interleaving) — sum** (wrapping 64-bit addition). -/
theorem C03_sum_all_schedules (s : Src) (ops : List Op) (cs : List Nat) (hne : cs ≠ [])
    (hpos : ∀ c ∈ cs, 0 < c) (sched : List Nat) (hd : Finished (Par.build s ops).1 cs sched) :
    (Par.build s ops).1.term (schedExec (Par.build s ops).1.src.items cs sched) .sum
      = .opt (some ((reduceList (fun x y => (x + y) % 2 ^ 64) (seqVals s.items ops)).getD 0)) :=
  C03_sum s ops _ (build_ok_of_schedule s ops cs hne hpos sched hd)

/-- **C03 (every interleaving) — min / max.** -/
theorem C03_min_all_schedules (s : Src) (ops : List Op) (cs : List Nat) (hne : cs ≠ [])
    (hpos : ∀ c ∈ cs, 0 < c) (sched : List Nat) (hd : Finished (Par.build s ops).1 cs sched) :
    (Par.build s ops).1.term (schedExec (Par.build s ops).1.src.items cs sched) .min
      = .opt (reduceList Nat.min (seqVals s.items ops)) :=
  C03_min s ops _ (build_ok_of_schedule s ops cs hne hpos sched hd)

theorem C03_max_all_schedules (s : Src) (ops : List Op) (cs : List Nat) (hne : cs ≠ [])
    (hpos : ∀ c ∈ cs, 0 < c) (sched : List Nat) (hd : Finished (Par.build s ops).1 cs sched) :
    (Par.build s ops).1.term (schedExec (Par.build s ops).1.src.items cs sched) .max
      = .opt (reduceList Nat.max (seqVals s.items ops)) :=
  C03_max s ops _ (build_ok_of_schedule s ops cs hne hpos sched hd)

/-- **C03 (every interleaving) — min_by_key / max_by_key**: a survivor with extremal key under
    every finished schedule (which of several equally extremal ones may depend on the schedule). -/
theorem C03_min_by_key_all_schedules (s : Src) (ops : List Op) (cs : List Nat) (hne : cs ≠ [])
    (hpos : ∀ c ∈ cs, 0 < c) (sched : List Nat) (hd : Finished (Par.build s ops).1 cs sched)
    (key : Val → Nat) :
    ∃ r, (Par.build s ops).1.term (schedExec (Par.build s ops).1.src.items cs sched) (.minByKey key) = .opt r
      ∧ IsMinOf key (seqVals s.items ops) r :=
  C03_min_by_key s ops _ (build_ok_of_schedule s ops cs hne hpos sched hd) key

theorem C03_max_by_key_all_schedules (s : Src) (ops : List Op) (cs : List Nat) (hne : cs ≠ [])
    (hpos : ∀ c ∈ cs, 0 < c) (sched : List Nat) (hd : Finished (Par.build s ops).1 cs sched)
    (key : Val → Nat) (B : Nat) (hB : ∀ v, key v ≤ B) :
    ∃ r, (Par.build s ops).1.term (schedExec (Par.build s ops).1.src.items cs sched) (.maxByKey key) = .opt r ∧
      ((seqVals s.items ops = [] ∧ r = none) ∨
       ∃ v, r = some v ∧ v ∈ seqVals s.items ops ∧ ∀ y ∈ seqVals s.items ops, key y ≤ key v) :=
  C03_max_by_key s ops _ (build_ok_of_schedule s ops cs hne hpos sched hd) key B hB

/-- **C04 (every interleaving) — for_each**: under every finished schedule of the workers of the
    `map(f).count()` computation `for_each` delegates to, `f` receives exactly the survivors. -/
theorem C04_for_each_all_schedules (s : Src) (ops : List Op) (cs : List Nat) (hne : cs ≠ [])
    (hpos : ∀ c ∈ cs, 0 < c) (sched : List Nat)
    (hst : ∀ op ∈ ops, op.stage? ≠ some stForEach)
    (hd : Finished ((Par.build s ops).1.applyT (.map stForEach fun _ => 0)).1 cs sched) :
    ∃ v, (Par.build s ops).1.term
        (schedExec ((Par.build s ops).1.applyT (.map stForEach fun _ => 0)).1.src.items cs sched) .forEach = .bag v
      ∧ v.Perm (seqVals s.items ops) :=
  C04_for_each s ops _ hst (Or.inr (Run.run_accepts_full _ cs hne hpos sched hd))

/-- non-vacuity of `Finished`: three workers with chunk sizes 2, 2, 5 over three elements of a
    `map` pipeline, a concrete finished schedule -/
example : Finished (Par.build ⟨[10, 11, 12], true⟩ []).1 [2, 2, 5]
    [1, 1, 0, 1, 0, 0, 2, 1, 0, 1, 0] := by decide

/-- **The corollaries above are not vacuous for any input**: for every source, every non-empty
    list of positive chunk sizes there is a finished schedule (round-robin for
    `2·len + Σc + 2·#workers + 4` rounds), and — `C10_terminates_fair_finite` — every fair
    schedule of that many rounds is one. -/
theorem finished_schedule_exists (xs : List Val) (cs : List Nat) (hne : cs ≠ []) (hpos : ∀ c ∈ cs, 0 < c) :
    ∃ sched, Run.AllDone (Run.run (Run.init (Run.ofList xs) (some xs.length) (fun _ => false) cs) sched) := by
  refine ⟨(List.replicate (2 * xs.length + cs.sum + 2 * cs.length + 4) (List.range cs.length)).flatten, ?_⟩
  refine Run.terminates_fair_finite _ _ _ cs hne hpos _ (fun r hr => ?_) (by simp)
  rw [List.eq_of_mem_replicate hr]
  intro t ht
  exact List.mem_range.mpr ht

/-- hence every terminal of the reduce / count / collect families *has* a value equal to the
    sequential one on every pipeline: the statement "for every finished schedule" quantifies over
    a non-empty set -/
theorem C03_reduce_some_schedule (s : Src) (ops : List Op) (cs : List Nat) (hne : cs ≠ [])
    (hpos : ∀ c ∈ cs, 0 < c) (op : Val → Val → Val)
    (hA : ∀ a b c, op (op a b) c = op a (op b c)) (hC : ∀ a b, op a b = op b a) :
    ∃ sched, Finished (Par.build s ops).1 cs sched ∧
      (Par.build s ops).1.term (schedExec (Par.build s ops).1.src.items cs sched) (.reduce op)
        = .opt (reduceList op (seqVals s.items ops)) := by
  obtain ⟨sched, hd⟩ := finished_schedule_exists (Par.build s ops).1.src.items cs hne hpos
  exact ⟨sched, hd, C03_reduce_all_schedules s ops cs hne hpos sched hd op hA hC⟩

end OrxPar
