/-
  End-to-end corollaries: the result theorems of C03, C04, C06, C07 composed with
  `Run.run_accepts_full` — for EVERY finished schedule of the worker transition system over the
  source of the terminal's runner (any number of workers, any positive chunk sizes, any
  interleaving of pulls and evaluations) the terminal returns the sequential result.
  (C01 and C02 have theirs in their own files.)
-/
import OrxPar.Props.C03
import OrxPar.Props.C04
import OrxPar.Props.C06
import OrxPar.Props.C07
import OrxPar.Lemmas.Run
namespace OrxPar
open K

/-- the execution a finished schedule leaves behind -/
abbrev schedExec (xs : List Val) (cs : List Nat) (sched : List Nat) : Exec :=
  Run.execOf (Run.run (Run.init (Run.ofList xs) (some xs.length) (fun _ => false) cs) sched)

theorem build_ok_of_schedule (s : Src) (ops : List Op) (cs : List Nat) (hne : cs ≠ [])
    (hpos : ∀ c ∈ cs, 0 < c) (sched : List Nat)
    (hd : Run.AllDone (Run.run (Run.init (Run.ofList (Par.build s ops).1.src.items)
      (some (Par.build s ops).1.src.items.length) (fun _ => false) cs) sched)) :
    (Par.build s ops).1.Ok (schedExec (Par.build s ops).1.src.items cs sched) :=
  Or.inr (Run.run_accepts_full _ cs hne hpos sched hd)

/-- **C03 (every interleaving).** -/
theorem C03_reduce_all_schedules (s : Src) (ops : List Op) (cs : List Nat) (hne : cs ≠ [])
    (hpos : ∀ c ∈ cs, 0 < c) (sched : List Nat)
    (hd : Run.AllDone (Run.run (Run.init (Run.ofList (Par.build s ops).1.src.items)
      (some (Par.build s ops).1.src.items.length) (fun _ => false) cs) sched))
    (op : Val → Val → Val) (hA : ∀ a b c, op (op a b) c = op a (op b c)) (hC : ∀ a b, op a b = op b a) :
    (Par.build s ops).1.term (schedExec (Par.build s ops).1.src.items cs sched) (.reduce op)
      = .opt (reduceList op (seqVals s.items ops)) :=
  C03_reduce s ops _ (build_ok_of_schedule s ops cs hne hpos sched hd) op hA hC

/-- **C04 (every interleaving).** -/
theorem C04_count_all_schedules (s : Src) (ops : List Op) (cs : List Nat) (hne : cs ≠ [])
    (hpos : ∀ c ∈ cs, 0 < c) (sched : List Nat)
    (hd : Run.AllDone (Run.run (Run.init (Run.ofList (Par.build s ops).1.src.items)
      (some (Par.build s ops).1.src.items.length) (fun _ => false) cs) sched)) :
    (Par.build s ops).1.term (schedExec (Par.build s ops).1.src.items cs sched) .count
      = .num (seqVals s.items ops).length :=
  C04_count s ops _ (build_ok_of_schedule s ops cs hne hpos sched hd)

/-- **C06 (every interleaving).** -/
theorem C06_collect_into_all_schedules (s : Src) (ops : List Op) (cs : List Nat) (hne : cs ≠ [])
    (hpos : ∀ c ∈ cs, 0 < c) (sched : List Nat)
    (hd : Run.AllDone (Run.run (Run.init (Run.ofList (Par.build s ops).1.src.items)
      (some (Par.build s ops).1.src.items.length) (fun _ => false) cs) sched))
    (t : Target) (pre : List Val) :
    (Par.build s ops).1.term (schedExec (Par.build s ops).1.src.items cs sched) (.collectInto t pre)
      = .vals (pre ++ seqVals s.items ops) :=
  C06_collect_into s ops _ (build_ok_of_schedule s ops cs hne hpos sched hd) t pre

/-- **C07 (every interleaving).** -/
theorem C07_collect_x_all_schedules (s : Src) (ops : List Op) (cs : List Nat) (hne : cs ≠ [])
    (hpos : ∀ c ∈ cs, 0 < c) (sched : List Nat)
    (hd : Run.AllDone (Run.run (Run.init (Run.ofList (Par.build s ops).1.src.items)
      (some (Par.build s ops).1.src.items.length) (fun _ => false) cs) sched)) :
    ∃ v, (Par.build s ops).1.term (schedExec (Par.build s ops).1.src.items cs sched) .collectX = .bag v
      ∧ v.Perm (seqVals s.items ops) :=
  C07_collect_x s ops _ (build_ok_of_schedule s ops cs hne hpos sched hd)

end OrxPar
