/-
  C12 — Parameters propagate unchanged through every transformation.
  `params()` always reports the last `num_threads` / `chunk_size` values set anywhere in the
  chain (defaults Auto/Auto; 0 ↦ Auto, n>0 ↦ Max(n) / Exact(n)); `is_sequential()` ⇔ Max(1).
  Quantifiers: every source, every list of transformations and setters (any length), every
  closure, every value.  By induction over the op list from the 8×4 site lemmas + the setters.
-/
import OrxPar.Model.Par
namespace OrxPar

/-- the effect of one call on the parameters, as the property states it -/
def stepParams (p : Params) : Op → Params
  | .numThreads v => { numThreads := v, chunkSize := p.chunkSize }
  | .chunkSize v => { numThreads := p.numThreads, chunkSize := v }
  | _ => p

@[simp] theorem Par.params_setParams (P : Par) (q : Params) : (P.setParams q).params = q := by
  cases P <;> rfl

/-- all 32 (type, transformation) sites and the 16 setter sites -/
theorem Par.applyT_params (P : Par) (op : Op) : (P.applyT op).1.params = stepParams P.params op := by
  cases P <;> cases op <;> simp [Par.applyT, Par.params, Par.setParams, Par.collectEager, stepParams,
    Params.withNumThreads, Params.withChunkSize]

theorem build_params_aux (ops : List Op) (acc : Par × List Event) :
    (ops.foldl (fun (acc : Par × List Event) op =>
        let (P, e) := acc.1.applyT op; (P, acc.2 ++ e)) acc).1.params
      = ops.foldl stepParams acc.1.params := by
  induction ops generalizing acc with
  | nil => rfl
  | cons op ops ih =>
    simp only [List.foldl_cons]
    rw [ih]
    congr 1
    exact Par.applyT_params acc.1 op

/-- **C12 (fold form).** `params()` of any built computation is the left fold of the setter
    calls over the defaults; transformations do not touch it. -/
theorem C12_params_fold (s : Src) (ops : List Op) :
    (Par.build s ops).1.params = ops.foldl stepParams {} := by
  unfold Par.build
  rw [build_params_aux]
  rfl

/-- the last value set by a `num_threads` call, scanning left to right -/
def lastNt (init : NumThreads) : List Op → NumThreads
  | [] => init
  | .numThreads v :: ops => lastNt v ops
  | _ :: ops => lastNt init ops

def lastCs (init : ChunkSize) : List Op → ChunkSize
  | [] => init
  | .chunkSize v :: ops => lastCs v ops
  | _ :: ops => lastCs init ops

theorem foldl_stepParams (ops : List Op) (p : Params) :
    ops.foldl stepParams p = ⟨lastNt p.numThreads ops, lastCs p.chunkSize ops⟩ := by
  induction ops generalizing p with
  | nil => rfl
  | cons op ops ih =>
    simp only [List.foldl_cons]
    rw [ih]
    cases op <;> simp [stepParams, lastNt, lastCs]

/-- **C12.** `params()` reports the last `num_threads` and the last `chunk_size` set anywhere in
    the chain, `Auto` where none was set — for every chain on all eight types. -/
theorem C12_params (s : Src) (ops : List Op) :
    (Par.build s ops).1.params = ⟨lastNt .auto ops, lastCs .auto ops⟩ := by
  rw [C12_params_fold, foldl_stepParams]

/-- **C12 (conversions).** `0 ↦ Auto`, `n > 0 ↦ Max(n)` / `Exact(n)` -/
theorem C12_ofNat (n : Nat) :
    NumThreads.ofNat 0 = .auto ∧ ChunkSize.ofNat 0 = .auto ∧
    (0 < n → NumThreads.ofNat n = .max n ∧ ChunkSize.ofNat n = .exact n) := by
  refine ⟨rfl, rfl, ?_⟩
  intro h
  cases n with
  | zero => omega
  | succ n => exact ⟨rfl, rfl⟩

/-- **C12 (is_sequential).** true exactly for `Max(1)` -/
theorem C12_is_sequential (p : Params) : p.isSequential = true ↔ p.numThreads = .max 1 := by
  unfold Params.isSequential
  exact beq_iff_eq

/-- non-vacuity: a chain through an eager site (`filter` then `flat_map`) with setters at three
    positions; the last values win -/
example :
    (Par.build ⟨[1, 2, 3], true⟩
      [.numThreads (.max 4), .filter 0 (· != 2), .chunkSize (ChunkSize.ofNat 3),
       .flatMap 1 (fun x => [x, x]), .numThreads (NumThreads.ofNat 0), .map 2 (· + 1)]).1.params
      = ⟨.auto, .exact 3⟩ := by
  rw [C12_params]; rfl

end OrxPar
