/-
  C05 — Closures run exactly once per element; source advanced by one thread at a time.
  (a) full-visit terminals: the multiset of (stage, argument) closure invocations of the whole
      computation — construction effects of eager sites plus the terminal phase — equals that of
      the std chain, for every chain and every accepted execution;
  (b) short-circuit terminals: no invocation happens more often than in the full sequential
      evaluation (sequential mode: the invocations are a prefix of it);
  (c) every element the source yields is fed to the pipeline exactly once: the chunks of an
      accepted execution partition the source (`Tiles`), shown for every schedule in C01.
  (d) the serialisation of `next()` on a by-value iterator source is a property of the
      dependency `orx-concurrent-iter` (ticket lock); it is modelled in `Model/Ticket.lean` and
      proved in `C05_mutex`; it is monitored at run time by the harness' re-entrancy detector.
-/
import OrxPar.Lemmas.Logged
import OrxPar.Lemmas.KernelsW
import OrxPar.Lemmas.Ticket
import OrxPar.Lemmas.TicketComplete
import OrxPar.Lemmas.Panic
namespace OrxPar

/-- **C05 (full-visit).** -/
theorem C05_full (s : Src) (ops : List Op) (ex : Exec)
    (h : (Par.build s ops).1.params.isSequential = true ∨ ex.Accepts (Par.build s ops).1.src.items) :
    ((Par.build s ops).2 ++ (Par.build s ops).1.fullLog ex).Perm (seqStream s.items ops).log :=
  events_full s ops ex h

/-- the same with multiplicities: each (stage, argument) pair occurs exactly as often -/
theorem C05_full_counts (s : Src) (ops : List Op) (ex : Exec)
    (h : (Par.build s ops).1.params.isSequential = true ∨ ex.Accepts (Par.build s ops).1.src.items)
    (e : Event) :
    ((Par.build s ops).2 ++ (Par.build s ops).1.fullLog ex).count e = (seqStream s.items ops).log.count e :=
  (C05_full s ops ex h).count_eq e

/-- **C05 (terminal closures included).** the invocations of the terminal phase as the check's
    driver computes them (`Par.termLog`: chain closures, the `for_each` closure — `for_each` being
    `map(f).count()`, possibly through an eager site) are, under every accepted execution, a
    permutation of the sequential ones -/
theorem C05_term_events (P : Par) (ex : Exec) (t : Terminal) (hsc : t.isShortCircuit = false)
    (h : (P.forTerminal t).1.params.isSequential = true ∨ ex.Accepts (P.forTerminal t).1.src.items) :
    (P.termLog ex t).Perm (P.possibleLog t) :=
  Par.termLog_perm_full P ex t hsc h

/-- **C05 (kernels).** the per-element work of each kernel family, transcribed with logged
    closures (`mapFilStep`, `filtermapFilStep`, `flatmapFilStep`) and given the closures its
    terminal passes down (`Par.kernelStep`), is exactly the pipeline's logged stream of that
    element — no closure is evaluated twice or skipped inside a kernel -/
theorem C05_kernel_step (P : Par) (x : Val) : P.kernelStep x = P.elem x :=
  Par.kernelStep_eq_elem P x

/-- hence the events of a parallel terminal phase, written with the kernels' own steps, are a
    permutation of the sequential events of the pipeline -/
theorem C05_kernel_log (P : Par) (ex : Exec) (h : ex.Accepts P.src.items) :
    (P.kernelLog ex).Perm P.stream.log := by
  rw [Par.kernelLog_eq_parLog]
  exact Par.parLog_perm P ex h

/-- **C05 (short-circuit, parallel).** at most once per element that reaches the stage -/
theorem C05_short_par (P : Par) (q : Val → Bool) (ex : Exec) (n : Nat)
    (ht : Tiles ex.asg 0 (P.src.items.take n)) (hn : ex.order.Nodup)
    (htid : ∀ c ∈ ex.asg, c.tid ∈ ex.order) (e : Event) :
    (P.parFindLog q ex).count e ≤ (P.stream.filterW (callW stPred q)).log.count e :=
  events_find_par P q ex n ht hn htid e

/-- **C05 (short-circuit, sequential).** -/
theorem C05_short_seq (P : Par) (q : Val → Bool) :
    P.seqFindLog q <+: (P.stream.filterW (callW stPred q)).log :=
  events_find_seq P q

/-- **C05 (source serialisation).** in the ticket protocol of `ConIterOfIter` at most one thread
    is between acquiring and releasing the handle — hence at most one thread can be inside the
    source iterator's `next()` — for every number of threads, every interleaving of their atomic
    steps, any chunk sizes, and `skip_to_end` by anybody at any time -/
theorem C05_mutex (n : Nat) (len : Option Nat) (sched : List (Nat × Ticket.Act)) :
    Ticket.insideCount (Ticket.run (Ticket.init n len) sched) ≤ 1 :=
  Ticket.mutex n len sched

/-- **C05 (each yielded element handed out once, at its true position).** the items handed out
    are the inner iterator's items `0, 1, 2, …`, each exactly once, and each carries its true
    position as index -/
theorem C05_yield_once (n : Nat) (len : Option Nat) (sched : List (Nat × Ticket.Act)) :
    (Ticket.run (Ticket.init n len) sched).handed.map (·.2)
        = List.range (Ticket.run (Ticket.init n len) sched).innerPos ∧
    ∀ p ∈ (Ticket.run (Ticket.init n len) sched).handed, p.1 = p.2 :=
  ⟨Ticket.handed_positions n len sched, Ticket.index_contract n len sched⟩

/-- **C05 (every element is fed — completeness of the source protocol).** in a full-visit kernel
    nobody calls `skip_to_end`; then the handle can only reach the COMPLETED state through a thread
    that saw the inner iterator run dry, and at that point every element of the inner iterator has
    been handed out: positions `0 … l−1`, each exactly once, each under its true index — for every
    number of threads, chunk sizes and interleaving of the atomic steps -/
theorem C05_source_complete (n l : Nat) (sched : List (Nat × Ticket.Act)) (hs : Ticket.NoSkip sched)
    (hc : (Ticket.run (Ticket.init n (some l)) sched).y = .completed) :
    (Ticket.run (Ticket.init n (some l)) sched).handed.map (·.2) = List.range l ∧
    ∀ p ∈ (Ticket.run (Ticket.init n (some l)) sched).handed, p.1 = p.2 :=
  Ticket.complete_without_skip n l sched hs hc

/-- … and why a full-visit kernel (or the spawner) must never call `skip_to_end`, not even when
    `has_more()` reports `No`: `No` means every position is *reserved*; a thread that holds a
    reservation but not yet the handle gives up after `skip_to_end`, and its elements are never
    yielded (the mechanism of four independently seeded changes, DESIGN §0) -/
theorem C05_skip_to_end_loses_a_reservation :
    let s := Ticket.run (Ticket.init 3 (some 2))
      [(0, .start 1), (1, .start 1), (0, .tryAcquire), (2, .skip), (0, .readOne), (0, .release),
       (1, .tryAcquire), (0, .start 1), (0, .tryAcquire)]
    s.y = .completed ∧ s.handed = [(0, 0)] ∧ s.ths.all (fun t => t.pc == .idle) = true :=
  Ticket.skip_loses_reservation

/-- the protocol's internal assertions never fire, also across a concurrent `skip_to_end` -/
theorem C05_no_assert (n : Nat) (len : Option Nat) (sched : List (Nat × Ticket.Act)) :
    (Ticket.run (Ticket.init n len) sched).assertFailed = false :=
  Ticket.no_assert n len sched

/-- non-vacuity: the log of `filter` then `map` on `[1,2,3]` is the lazy interleaving -/
example : (seqStream [1, 2, 3] [.filter 0 (· != 2), .map 1 (· + 10)]).log
    = [⟨0, 1⟩, ⟨1, 1⟩, ⟨0, 2⟩, ⟨0, 3⟩, ⟨1, 3⟩] := by decide

end OrxPar
