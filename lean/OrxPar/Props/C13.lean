/-
  C13 — Owned elements are dropped exactly once on all non-panicking paths.
  orx-parallel is safe Rust except for two protocols, which are modelled at the level of memory
  cells (`Model/Resources.lean`) and proved linear here:
  * the k-way merge of the workers' vectors (`heap_sort_into_vec/_pinned_vec`): every produced
    value is read out exactly once, in merge order, into the caller's collection; after
    `set_len(0)` dropping the vectors drops nothing; nothing is left behind;
  * the ordered bag of `map_col`: every position is written exactly once, the counts match, the
    caller receives the existing contents followed by the new values, nothing else.
  and the owning source of the dependency (modelled): every element is either taken by exactly
  one pull or dropped exactly once by `skip_to_end` / the iterator's `Drop` — including the
  elements skipped by early exit.
  Everything else (closures consuming their argument, `Vec` pushes, fragments of `collect_x`,
  intermediate `Vec`s of the eager sites) is ownership checked by the Rust compiler; it is
  observed at run time with a drop-counting item type, not modelled.
-/
import OrxPar.Lemmas.Resources
import OrxPar.Lemmas.Collect
namespace OrxPar
open Res K

/-- **C13 (merge).** ledger of `heap_sort_into_vec`: out = existing contents ++ merged values, no
    drop, no leak, no bad event — for all sorted vectors with distinct keys -/
theorem C13_merge_ledger (pre : List Val) (tv : List (List (Key × Val)))
    (hs : ∀ v ∈ tv, SortedVec v) (hd : (tv.flatten.map (·.1)).Nodup) :
    heapSort true pre (cvecs tv) = { out := heapSortInto pre tv, dropped := [], leaked := [], bad := 0 } :=
  heapSort_ledger pre tv hs hd

/-- every produced token reaches the caller exactly once -/
theorem C13_merge_out (pre : List Val) (tv : List (List (Key × Val)))
    (hs : ∀ v ∈ tv, SortedVec v) (hd : (tv.flatten.map (·.1)).Nodup) :
    (heapSort true pre (cvecs tv)).out.Perm (pre ++ tv.flatten.map (·.2)) :=
  heapSort_out_perm pre tv hs hd

/-- why `set_len(0)` matters: without it every element is dropped a second time -/
theorem C13_merge_needs_set_len (pre : List Val) (tv : List (List (Key × Val)))
    (hs : ∀ v ∈ tv, SortedVec v) (hd : (tv.flatten.map (·.1)).Nodup) (hne : tv.flatten ≠ []) :
    0 < (heapSort false pre (cvecs tv)).bad :=
  heapSort_without_setLen0_bad pre tv hs hd hne

/-- **C13 (ordered bag).** the writes of any accepted execution, in any order -/
theorem C13_bag_ledger (pre toks : List Nat) (extra : Nat) (he : toks.length ≤ extra)
    (ws : List (Nat × Nat))
    (hperm : ws.Perm ((toks.zipIdx pre.length).map fun p => (p.2, p.1))) :
    ((Bag.new pre extra).writes ws).finish
      = some { out := pre ++ toks, dropped := [], leaked := [], bad := 0 } :=
  bag_finish_ledger pre toks extra he ws hperm

/-- **C13 (owning source, early exit included).** any sequence of pulls of any sizes and
    `skip_to_end` calls, then the iterator's drop: every element taken once or dropped once -/
theorem C13_source_ledger (toks : List Nat) (ops : List SrcOp) :
    let st := ops.foldl VecSrc.apply (VecSrc.new toks, [])
    let s' := st.1.drop
    (st.2 ++ s'.dropped).Perm toks ∧ s'.bad = 0 ∧ held s'.cells = [] :=
  src_ledger toks ops

/-- non-vacuity of the merge ledger: two workers' vectors -/
example : (heapSort true [9] (cvecs [[((0, 0), 10), ((3, 0), 13)], [((1, 0), 11), ((2, 0), 12)]])).out
    = [9, 10, 11, 12, 13] := by decide

end OrxPar
