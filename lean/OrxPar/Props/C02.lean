/-
  C02 — find/first/any/all answer with the first match in source order.
  For every chain, every predicate and every accepted find-execution — the evaluated chunks tile
  a prefix of the source that is either everything or contains a match; which worker holds
  which chunk, who finds what first and in which order the workers were spawned is arbitrary —
  the result is the *first* match of the sequential stream, `none` iff there is none; the
  `*_with_index` variants report the least source position whose output matches.
  `C02_every_schedule`: every finished run of the transition system with the early-exit flag
  (a finder publishes `skip_to_end` arbitrarily late) is such an execution.
-/
import OrxPar.Lemmas.Terminals
import OrxPar.Lemmas.Run
import OrxPar.Lemmas.PartialSrc
namespace OrxPar

/-- **C02 (find).** -/
theorem C02_find (s : Src) (ops : List Op) (ex : Exec) (q : Val → Bool)
    (h : (Par.build s ops).1.OkFind ex q) :
    (Par.build s ops).1.term ex (.find q) = .opt ((seqVals s.items ops).find? q) := by
  show (Par.build s ops).1.core ex (.find q) = _
  rw [Par.core_find _ ex q h, build_stream_vals]

/-- **C02 (first).** -/
theorem C02_first (s : Src) (ops : List Op) (ex : Exec)
    (h : (Par.build s ops).1.OkFind ex (fun _ => true)) :
    (Par.build s ops).1.term ex .first = .opt (seqVals s.items ops).head? := by
  show (Par.build s ops).1.core ex .first = _
  rw [Par.core_first _ ex h, build_stream_vals]

/-- **C02 (any).** -/
theorem C02_any (s : Src) (ops : List Op) (ex : Exec) (q : Val → Bool)
    (h : (Par.build s ops).1.OkFind ex q) :
    (Par.build s ops).1.term ex (.any q) = .bool ((seqVals s.items ops).any q) := by
  show (match (Par.build s ops).1.core ex (.find q) with
    | .opt o => Outcome.bool o.isSome
    | o => o) = _
  rw [Par.core_find _ ex q h, build_stream_vals]
  congr 1
  induction seqVals s.items ops with
  | nil => rfl
  | cons x xs ih =>
    simp only [List.find?_cons, List.any_cons]
    cases q x <;> simp [ih]

/-- **C02 (all).** `all p` is evaluated as "no element satisfies `¬p`" -/
theorem C02_all (s : Src) (ops : List Op) (ex : Exec) (q : Val → Bool)
    (h : (Par.build s ops).1.OkFind ex (fun x => !q x)) :
    (Par.build s ops).1.term ex (.all q) = .bool ((seqVals s.items ops).all q) := by
  show (match (Par.build s ops).1.core ex (.find fun x => !q x) with
    | .opt o => Outcome.bool o.isNone
    | o => o) = _
  rw [Par.core_find _ ex _ h, build_stream_vals]
  congr 1
  induction seqVals s.items ops with
  | nil => rfl
  | cons x xs ih =>
    simp only [List.find?_cons, List.all_cons]
    cases q x <;> simp [ih]

/-- **C02 (find_with_index).** on the types that have it: the least source position (of the
    current phase's source) whose output matches, with that output -/
theorem C02_find_idx (P : Par) (ex : Exec) (q : Val → Bool) (hs : P.hasIdx = true)
    (h : P.OkFind ex q) : P.term ex (.findIdx q) = .optIdx (specIdx P q) :=
  Par.core_findIdx_supported P ex q hs h

/-- the value reported together with the index is the sequential `find` result -/
theorem C02_idx_value (s : Src) (ops : List Op) (q : Val → Bool) :
    (specIdx (Par.build s ops).1 q).map (·.2) = (seqVals s.items ops).find? q := by
  rw [specIdx_value, build_stream_vals]

/-- **known finding G (partially consumed concurrent iterator, sequential mode).** the parallel
    kernels report the index the iterator hands out — for an iterator that has already yielded
    `b` elements, `b +` the position among the remaining ones, i.e. the position in the original
    source — while the sequential path enumerates the remainder from 0: the two differ by `b` -/
theorem C02_with_index_partial_source_finding (m : Val → Val) (f : Val → Bool) (xs : List Val) (b : Nat) :
    (((xs.map m).zipIdx b).findSome? fun p => if f p.1 then some (p.2, p.1) else none)
      = (K.seqMapFilFind m f xs).map fun r => (b + r.1, r.2) :=
  with_index_seq_vs_par m f xs b

/-- **C02 (every interleaving).** every finished run of the transition system with early exit
    over a finite source is an accepted find-execution -/
theorem C02_every_schedule (xs : List Val) (hit : Val → Bool) (cs : List Nat) (hne : cs ≠ [])
    (hpos : ∀ c ∈ cs, 0 < c) (sched : List Nat)
    (hd : Run.AllDone (Run.run (Run.init (Run.ofList xs) (some xs.length) hit cs) sched)) :
    (Run.execOf (Run.run (Run.init (Run.ofList xs) (some xs.length) hit cs) sched)).AcceptsFind xs hit := by
  have := Run.run_accepts_find (Run.ofList xs) (some xs.length) hit cs hne hpos sched hd xs.length
    (Or.inl rfl)
  rw [Run.slice_ofList] at this
  exact ⟨_, this⟩

/-- **C02 (end to end).** any chain, then any schedule of the early-exit transition system over
    the source of the final phase with the pipeline's own hit function: `find` returns the first
    match of the sequential stream -/
theorem C02_find_all_schedules (s : Src) (ops : List Op) (q : Val → Bool) (cs : List Nat)
    (hne : cs ≠ []) (hpos : ∀ c ∈ cs, 0 < c) (sched : List Nat)
    (hd : Run.AllDone (Run.run (Run.init (Run.ofList (Par.build s ops).1.src.items)
      (some (Par.build s ops).1.src.items.length) ((Par.build s ops).1.hit q) cs) sched)) :
    (Par.build s ops).1.term
      (Run.execOf (Run.run (Run.init (Run.ofList (Par.build s ops).1.src.items)
        (some (Par.build s ops).1.src.items.length) ((Par.build s ops).1.hit q) cs) sched))
      (.find q) = .opt ((seqVals s.items ops).find? q) :=
  C02_find s ops _ q (Or.inr (C02_every_schedule _ _ cs hne hpos sched hd))

/-- what each worker reports is the first match among the elements of its own chunks -/
theorem C02_worker_reports_first (src : Nat → Val) (len : Option Nat) (hit : Val → Bool)
    (cs : List Nat) (hpos : ∀ c ∈ cs, 0 < c) (sched : List Nat)
    (hd : Run.AllDone (Run.run (Run.init src len hit cs) sched)) (t : Nat) (w : Run.Worker)
    (hw : (Run.run (Run.init src len hit cs) sched).ws[t]? = some w) :
    w.found = (Run.elemsOf (Run.run (Run.init src len hit cs) sched).log t).find? (fun p => hit p.2) :=
  Run.run_found src len hit cs hpos sched hd t w hw

/-- non-vacuity: the worker spawned last (3) holds chunk 0 with the true first match (value 11 at
    index 1), worker 2 holds a later match (14 at index 4) -/
example : ({ asg := [⟨3, 0, [10, 11]⟩, ⟨1, 2, [12, 13]⟩, ⟨2, 4, [14, 15]⟩], order := [1, 2, 3],
             cs := fun _ => 2 } : Exec).AcceptsFind [10, 11, 12, 13, 14, 15, 16, 17]
      (fun x => x == 11 || x == 14) :=
  ⟨6, by simp [Tiles], by decide, by simp, Or.inr ⟨11, by simp, by decide⟩⟩

/-- … and a schedule of the transition system producing such a history: worker 1 pulls chunk
    `[12,13]` first, … the finder of the later match publishes before the holder of index 1 is done -/
example : Run.AllDone (Run.run (Run.init (Run.ofList [10, 11, 12, 13, 14, 15, 16, 17]) (some 8)
    (fun x => x == 11 || x == 14) [2, 2, 2]) [2, 0, 1, 1, 1, 2, 1, 0, 0, 2, 2, 0, 0, 2]) := by
  decide

end OrxPar
