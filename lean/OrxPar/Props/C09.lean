/-
  C09 — Sequential mode is identical to std iterator execution.
  With `Max(1)` in effect every terminal returns exactly the value of the std chain — `reduce`
  and `fold` with an arbitrary (non-associative, non-commutative) operator give the
  left-to-right fold, `collect_x` gives the sequential order — whatever `chunk_size` is set to
  (the execution context is ignored), and every stage's closure sees its arguments in the order
  of the std chain.
-/
import OrxPar.Lemmas.Terminals
import OrxPar.Lemmas.Logged
import OrxPar.Lemmas.Select
namespace OrxPar
open K

/-- the terminals whose value is a function of the sequential stream alone -/
def Terminal.plain : Terminal → Bool
  | .findIdx _ | .firstIdx | .forEach => false
  | _ => true

/-- **C09 (values).** every plain terminal, any operator, any execution context, any chunk size -/
theorem C09_seq_value (s : Src) (ops : List Op) (ex : Exec)
    (h : (Par.build s ops).1.params.isSequential = true) (t : Terminal) (ht : t.plain = true) :
    (Par.build s ops).1.term ex t = specTerm (seqVals s.items ops) t := by
  have hv := build_stream_vals s ops
  have hok : (Par.build s ops).1.Ok ex := Or.inl h
  cases t with
  | collectVec =>
    show (Par.build s ops).1.core ex (.collectInto .vec []) = _
    rw [Par.core_collectInto _ ex hok, hv]; rfl
  | collect =>
    show (Par.build s ops).1.core ex (.collectInto .splitVec []) = _
    rw [Par.core_collectInto _ ex hok, hv]; rfl
  | collectInto tg pre =>
    show (Par.build s ops).1.core ex (.collectInto tg pre) = _
    rw [Par.core_collectInto _ ex hok, hv]; rfl
  | collectX =>
    show (Par.build s ops).1.core ex .collectX = _
    rw [Par.core_collectX_seq _ ex h, hv]; rfl
  | count =>
    show (Par.build s ops).1.core ex .count = _
    rw [Par.core_count _ ex hok, hv]; rfl
  | forEach => simp [Terminal.plain] at ht
  | reduce op =>
    show (Par.build s ops).1.core ex (.reduce op) = _
    rw [Par.core_reduce_seq _ ex h, hv]; rfl
  | fold op identity =>
    show (match (Par.build s ops).1.core ex (.reduce op) with
      | .opt o => Outcome.opt (some (o.getD identity))
      | o => o) = _
    rw [Par.core_reduce_seq _ ex h, hv]; rfl
  | sum =>
    show (match (Par.build s ops).1.core ex (.reduce fun x y => (x + y) % 2 ^ 64) with
      | .opt o => Outcome.opt (some (o.getD 0))
      | o => o) = _
    rw [Par.core_reduce_seq _ ex h, hv]; rfl
  | min =>
    show (Par.build s ops).1.core ex (.reduce Nat.min) = _
    rw [Par.core_reduce_seq _ ex h, hv]; rfl
  | max =>
    show (Par.build s ops).1.core ex (.reduce Nat.max) = _
    rw [Par.core_reduce_seq _ ex h, hv]; rfl
  | minBy =>
    show (Par.build s ops).1.core ex (.reduce (selMinBy id)) = _
    rw [Par.core_reduce_seq _ ex h, hv]; rfl
  | maxBy =>
    show (Par.build s ops).1.core ex (.reduce (selMaxBy id)) = _
    rw [Par.core_reduce_seq _ ex h, hv]; rfl
  | minByKey key =>
    show (Par.build s ops).1.core ex (.reduce (selMinBy key)) = _
    rw [Par.core_reduce_seq _ ex h, hv]; rfl
  | maxByKey key =>
    show (Par.build s ops).1.core ex (.reduce (selMaxBy key)) = _
    rw [Par.core_reduce_seq _ ex h, hv]; rfl
  | find q =>
    show (Par.build s ops).1.core ex (.find q) = _
    rw [Par.core_find _ ex q (Or.inl h), hv]; rfl
  | first =>
    show (Par.build s ops).1.core ex .first = _
    rw [Par.core_first _ ex (Or.inl h), hv]; rfl
  | any q =>
    show (match (Par.build s ops).1.core ex (.find q) with
      | .opt o => Outcome.bool o.isSome
      | o => o) = _
    rw [Par.core_find _ ex q (Or.inl h), hv]
    show Outcome.bool _ = Outcome.bool _
    congr 1
    induction seqVals s.items ops with
    | nil => rfl
    | cons x xs ih => simp only [List.find?_cons, List.any_cons]; cases q x <;> simp [ih]
  | all q =>
    show (match (Par.build s ops).1.core ex (.find fun x => !q x) with
      | .opt o => Outcome.bool o.isNone
      | o => o) = _
    rw [Par.core_find _ ex _ (Or.inl h), hv]
    show Outcome.bool _ = Outcome.bool _
    congr 1
    induction seqVals s.items ops with
    | nil => rfl
    | cons x xs ih => simp only [List.find?_cons, List.all_cons]; cases q x <;> simp [ih]
  | findIdx q => simp [Terminal.plain] at ht
  | firstIdx => simp [Terminal.plain] at ht

/-- **C09 (chunk size is irrelevant).** two executions that differ in everything (assignment,
    workers, chunk sizes) give the same value in sequential mode -/
theorem C09_context_irrelevant (s : Src) (ops : List Op) (ex ex' : Exec)
    (h : (Par.build s ops).1.params.isSequential = true) (t : Terminal) (ht : t.plain = true) :
    (Par.build s ops).1.term ex t = (Par.build s ops).1.term ex' t := by
  rw [C09_seq_value s ops ex h t ht, C09_seq_value s ops ex' h t ht]

/-- **C09 (index terminals).** -/
theorem C09_seq_find_idx (P : Par) (ex : Exec) (q : Val → Bool) (hs : P.hasIdx = true)
    (h : P.params.isSequential = true) : P.term ex (.findIdx q) = .optIdx (specIdx P q) :=
  Par.core_findIdx_supported P ex q hs (Or.inl h)

/-- **C09 (order of the invocations of every stage).** with pairwise distinct stage ids, stage `k`
    sees its arguments — those evaluated when an eager site materialised its upstream, then those
    of the final pipeline — in exactly the order of the std chain -/
theorem C09_stage_order (s : Src) (ops : List Op) (hd : (ops.filterMap Op.stageId?).Nodup) (k : Nat) :
    ((Par.build s ops).2 ++ (Par.build s ops).1.stream.log).filter (·.stage == k)
      = (seqStream s.items ops).log.filter (·.stage == k) :=
  stage_order s ops hd k

/-- … and in sequential mode the terminal phase is the front-to-back evaluation of the stream -/
theorem C09_seq_log (P : Par) (ex : Exec) (h : P.params.isSequential = true) :
    P.fullLog ex = P.stream.log := by
  simp [Par.fullLog, h]

/-- non-vacuity: a non-associative, non-commutative operator (subtraction-like) in sequential
    mode gives the left fold `((10 - 3) - 2)`, with a chunk size and an execution context that
    would split the input -/
example :
    (Par.build ⟨[10, 3, 2], true⟩ [.numThreads (.max 1), .chunkSize (.exact 1)]).1.term
      { asg := [⟨2, 0, [10]⟩, ⟨1, 1, [3, 2]⟩], order := [1, 2], cs := fun _ => 1 }
      (.reduce fun a b => a - b) = .opt (some 5) := by
  rw [C09_seq_value _ _ _ (by rfl) _ (by rfl)]
  rfl

/-- **C09 (ties of the by-key selections).** the value `reduce` computes with the library's
    `max_by` / `max_by_key` operator is the LAST of the maximal elements, and with its `min_by` /
    `min_by_key` operator the FIRST of the minimal ones — what `Iterator::max_by(_key)` and
    `Iterator::min_by(_key)` are documented to return (since `fix:` commit dec7df0; before it the
    maximum was the first maximal element) -/
theorem C09_max_by_key_is_the_last_maximum (key : Val → Nat) (xs : List Val) (hne : xs ≠ []) :
    ∃ pre r post, xs = pre ++ r :: post ∧ K.reduceList (selMaxBy key) xs = some r ∧
      (∀ y ∈ pre, key y ≤ key r) ∧ (∀ y ∈ post, key y < key r) :=
  reduce_selMax_last key xs hne

theorem C09_min_by_key_is_the_first_minimum (key : Val → Nat) (xs : List Val) (hne : xs ≠ []) :
    ∃ pre r post, xs = pre ++ r :: post ∧ K.reduceList (selMinBy key) xs = some r ∧
      (∀ y ∈ pre, key r < key y) ∧ (∀ y ∈ post, key r ≤ key y) :=
  reduce_selMin_first key xs hne

/-- the defect the fix repairs, on three jobs of priority 3, 1, 3: the old operator
    (`Greater | Equal => x`) selects the first one, std and the repaired operator the last -/
example : K.reduceList (selMaxBy (· / 10)) [30, 10, 31] = some 31 ∧
    K.reduceList (fun x y => if x / 10 ≥ y / 10 then x else y) [30, 10, 31] = some 30 := by decide

end OrxPar
