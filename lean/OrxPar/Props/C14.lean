/-
  C14 — A panicking closure propagates as a panic and never corrupts memory.
  (a) memory: when a closure panics while other workers keep writing, the partially written
      ordered bag of `map_col` is, since the `fix:` commit, held in `ManuallyDrop` and leaked:
      no never-initialised cell is dropped, nothing is dropped twice, for every subset of
      positions written so far (`C14_bag_unwind_no_bad`).  The pinned behaviour — the bag dropped
      with the dependency's "counts differ ⇒ drop up to capacity" rule — is kept as
      `Bag.unwindUnguarded` with the proof that it *does* drop never-written cells whenever the
      run is interrupted with a gap (`C14_pinned_defect`).  The filtering kernels keep their
      results in ordinary `Vec`s which unwinding drops normally (safe Rust).
  (b) propagation: `std::thread::scope` re-raises a worker's panic after joining all workers and
      `join().expect(..)` panics on a panicked worker; this behaviour of `std` is modelled in
      `Model/Panic.lean` together with the join structure of `Runner::{run, run_map, reduce}`;
      `C14_propagates`: for every pipeline, accepted execution and invocation the sequential
      evaluation reaches, some worker evaluates it and the call panics; `C14_evaluated_panics`:
      whenever any worker evaluates it (find family included); `C14_no_spurious_panic`: otherwise
      the entry points return what the panic-free model returns.  Observed on every run.
  (c) the workers that did not panic finish: every worker's loop terminates because a panicking
      worker no longer pulls (C10's measure argument applies to the remaining workers).
-/
import OrxPar.Lemmas.Resources
import OrxPar.Lemmas.Panic
import OrxPar.Lemmas.PanicShort
namespace OrxPar
open Res

/-- **C14 (no bad drop while unwinding).** -/
theorem C14_bag_unwind_no_bad (pre : List Nat) (extra : Nat) (ws : List (Nat × Nat))
    (hin : ∀ w ∈ ws, w.1 < pre.length + extra) :
    ((Bag.new pre extra).writes ws).unwindGuarded.bad = 0 ∧
    ((Bag.new pre extra).writes ws).unwindGuarded.dropped = [] :=
  bag_unwind_guarded pre extra ws hin

/-- **C14 (the defect the `fix:` commit repairs).** with the bag dropped during unwinding, every
    interrupted run that leaves a gap drops never-initialised memory -/
theorem C14_pinned_defect (pre : List Nat) (extra : Nat) (ws : List (Nat × Nat))
    (hin : ∀ w ∈ ws, pre.length ≤ w.1 ∧ w.1 < pre.length + extra)
    (hnd : (ws.map (·.1)).Nodup) (hgap : ws.length < extra) (hne : ws ≠ [])
    (hmis : ((Bag.new pre extra).writes ws).numPushed ≠ ((Bag.new pre extra).writes ws).len) :
    0 < ((Bag.new pre extra).writes ws).unwindUnguarded.bad :=
  bag_unwind_unguarded_bad pre extra ws hin hnd hgap hne hmis

/-- concrete witness: capacity 3, only position 2 written when the panic strikes -/
theorem C14_pinned_defect_witness : 0 < ((Bag.new [] 3).writes [(2, 7)]).unwindUnguarded.bad :=
  bag_unwind_unguarded_witness

/-- the merge never runs on a panicking path, and the source drops what was not taken -/
theorem C14_source_after_panic (toks : List Nat) (ops : List SrcOp) :
    let st := ops.foldl VecSrc.apply (VecSrc.new toks, [])
    st.1.drop.bad = 0 :=
  (src_ledger toks ops).2.1

/-! ### propagation

`Model/Panic.lean` transcribes how the three entry points of `Runner` treat their workers
(`run`: scope only; `run_map`: `join().expect(..)` in a loop; `reduce`: `join().expect(..)`
interleaved with the fold).  A worker is described by the closure invocations it evaluates
(`evs t`) and the value it would return (`val t`); it unwinds iff the panicking invocation
`pe` is among the former. -/

/-- **C14 (propagation, any kernel incl. the find family).** if *some* worker evaluates the
    panicking invocation, each of the three entry points panics on the calling thread — never a
    value — whatever the other workers return, in whatever order they were spawned -/
theorem C14_evaluated_panics {β : Type} (order : List Nat) (evs : Nat → List Event) (pe : Event)
    (h : ∃ t ∈ order, pe ∈ evs t) (val : Nat → β) (op : β → β → β) (u : Nat → Unit) :
    RunnerP.reduce (order.map (workerRes evs pe val)) op = .panic ∧
    RunnerP.runMap (order.map (workerRes evs pe val)) = .panic ∧
    RunnerP.run (order.map (workerRes evs pe u)) = .panic :=
  ⟨RunnerP.reduce_panics _ op (workerRes_any_panicked evs pe val order h),
   RunnerP.runMap_panics _ (workerRes_any_panicked evs pe val order h),
   by rw [RunnerP.run_eq, workerRes_any_panicked evs pe u order h]; rfl⟩

/-- **C14 (propagation, full-visit terminals).** for every pipeline, every accepted execution of
    its runner (any tiling, any assignment, any spawn order) and every invocation `pe` the
    sequential evaluation reaches: some worker evaluates `pe`, hence the call panics -/
theorem C14_propagates (P : Par) (ex : Exec) (h : ex.Accepts P.src.items) (pe : Event)
    (hpe : pe ∈ P.stream.log) {β : Type} (task : Nat → List Chunk → β) (op : β → β → β) :
    RunnerP.reduce (ex.order.map (workerRes (P.workerEvents ex) pe
        fun t => task (ex.cs t) (ex.chunksOf t))) op = .panic ∧
    RunnerP.runMap (ex.order.map (workerRes (P.workerEvents ex) pe
        fun t => task (ex.cs t) (ex.chunksOf t))) = .panic ∧
    RunnerP.run (ex.order.map (workerRes (P.workerEvents ex) pe fun _ => ())) = .panic :=
  C14_evaluated_panics ex.order _ pe (Par.some_worker_evaluates P ex h pe hpe) _ op _

/-- **C14 (no spurious panic).** if the panicking invocation is not reached by the sequential
    evaluation, no worker reaches it and the entry points return exactly what the panic-free
    model (`Exec.reduce`, `Exec.runMap`) says -/
theorem C14_no_spurious_panic (P : Par) (ex : Exec) (h : ex.Accepts P.src.items) (pe : Event)
    (hpe : pe ∉ P.stream.log) {β : Type} (task : Nat → List Chunk → β) (op : β → β → β) :
    RunnerP.reduce (ex.order.map (workerRes (P.workerEvents ex) pe
        fun t => task (ex.cs t) (ex.chunksOf t))) op = .ret (ex.order.length, ex.reduce task op) ∧
    RunnerP.runMap (ex.order.map (workerRes (P.workerEvents ex) pe
        fun t => task (ex.cs t) (ex.chunksOf t))) = .ret (ex.runMap task) := by
  have hno := Par.no_worker_evaluates P ex h pe hpe
  rw [workerRes_map_ok _ pe _ ex.order hno, RunnerP.reduce_ok, RunnerP.runMap_ok]
  simp [Exec.reduce, Exec.runMap]

/-- **C14 (the check's panic prediction, `panicPred`, answer "no").** if neither the construction
    effects nor any possible invocation of the terminal equals `pe`, then no execution — full
    visit or short-circuit, any tiling of any pulled prefix, any distribution over workers —
    evaluates `pe`: the call cannot panic because of it -/
theorem C14_pred_no_sound (eff : List Event) (P : Par) (t : Terminal) (pe : Event) (ex : Exec) (n : Nat)
    (hfull : t.isShortCircuit = false →
      (P.forTerminal t).1.params.isSequential = true ∨ ex.Accepts (P.forTerminal t).1.src.items)
    (hshort : t.isShortCircuit = true → P.params.isSequential = true ∨
      (Tiles ex.asg 0 (P.src.items.take n) ∧ ex.order.Nodup ∧ ∀ c ∈ ex.asg, c.tid ∈ ex.order))
    (h : panicPred eff P t pe = .no) : pe ∉ eff ++ P.termLog ex t := by
  unfold panicPred at h
  split at h
  · cases h
  · rename_i h1
    split at h
    · cases h
    · rename_i h2
      simp only [Bool.or_eq_true, List.contains_iff_mem, not_or] at h1
      simp only [List.contains_iff_mem] at h2
      intro hm
      rcases List.mem_append.mp hm with hm | hm
      · exact h1.1 hm
      · cases hsc : t.isShortCircuit with
        | false => exact h2 ((Par.termLog_perm_full P ex t hsc (hfull hsc)).mem_iff.mp hm)
        | true => exact h2 (Par.termLog_sub_possible_short P ex t hsc n (hshort hsc) pe hm)

/-- **C14 (answer "yes", full-visit terminals).** every accepted execution evaluates `pe` -/
theorem C14_pred_yes_full (eff : List Event) (P : Par) (t : Terminal) (pe : Event) (ex : Exec)
    (hsc : t.isShortCircuit = false)
    (hacc : (P.forTerminal t).1.params.isSequential = true ∨ ex.Accepts (P.forTerminal t).1.src.items)
    (h : panicPred eff P t pe = .yes) : pe ∈ eff ++ P.termLog ex t := by
  unfold panicPred at h
  split at h
  · rename_i h1
    simp only [Bool.or_eq_true, List.contains_iff_mem] at h1
    rcases h1 with h1 | h1
    · exact List.mem_append_left _ h1
    · rw [Par.certain_eq_possible_full P t hsc] at h1
      exact List.mem_append_right _ ((Par.termLog_perm_full P ex t hsc hacc).mem_iff.mpr h1)
  · split at h <;> cases h

/-- **C14 (answer "yes", short-circuit terminals).** in every accepted execution of a
    short-circuit terminal — the pulled chunks tile a prefix of the source that is everything or
    contains a hit, distributed over the workers in any way — every invocation of the lazy
    sequential evaluation is performed: whoever pulled an element before the first hit scans it
    completely, and the first hit is scanned up to its match -/
theorem C14_pred_yes_short (eff : List Event) (P : Par) (t : Terminal) (pe : Event) (ex : Exec)
    (n : Nat) (hsc : t.isShortCircuit = true)
    (ht : Tiles ex.asg 0 (P.src.items.take n)) (htid : ∀ c ∈ ex.asg, c.tid ∈ ex.order)
    (hcov : P.src.items.length ≤ n ∨ ∃ x ∈ P.src.items.take n, hitOf (P.scanFn t) x = true)
    (h : panicPred eff P t pe = .yes) : pe ∈ eff ++ P.termLog ex t := by
  unfold panicPred at h
  split at h
  · rename_i h1
    simp only [Bool.or_eq_true, List.contains_iff_mem] at h1
    rcases h1 with h1 | h1
    · exact List.mem_append_left _ h1
    · exact List.mem_append_right _ (Par.certain_sub_termLog_short P ex t hsc n ht htid hcov pe h1)
  · split at h <;> cases h

/-- the refuted alternative (a seeded change once made `run_map` collect its handles with
    `flat_map(|h| h.join())`): the panic is swallowed and a value is returned -/
theorem C14_swallowing_join_returns_a_value :
    RunnerP.runMapSwallow [WRes.ok 1, WRes.panicked, WRes.ok 3] = .ret [1, 3] := rfl

/-- non-vacuity: two workers, the second one evaluates the panicking invocation `⟨0, 12⟩` -/
example : (⟨[⟨1, 0, [10, 11]⟩, ⟨2, 2, [12]⟩], [1, 2], fun _ => 2⟩ : Exec).Accepts [10, 11, 12] ∧
    (⟨0, 12⟩ : Event) ∈ (Par.map {} ⟨[10, 11, 12], true⟩ (callW 0 (· + 1))).stream.log :=
  ⟨⟨by simp [Tiles], by decide, by simp⟩, by decide⟩

end OrxPar
