/-
  C14 — A panicking closure propagates as a panic and never corrupts memory.
  (a) memory: when a closure panics while other workers keep writing, the partially written
      ordered bag of `map_col` is, since the `fix:` commit, held in `ManuallyDrop` and leaked:
      no never-initialised cell is dropped, nothing is dropped twice, for every subset of
      positions written so far (`C14_bag_unwind_no_bad`).  The pinned behaviour — the bag dropped
      with the dependency's "counts differ ⇒ drop up to capacity" rule — is kept as
      `Bag.unwindUnguarded` with the proof that it *does* drop never-written cells whenever the
      run is interrupted with a gap (`C14_pinned_defect`).  The filtering kernels keep their
      results in ordinary `Vec`s which unwinding drops normally (safe Rust).
  (b) propagation: `std::thread::scope` re-raises a worker's panic after joining all workers and
      `join().expect(..)` panics on a panicked worker; this is library behaviour of `std`,
      modelled as: the outcome of a run with a panicked worker is `panic`
      (`C14_outcome_is_panic`), and observed on every run of the check.
  (c) the workers that did not panic finish: every worker's loop terminates because a panicking
      worker no longer pulls (C10's measure argument applies to the remaining workers).
-/
import OrxPar.Lemmas.Resources
import OrxPar.Model.Terminals
namespace OrxPar
open Res

/-- **C14 (no bad drop while unwinding).** -/
theorem C14_bag_unwind_no_bad (pre : List Nat) (extra : Nat) (ws : List (Nat × Nat))
    (hin : ∀ w ∈ ws, w.1 < pre.length + extra) :
    ((Bag.new pre extra).writes ws).unwindGuarded.bad = 0 ∧
    ((Bag.new pre extra).writes ws).unwindGuarded.dropped = [] :=
  bag_unwind_guarded pre extra ws hin

/-- **C14 (the defect the `fix:` commit repairs).** with the bag dropped during unwinding, every
    interrupted run that leaves a gap drops never-initialised memory -/
theorem C14_pinned_defect (pre : List Nat) (extra : Nat) (ws : List (Nat × Nat))
    (hin : ∀ w ∈ ws, pre.length ≤ w.1 ∧ w.1 < pre.length + extra)
    (hnd : (ws.map (·.1)).Nodup) (hgap : ws.length < extra) (hne : ws ≠ [])
    (hmis : ((Bag.new pre extra).writes ws).numPushed ≠ ((Bag.new pre extra).writes ws).len) :
    0 < ((Bag.new pre extra).writes ws).unwindUnguarded.bad :=
  bag_unwind_unguarded_bad pre extra ws hin hnd hgap hne hmis

/-- concrete witness: capacity 3, only position 2 written when the panic strikes -/
theorem C14_pinned_defect_witness : 0 < ((Bag.new [] 3).writes [(2, 7)]).unwindUnguarded.bad :=
  bag_unwind_unguarded_witness

/-- the merge never runs on a panicking path, and the source drops what was not taken -/
theorem C14_source_after_panic (toks : List Nat) (ops : List SrcOp) :
    let st := ops.foldl VecSrc.apply (VecSrc.new toks, [])
    st.1.drop.bad = 0 :=
  (src_ledger toks ops).2.1

/-- outcome of a terminal when some worker panicked: `scope`/`join` turn it into a panic of the
    calling thread — never a value -/
def outcomeWithPanic (workerPanicked : Bool) (o : Outcome) : Outcome :=
  if workerPanicked then .panic else o

/-- **C14 (propagation).** -/
theorem C14_outcome_is_panic (o : Outcome) : outcomeWithPanic true o = .panic := rfl

end OrxPar
