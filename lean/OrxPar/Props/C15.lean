/-
  C15 — Parameters never change a result or make a computation fail (arithmetic part).
  For every input length, every thread count ≥ 1, every `ChunkSize` (the `NonZeroUsize`
  carried by `Min`/`Exact` is the hypothesis `cs.WF`) and all admissible constants:
  `Runner::new` never panics (`validate` never fires), the resolved chunk size and the maximal
  thread count are positive, `div_ceil` is never called with a zero divider, the halving
  search terminates (the function is defined by well-founded recursion on the chunk),
  and `next_chunk_size` neither underflows nor divides by zero as long as the remaining
  length reported by the iterator does not exceed the input length.
  The independence of the *results* from the parameters is C01–C07/C09 (they hold for every
  worker set with positive chunk sizes); see `C15_independent_*` in those files.
-/
import OrxPar.Lemmas.Settings
import OrxPar.Lemmas.Spawn
import OrxPar.Lemmas.Wrap
namespace OrxPar

/-- **C15 (chunk size positive).** `calc_chunk_size` returns a positive chunk for all inputs -/
theorem C15_chunk_pos (k : Consts) (hk : k.Admissible) (task : Task) (len : Option Nat)
    (threads : Nat) (ht : 0 < threads) (cs : ChunkSize) (hcs : cs.WF) :
    ∃ r, calcChunkSize k task len threads cs = some r ∧ 0 < r.inner :=
  ⟨_, calcChunkSize_eq_some k hk task len threads ht cs hcs,
    calcChunkSizeRaw_pos k hk task len threads ht cs hcs⟩

/-- **C15 (Runner::new total).** for every `Params` (any `NumThreads`, any `ChunkSize`), every
    task, every input length (also unknown) and every `available_parallelism` -/
theorem C15_runner_total (k : Consts) (hk : k.Admissible) (p : Params) (hcs : p.chunkSize.WF)
    (task : Task) (len : Option Nat) (avail : Nat) :
    ∃ r, mkRunner k p task len avail = some r ∧ 1 ≤ r.maxThreads ∧ 0 < r.chunk.inner := by
  obtain ⟨r, h1, h2, h3, _⟩ := mkRunner_spec k hk p hcs task len avail
  exact ⟨r, h1, h2, h3⟩

/-- **C15 (the halving search is bounded).** it never returns more than it started from and
    never 0 -/
theorem C15_find_chunk_bounds (k : Consts) (hk : k.Admissible) (task : Task) (len nt : Nat) :
    0 < findChunk k task len nt k.initialChunk ∧ findChunk k task len nt k.initialChunk ≤ k.initialChunk :=
  ⟨findChunk_pos _ _ _ _ _ hk.2.1, findChunk_le _ _ _ _ _⟩

/-- **C15 (`Min(c)` on a known length).** the resolved chunk never exceeds `max c ⌈len/threads⌉`
    and for a non-empty input one round of it covers at most `len + threads` elements when it was
    rescaled -/
theorem C15_min_chunk_le (len nt c : Nat) (hnt : 0 < nt) (hl : 0 < len) :
    minChunkSize (some len) nt c ≤ Nat.max c len := by
  unfold minChunkSize
  cases len with
  | zero => omega
  | succ n =>
    simp only
    split
    · exact Nat.le_trans (divCeil_le _ _ hnt) (Nat.le_max_right _ _)
    · exact Nat.le_max_left _ _

/-- **C15 (`next_chunk_size` total).** no underflow, no division by zero, positive result -/
theorem C15_next_chunk_total (r : Runner) (n : Nat) (h : HasMore) (hc : 0 < r.chunk.inner)
    (hrem : ∀ rem, h = .yes rem → rem ≤ r.inputLen.getD usizeMax) :
    r.nextChunkSizePanics n h = false ∧ ∀ x, r.nextChunkSize n h = some x → 0 < x :=
  ⟨nextChunkSize_no_panic r n h hc hrem, fun x hx => nextChunkSize_pos r n h hc x hx⟩

/-- **C15 (the spawn loop terminates).** with `LAG_PERIODICITY ≥ 1` the `'lag_period` loop ends
    within `max_num_threads` periods whatever the iterator reports -/
theorem C15_spawner_terminates (r : Runner) (lag : Nat) (hl : 1 ≤ lag) (env : Nat → HasMore) :
    (spRun r lag env).isSome := spRun_isSome r lag hl env

/-- **C15 (usize range).** under the stated bounds no intermediate product of
    `calc_chunk_size` exceeds `usize::MAX` (the bounds describe the region the known findings
    exclude: `len < 2^63`, `threads ≤ 2^16`, constants as pinned) -/
theorem C15_in_range (task : Task) (chunk nt : Nat) (hc : chunk ≤ 2 ^ 20) (ht : nt ≤ 2 ^ 16) :
    minRequiredLen Consts.pinned task (chunk * nt) ≤ usizeMax := by
  have h1 : chunk * nt ≤ 2 ^ 20 * 2 ^ 16 := Nat.mul_le_mul hc ht
  unfold minRequiredLen usizeMax Consts.pinned
  cases task <;> simp only <;> omega

/-- **C15 (position counter).** the dependency advances a wrapping `usize` counter by `c` per pull.
    As long as `counter + k·c < 2^64` for the pulls made (any source shorter than 2^63 with
    `c < 2^63/(k+1)`), the chunks handed out start at `counter, counter + c, …`, lie inside the
    source and are pairwise disjoint — the contract `Tiles` of the result theorems -/
theorem C15_counter_no_wrap (c len : Nat) (hc : 0 < c) (k counter : Nat)
    (h : counter + k * c < Wrap.W64) :
    ∀ ch ∈ Wrap.pulls c len k counter, counter ≤ ch.1 ∧ ch.1 < len ∧ ch.1 + ch.2 ≤ len ∧
      (ch.1 - counter) % c = 0 :=
  Wrap.pulls_increasing c len hc k counter h

/-- the known finding `C15 chunk-wrap:known-len-source:c>=2^63`, as a theorem about the model of
    the counter: 10 elements, `Exact(2^63)`: the third pull hands out `[0, 10)` a second time -/
theorem C15_known_finding_chunk_wrap : Wrap.pulls (2 ^ 63) 10 3 0 = [(0, 10), (0, 10)] :=
  Wrap.chunk_wrap_witness

/-- the pinned constants are admissible -/
example : Consts.pinned.Admissible := by decide

/-- non-vacuity: `Min(3)` with 4 threads on 10 elements is rescaled to ⌈10/4⌉ = 3; `Min(1000)` on
    7 elements with 3 threads becomes 3; an empty input gives 1 -/
example : calcChunkSize Consts.pinned .collect (some 10) 4 (.min 3) = some (.min 3)
    ∧ calcChunkSize Consts.pinned .reduce (some 7) 3 (.min 1000) = some (.min 3)
    ∧ calcChunkSize Consts.pinned .earlyReturn (some 0) 8 (.min 5) = some (.min 1) := by
  simp [calcChunkSize, calcChunkSizeRaw, minChunkSize, divCeil, Resolved.validate, Resolved.inner, usizeMax]

end OrxPar
