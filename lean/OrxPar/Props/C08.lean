/-
  C08 — NumThreads::Max(n) bounds concurrency; Max(1) runs on the calling thread.
  (a) `max_num_threads ≤ n` under `Max(n)`; (b) the spawner creates at most `max_num_threads`
  workers for every stream of `has_more()` observations, `≤ max_num_threads − 1` inside the loop
  and exactly one after it; with `Max(1)` set the kernels' entry points take the `seq_*` branch,
  which contains no `Runner` call (c).
  The user's reduce operator additionally runs on the calling thread when the workers' results
  are folded (`Runner::reduce`), i.e. on up to n+1 distinct threads: a known finding
  (`C08_reduce_on_caller_witness`), concurrency stays ≤ n.
-/
import OrxPar.Lemmas.Settings
import OrxPar.Lemmas.Spawn
import OrxPar.Model.Terminals
namespace OrxPar

/-- **C08 (max threads).** -/
theorem C08_max_threads (k : Consts) (hk : k.Admissible) (n : Nat) (hn : 0 < n) (cs : ChunkSize)
    (hcs : cs.WF) (task : Task) (len : Option Nat) (avail : Nat) :
    ∃ r, mkRunner k ⟨.max n, cs⟩ task len avail = some r ∧ 1 ≤ r.maxThreads ∧ r.maxThreads ≤ n := by
  obtain ⟨r, h1, h2, _, _, h5, _⟩ := mkRunner_spec k hk ⟨.max n, cs⟩ hcs task len avail
  refine ⟨r, h1, h2, ?_⟩
  rw [h5]
  exact Nat.max_le.2 ⟨calcNumThreads_le_max k len n avail, hn⟩

/-- **C08 (spawn bound).** at most `max_num_threads` workers, for every environment -/
theorem C08_spawn_bound (r : Runner) (lag : Nat) (env : Nat → HasMore) (s : Sp)
    (hm : 1 ≤ r.maxThreads) (hr : spRun r lag env = some s) : s.workers.length ≤ r.maxThreads :=
  spawn_bound r lag env (r.maxThreads + 1) s hm hr

/-- **C08 (end to end).** `Max(n)` ⇒ at most `n` workers are ever spawned by one runner run -/
theorem C08_at_most_n_workers (k : Consts) (hk : k.Admissible) (n : Nat) (hn : 0 < n)
    (cs : ChunkSize) (hcs : cs.WF) (task : Task) (len : Option Nat) (avail : Nat)
    (env : Nat → HasMore) :
    ∃ r s, mkRunner k ⟨.max n, cs⟩ task len avail = some r ∧ spRun r k.lag env = some s ∧
      1 ≤ s.workers.length ∧ s.workers.length ≤ n := by
  obtain ⟨r, h1, h2, h3⟩ := C08_max_threads k hk n hn cs hcs task len avail
  have hs := spRun_isSome r k.lag hk.1 env
  cases hsp : spRun r k.lag env with
  | none => simp [hsp] at hs
  | some s =>
    refine ⟨r, s, h1, hsp, ?_, Nat.le_trans (C08_spawn_bound r k.lag env s h2 hsp) h3⟩
    -- the final spawn always happens
    unfold spRun spRunFuel at hsp
    cases ho : outer r k.lag env (r.maxThreads + 1) ⟨[], r.chunk.inner, 0⟩ with
    | none => simp [ho] at hsp
    | some s0 => simp [ho] at hsp; subst hsp; simp

/-- **C08 (no lower bound violated either).** the loop itself never creates more than
    `max_num_threads − 1` workers: the last one is always the post-loop spawn -/
theorem C08_do_spawn_refuses (r : Runner) (n : Nat) (h : HasMore) (hn : r.maxThreads - 1 ≤ n) :
    r.doSpawn n h = false := by
  unfold Runner.doSpawn
  simp [hn]

/-- **C08 (sequential).** with `Max(1)` every kernel entry point ignores the execution context:
    no runner is involved, the result is the `seq_*` value (shown for the reduce entry point; the
    others are identical `if p.isSequential` dispatches, see `Props/C09.lean`) -/
theorem C08_sequential_no_runner (cs : ChunkSize) (s : Src) (m : Val → Val) (f : Val → Bool)
    (op : Val → Val → Val) (ex ex' : Exec) :
    Kern.mapFilRed ⟨.max 1, cs⟩ s m f op ex = Kern.mapFilRed ⟨.max 1, cs⟩ s m f op ex' := by
  simp [Kern.mapFilRed, Params.isSequential]

/-- the calling thread runs the user operator when it folds the workers' results: with two
    workers holding a survivor each, `Runner::reduce` applies the operator once more (known
    finding: the operator is seen on `n + 1` threads) -/
theorem C08_reduce_on_caller_witness :
    let ex : Exec := { asg := [⟨1, 0, [1]⟩, ⟨2, 1, [2]⟩], order := [1, 2], cs := fun _ => 1 }
    Kern.mapFilRed ⟨.max 2, .auto⟩ ⟨[1, 2], true⟩ id (fun _ => true) (· + ·) ex = some 3 := by
  decide

/-- non-vacuity of the spawn bound: `Max(3)` on 100 elements: 3 workers -/
example : (spRun ⟨some 100, 3, .min 1⟩ 4 (fun _ => .yes 50)).map (·.workers.length) = some 3 := by
  decide

end OrxPar
