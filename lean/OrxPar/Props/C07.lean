/-
  C07 — collect_x returns a permutation of the sequential result.
  For every chain and every accepted execution the fragments appended in spawn order are, as a
  multiset, exactly the sequential result; in sequential mode they are equal to it.
-/
import OrxPar.Lemmas.Terminals
namespace OrxPar

/-- **C07.** nothing lost, nothing duplicated, nothing invented -/
theorem C07_collect_x (s : Src) (ops : List Op) (ex : Exec) (h : (Par.build s ops).1.Ok ex) :
    ∃ v, (Par.build s ops).1.term ex .collectX = .bag v ∧ v.Perm (seqVals s.items ops) := by
  obtain ⟨v, h1, h2⟩ := Par.core_collectX (Par.build s ops).1 ex h
  exact ⟨v, h1, by rw [build_stream_vals] at h2; exact h2⟩

/-- **C07 (sequential mode).** even the order is the sequential one -/
theorem C07_collect_x_seq (s : Src) (ops : List Op) (ex : Exec)
    (h : (Par.build s ops).1.params.isSequential = true) :
    (Par.build s ops).1.term ex .collectX = .bag (seqVals s.items ops) := by
  show (Par.build s ops).1.core ex .collectX = _
  rw [Par.core_collectX_seq _ ex h, build_stream_vals]

/-- **C07 (multiplicities).** stated with counts: every value occurs exactly as often as in the
    sequential result (inputs with duplicates) -/
theorem C07_counts (s : Src) (ops : List Op) (ex : Exec) (h : (Par.build s ops).1.Ok ex) :
    ∃ v, (Par.build s ops).1.term ex .collectX = .bag v ∧ ∀ x, v.count x = (seqVals s.items ops).count x := by
  obtain ⟨v, h1, h2⟩ := C07_collect_x s ops ex h
  exact ⟨v, h1, fun x => h2.count_eq x⟩

/-- non-vacuity: duplicates in the input, worker 2 spawned second holds the first chunk -/
example : ({ asg := [⟨2, 0, [7, 7]⟩, ⟨1, 2, [7, 3]⟩], order := [1, 2], cs := fun _ => 2 } : Exec).Accepts
    [7, 7, 7, 3] := ⟨by simp [Tiles], by decide, by simp⟩

end OrxPar
