/-
  C11 — ChunkSize::Exact(c): every pull takes exactly c elements.
  (a) `calc_chunk_size` resolves `Exact(c)` to itself; (b) under `Exact(c)` every worker ever
  spawned — in the first period, after any number of lag periods, and the final one — is handed
  `c`, whatever `has_more()` reports at any time (i.e. for every progress pattern of the other
  workers); (c) a worker pulls with its chunk size for its whole life and the iterator hands out
  consecutive blocks, so every pull has begin `k·c` and length `min c (len − k·c)`:
  that part is `C11_pulls` in `Props/C01.lean`'s transition system (`Model/Run.lean`).
-/
import OrxPar.Lemmas.Settings
import OrxPar.Lemmas.Spawn
namespace OrxPar

/-- **C11 (resolved).** -/
theorem C11_resolved (k : Consts) (task : Task) (len : Option Nat) (threads c : Nat) (hc : 0 < c) :
    calcChunkSize k task len threads (.exact c) = some (.exact c) :=
  calcChunkSize_exact k task len threads c hc

/-- **C11 (runner).** `Runner::new` with `Exact(c)` keeps `c`, for every `NumThreads`, task,
    input length, and `available_parallelism` -/
theorem C11_runner (k : Consts) (nt : NumThreads) (task : Task) (len : Option Nat) (avail c : Nat)
    (hc : 0 < c) :
    ∃ r, mkRunner k ⟨nt, .exact c⟩ task len avail = some r ∧ r.chunk = .exact c := by
  unfold mkRunner
  simp only [calcChunkSize_exact k task len _ c hc, Option.map_some]
  exact ⟨_, rfl, rfl⟩

/-- **C11 (next_chunk_size).** never changes an exact chunk -/
theorem C11_next_chunk (r : Runner) (c n : Nat) (h : HasMore) (hc : r.chunk = .exact c) (x : Nat)
    (hx : r.nextChunkSize n h = some x) : x = c := nextChunk_exact r c n h hc x hx

/-- **C11 (workers).** every worker the spawner ever creates is handed `c`, for every stream of
    `has_more()` observations and every lag periodicity -/
theorem C11_workers (r : Runner) (lag : Nat) (env : Nat → HasMore) (c : Nat)
    (hc : r.chunk = .exact c) (s : Sp) (hr : spRun r lag env = some s) : ∀ w ∈ s.workers, w = c :=
  workers_exact r lag env (r.maxThreads + 1) c hc s hr

/-- non-vacuity: `Max(6)` over 100 elements with `Exact(3)`, workers progressing between the
    spawner's observations: six workers, all with chunk 3 -/
example : (spRun ⟨some 100, 6, .exact 3⟩ 4 (fun i => .yes (100 - 7 * i))).map (·.workers)
    = some [3, 3, 3, 3, 3, 3] := by decide

/-- the contrast: the same run under `Min(3)` grows the chunk after the first period -/
example : (spRun ⟨some 100, 6, .min 3⟩ 4 (fun i => .yes (100 - 7 * i))).map (·.workers)
    = some [3, 3, 3, 3, 6, 6] := by decide

end OrxPar
