/-
  C11 — ChunkSize::Exact(c): every pull takes exactly c elements.
  (a) `calc_chunk_size` resolves `Exact(c)` to itself; (b) under `Exact(c)` every worker ever
  spawned — in the first period, after any number of lag periods, and the final one — is handed
  `c`, whatever `has_more()` reports at any time (i.e. for every progress pattern of the other
  workers); (c) a worker pulls with its chunk size for its whole life and the iterator hands out
  consecutive blocks, so every pull has begin `k·c` and length `min c (len − k·c)`
  (`C11_pulls`, on the worker transition system of `Model/Run.lean`, for every schedule), hence
  all positions of an aligned block are pulled by one worker (`C11_blocks`); `C11_end_to_end`
  composes (b) and (c).
-/
import OrxPar.Lemmas.Settings
import OrxPar.Lemmas.Spawn
import OrxPar.Lemmas.Run
namespace OrxPar

/-- **C11 (resolved).** -/
theorem C11_resolved (k : Consts) (task : Task) (len : Option Nat) (threads c : Nat) (hc : 0 < c) :
    calcChunkSize k task len threads (.exact c) = some (.exact c) :=
  calcChunkSize_exact k task len threads c hc

/-- **C11 (runner).** `Runner::new` with `Exact(c)` keeps `c`, for every `NumThreads`, task,
    input length, and `available_parallelism` -/
theorem C11_runner (k : Consts) (nt : NumThreads) (task : Task) (len : Option Nat) (avail c : Nat)
    (hc : 0 < c) :
    ∃ r, mkRunner k ⟨nt, .exact c⟩ task len avail = some r ∧ r.chunk = .exact c := by
  unfold mkRunner
  simp only [calcChunkSize_exact k task len _ c hc, Option.map_some]
  exact ⟨_, rfl, rfl⟩

/-- **C11 (next_chunk_size).** never changes an exact chunk -/
theorem C11_next_chunk (r : Runner) (c n : Nat) (h : HasMore) (hc : r.chunk = .exact c) (x : Nat)
    (hx : r.nextChunkSize n h = some x) : x = c := nextChunk_exact r c n h hc x hx

/-- **C11 (workers).** every worker the spawner ever creates is handed `c`, for every stream of
    `has_more()` observations and every lag periodicity -/
theorem C11_workers (r : Runner) (lag : Nat) (env : Nat → HasMore) (c : Nat)
    (hc : r.chunk = .exact c) (s : Sp) (hr : spRun r lag env = some s) : ∀ w ∈ s.workers, w = c :=
  workers_exact r lag env (r.maxThreads + 1) c hc s hr

/-- **C11 (pulls).** workers that all hold chunk size `c`, over a source of length `l`, under
    every schedule (any interleaving of pulls and evaluations, early exit included): every pull
    starts at a multiple of `c`, lies inside the source and takes exactly `min c (l − start)`
    consecutive elements — i.e. `c`, except for the one pull that reaches the end -/
theorem C11_pulls (src : Nat → Val) (l : Nat) (hit : Val → Bool) (n c : Nat) (hc : 0 < c)
    (sched : List Nat) :
    ∀ e ∈ (Run.run (Run.init src (some l) hit (List.replicate n c)) sched).log,
      c ∣ e.start ∧ e.start < l ∧ e.items.length = Nat.min c (l - e.start) ∧
      e.items = Run.slice src e.start (Nat.min c (l - e.start)) :=
  Run.exact_pulls src l hit n c hc sched

/-- **C11 (aligned blocks).** consequently every position of an aligned block `[k·c, (k+1)·c)`
    belongs to the pull — hence to the worker — that holds the block's first position -/
theorem C11_blocks (src : Nat → Val) (l : Nat) (hit : Val → Bool) (n c : Nat) (hc : 0 < c)
    (sched : List Nat) (e : Chunk)
    (he : e ∈ (Run.run (Run.init src (some l) hit (List.replicate n c)) sched).log) (i : Nat)
    (hi : e.start ≤ i ∧ i < e.start + e.items.length) : i / c = e.start / c :=
  Run.exact_blocks src l hit n c hc sched e he i hi

/-- **C11 (end to end).** `Exact(c)` in the runner ⇒ whatever the spawner observes, the workers
    it creates all hold `c` ⇒ under every schedule of those workers every pull is an aligned
    block of exactly `c` elements (the last one possibly shorter) -/
theorem C11_end_to_end (r : Runner) (lag : Nat) (env : Nat → HasMore) (c : Nat) (hc : 0 < c)
    (hr : r.chunk = .exact c) (s : Sp) (hs : spRun r lag env = some s)
    (src : Nat → Val) (l : Nat) (hit : Val → Bool) (sched : List Nat) :
    ∀ e ∈ (Run.run (Run.init src (some l) hit s.workers) sched).log,
      c ∣ e.start ∧ e.items.length = Nat.min c (l - e.start) := by
  have hw : s.workers = List.replicate s.workers.length c :=
    List.eq_replicate_iff.mpr ⟨rfl, C11_workers r lag env c hr s hs⟩
  rw [hw]
  intro e he
  have := C11_pulls src l hit s.workers.length c hc sched e he
  exact ⟨this.1, this.2.2.1⟩

/-- non-vacuity: `Max(6)` over 100 elements with `Exact(3)`, workers progressing between the
    spawner's observations: six workers, all with chunk 3 -/
example : (spRun ⟨some 100, 6, .exact 3⟩ 4 (fun i => .yes (100 - 7 * i))).map (·.workers)
    = some [3, 3, 3, 3, 3, 3] := by decide

/-- the contrast: the same run under `Min(3)` grows the chunk after the first period -/
example : (spRun ⟨some 100, 6, .min 3⟩ 4 (fun i => .yes (100 - 7 * i))).map (·.workers)
    = some [3, 3, 3, 3, 6, 6] := by decide

end OrxPar
