/-
  C04 — count and for_each visit every surviving element exactly once.
  `count` = length of the sequential result; `for_each f` (= `map(f).count()`) invokes `f` on
  exactly the multiset of sequential results — for every chain and every accepted execution,
  both code paths of the three count kernels including the hand-written nested loop of
  `filtermap_fil_cnt`.
-/
import OrxPar.Lemmas.Terminals
namespace OrxPar

/-- **C04 (count).** -/
theorem C04_count (s : Src) (ops : List Op) (ex : Exec) (h : (Par.build s ops).1.Ok ex) :
    (Par.build s ops).1.term ex .count = .num (seqVals s.items ops).length := by
  show (Par.build s ops).1.core ex .count = _
  rw [Par.core_count _ ex h, build_stream_vals]

/-- the nested loop of `filtermap_fil_cnt` (chunk size 1) counts the survivors of whatever
    sequence of elements the worker receives -/
theorem C04_nested_loop (fm : Val → Option Val) (f : Val → Bool) (l : List Val) :
    K.filtermapFilCntOne fm f l = (l.filterMap (K.fmSurv fm f)).length :=
  filtermapFilCntOne_eq fm f l

/-- **C04 (for_each).** the arguments `f` is invoked with are, as a multiset, the sequential
    result.  `P'` is the pipeline after the `map(f)` site of `for_each`; the execution is that of
    its `count`.  Stage ids of the chain must differ from the one used for `f`. -/
theorem C04_for_each (s : Src) (ops : List Op) (ex : Exec)
    (hst : ∀ op ∈ ops, op.stage? ≠ some stForEach)
    (h : ((Par.build s ops).1.applyT (.map stForEach fun _ => 0)).1.Ok ex) :
    ∃ v, (Par.build s ops).1.term ex .forEach = .bag v ∧ v.Perm (seqVals s.items ops) := by
  have hfresh : ∀ e ∈ (Par.build s ops).1.stream.log, e.stage ≠ stForEach := by
    intro e he hs
    obtain ⟨op, hop, hk⟩ := build_log_stages s ops e (List.mem_append_right _ he)
    exact hst op hop (by rw [hk, hs])
  have hargs := Par.forEach_args (Par.build s ops).1 hfresh
  have hcnt := Par.core_count _ ex h
  refine ⟨((((Par.build s ops).1.applyT (.map stForEach fun _ => 0)).1.stream.log.filter
    (·.stage == stForEach)).map (·.arg)), ?_, ?_⟩
  · show (match ((Par.build s ops).1.applyT (.map stForEach fun _ => 0)).1.core ex .count with
      | .num _ => Outcome.bag _
      | o => o) = _
    rw [hcnt]
  · rw [build_stream_vals] at hargs; exact hargs

/-- non-vacuity -/
example : ({ asg := [⟨1, 0, [4, 5, 6]⟩], order := [1, 2], cs := fun _ => 3 } : Exec).Accepts [4, 5, 6] :=
  ⟨by simp [Tiles], by decide, by simp⟩

end OrxPar
