/-
  C03 — reduce family combines every surviving element exactly once.
  `reduce` with an associative and commutative operator returns the sequential fold for every
  chain and every accepted execution (whatever the nesting chunk → worker → spawn order);
  `fold`, `sum`, `min`, `max` are instances; the by-key / by-comparison selections return, without
  assuming commutativity, one of the extremal survivors; the result is `none` (identity,
  default) iff nothing survives.
-/
import OrxPar.Lemmas.Terminals
namespace OrxPar
open K

/-- **C03 (reduce).** -/
theorem C03_reduce (s : Src) (ops : List Op) (ex : Exec) (h : (Par.build s ops).1.Ok ex)
    (op : Val → Val → Val) (hA : ∀ a b c, op (op a b) c = op a (op b c)) (hC : ∀ a b, op a b = op b a) :
    (Par.build s ops).1.term ex (.reduce op) = .opt (reduceList op (seqVals s.items ops)) := by
  show (Par.build s ops).1.core ex (.reduce op) = _
  rw [Par.core_reduce _ ex h op hA hC, build_stream_vals]

/-- `none` iff nothing survives -/
theorem C03_none_iff (op : Val → Val → Val) (l : List Val) : reduceList op l = none ↔ l = [] := by
  cases l <;> simp [reduceList]

/-- **C03 (fold).** the identity iff nothing survives -/
theorem C03_fold (s : Src) (ops : List Op) (ex : Exec) (h : (Par.build s ops).1.Ok ex)
    (op : Val → Val → Val) (identity : Val)
    (hA : ∀ a b c, op (op a b) c = op a (op b c)) (hC : ∀ a b, op a b = op b a) :
    (Par.build s ops).1.term ex (.fold op identity)
      = .opt (some ((reduceList op (seqVals s.items ops)).getD identity)) := by
  show (match (Par.build s ops).1.core ex (.reduce op) with
    | .opt o => Outcome.opt (some (o.getD identity))
    | o => o) = _
  rw [Par.core_reduce _ ex h op hA hC, build_stream_vals]

theorem addMod_assoc (a b c : Nat) : ((a + b) % 2 ^ 64 + c) % 2 ^ 64 = (a + (b + c) % 2 ^ 64) % 2 ^ 64 := by
  omega

/-- **C03 (sum).** (wrapping addition of 64-bit values) -/
theorem C03_sum (s : Src) (ops : List Op) (ex : Exec) (h : (Par.build s ops).1.Ok ex) :
    (Par.build s ops).1.term ex .sum
      = .opt (some ((reduceList (fun x y => (x + y) % 2 ^ 64) (seqVals s.items ops)).getD 0)) := by
  show (match (Par.build s ops).1.core ex (.reduce fun x y => (x + y) % 2 ^ 64) with
    | .opt o => Outcome.opt (some (o.getD 0))
    | o => o) = _
  rw [Par.core_reduce _ ex h _ (fun a b c => addMod_assoc a b c) (fun a b => by rw [Nat.add_comm]),
    build_stream_vals]

/-- **C03 (min / max).** -/
theorem C03_min (s : Src) (ops : List Op) (ex : Exec) (h : (Par.build s ops).1.Ok ex) :
    (Par.build s ops).1.term ex .min = .opt (reduceList Nat.min (seqVals s.items ops)) := by
  show (Par.build s ops).1.core ex (.reduce Nat.min) = _
  rw [Par.core_reduce _ ex h _ (fun a b c => Nat.min_assoc a b c) (fun a b => Nat.min_comm a b),
    build_stream_vals]

theorem C03_max (s : Src) (ops : List Op) (ex : Exec) (h : (Par.build s ops).1.Ok ex) :
    (Par.build s ops).1.term ex .max = .opt (reduceList Nat.max (seqVals s.items ops)) := by
  show (Par.build s ops).1.core ex (.reduce Nat.max) = _
  rw [Par.core_reduce _ ex h _ (fun a b c => Nat.max_assoc a b c) (fun a b => Nat.max_comm a b),
    build_stream_vals]

/-- the library's `min_by_key` operator is a minimum selection -/
theorem selMinBy_isMinSel (key : Val → Nat) : IsMinSel key (selMinBy key) := by
  refine ⟨fun a b => ?_, fun a b => ?_⟩
  · unfold selMinBy; split <;> simp
  · unfold selMinBy; split
    · rename_i h; exact (Nat.min_eq_left h).symm
    · rename_i h; exact (Nat.min_eq_right (by omega)).symm

/-- **C03 (min_by_key, min_by).** one of the survivors with minimal key, `none` iff nothing
    survives — for every execution; ties may resolve either way -/
theorem C03_min_by_key (s : Src) (ops : List Op) (ex : Exec) (h : (Par.build s ops).1.Ok ex)
    (key : Val → Nat) :
    ∃ r, (Par.build s ops).1.term ex (.minByKey key) = .opt r ∧ IsMinOf key (seqVals s.items ops) r := by
  obtain ⟨r, h1, h2⟩ := Par.core_reduce_select (Par.build s ops).1 ex h key (selMinBy key)
    (selMinBy_isMinSel key)
  exact ⟨r, h1, by rw [build_stream_vals] at h2; exact h2⟩

theorem C03_min_by (s : Src) (ops : List Op) (ex : Exec) (h : (Par.build s ops).1.Ok ex) :
    ∃ r, (Par.build s ops).1.term ex .minBy = .opt r ∧ IsMinOf id (seqVals s.items ops) r :=
  C03_min_by_key s ops ex h id

/-- a maximum selection seen as a minimum selection for the reversed key on a bounded range -/
theorem selMaxBy_isMinSel (key : Val → Nat) (B : Nat) (hB : ∀ v, key v ≤ B) :
    IsMinSel (fun v => B - key v) (selMaxBy key) := by
  refine ⟨fun a b => ?_, fun a b => ?_⟩
  · unfold selMaxBy; split <;> simp
  · have ha := hB a; have hb := hB b
    unfold selMaxBy; split
    · rename_i h; exact (Nat.min_eq_left (by omega)).symm
    · rename_i h; exact (Nat.min_eq_right (by omega)).symm

/-- **C03 (max_by_key, max_by).** for keys bounded by `B` (any bound; `usize` keys are): a
    survivor whose key is maximal -/
theorem C03_max_by_key (s : Src) (ops : List Op) (ex : Exec) (h : (Par.build s ops).1.Ok ex)
    (key : Val → Nat) (B : Nat) (hB : ∀ v, key v ≤ B) :
    ∃ r, (Par.build s ops).1.term ex (.maxByKey key) = .opt r ∧
      ((seqVals s.items ops = [] ∧ r = none) ∨
       ∃ v, r = some v ∧ v ∈ seqVals s.items ops ∧ ∀ y ∈ seqVals s.items ops, key y ≤ key v) := by
  obtain ⟨r, h1, h2⟩ := Par.core_reduce_select (Par.build s ops).1 ex h (fun v => B - key v)
    (selMaxBy key) (selMaxBy_isMinSel key B hB)
  rw [build_stream_vals] at h2
  refine ⟨r, h1, ?_⟩
  rcases h2 with h2 | ⟨v, hv, hm, hall⟩
  · exact Or.inl h2
  · refine Or.inr ⟨v, hv, hm, fun y hy => ?_⟩
    have h3 : B - key v ≤ B - key y := hall y hy
    have := hB y; have := hB v
    omega

/-- the sequential fold of the selection agrees (it picks the first extremal element) -/
theorem C03_select_seq (key : Val → Nat) (S : List Val) :
    IsMinOf key S (reduceList (selMinBy key) S) :=
  reduceList_select key (selMinBy key) (selMinBy_isMinSel key) S

/-- non-vacuity: ties — two survivors with the same minimal key in different workers -/
example : ({ asg := [⟨2, 0, [6, 3]⟩, ⟨1, 2, [9, 8]⟩], order := [1, 2], cs := fun _ => 2 } : Exec).Accepts
    [6, 3, 9, 8] := ⟨by simp [Tiles], by decide, by simp⟩
example : IsMinOf (· % 3) [6, 3, 9, 8] (some 3) :=
  Or.inr ⟨3, rfl, by simp, by decide⟩

end OrxPar
