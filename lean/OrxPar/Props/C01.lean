/-
  C01 — Ordered collection equals sequential iteration.
  For every source, every chain of transformations and setters (any length, any closures, any
  parameter values at any position), every collect target, and every accepted execution of the
  terminal's runner — any tiling of the index range into chunks, any chunk-to-worker
  assignment, any number of workers (some possibly empty), any spawn order, any chunk size per
  worker (both code paths of every kernel) — `collect_vec`, `collect`, `collect_into(empty)`
  return exactly `seqVals`, the `List.map/filter/flatMap/filterMap` chain.
  `C01_every_schedule` shows that every schedule of the worker transition system produces an
  accepted execution, so "accepted execution" covers "every interleaving".
  Stages materialised by the eager sites: `C01_materialised_stage`.
-/
import OrxPar.Lemmas.Terminals
import OrxPar.Lemmas.Run
import OrxPar.Lemmas.PartialSrc
namespace OrxPar

/-- **C01.** all three collect flavours, every target kind -/
theorem C01_collect (s : Src) (ops : List Op) (ex : Exec) (h : (Par.build s ops).1.Ok ex)
    (t : Target) :
    (Par.build s ops).1.term ex (.collectInto t []) = .vals (seqVals s.items ops) := by
  show (Par.build s ops).1.core ex (.collectInto t []) = _
  rw [Par.core_collectInto _ ex h, build_stream_vals]
  rfl

theorem C01_collect_vec (s : Src) (ops : List Op) (ex : Exec) (h : (Par.build s ops).1.Ok ex) :
    (Par.build s ops).1.term ex .collectVec = .vals (seqVals s.items ops) :=
  C01_collect s ops ex h .vec

theorem C01_collect_splitvec (s : Src) (ops : List Op) (ex : Exec) (h : (Par.build s ops).1.Ok ex) :
    (Par.build s ops).1.term ex .collect = .vals (seqVals s.items ops) :=
  C01_collect s ops ex h .splitVec

/-- the specification stream and the plain list semantics coincide -/
theorem C01_spec_is_std (src : List Val) (ops : List Op) : seqChain src ops = seqVals src ops :=
  seqStream_vals src ops

/-- **C01 (materialised stages).** what an eager site materialises equals `collect_vec` of that
    stage under *any* accepted execution of it: the model's use of the sequential evaluation at
    the eager sites loses no behaviour -/
theorem C01_materialised_stage (P : Par) (ex : Exec) (h : P.Ok ex) :
    P.core ex (.collectInto .vec []) = .vals (P.collectEager).1.items :=
  Par.collectEager_eq_collectVec P ex h

/-- **C01 (every interleaving).** every finished run of the worker transition system — every
    schedule, every number of workers and chunk sizes ≥ 1 — is an accepted execution -/
theorem C01_every_schedule (xs : List Val) (cs : List Nat) (hne : cs ≠ []) (hpos : ∀ c ∈ cs, 0 < c)
    (sched : List Nat)
    (hd : Run.AllDone (Run.run (Run.init (Run.ofList xs) (some xs.length) (fun _ => false) cs) sched)) :
    (Run.execOf (Run.run (Run.init (Run.ofList xs) (some xs.length) (fun _ => false) cs) sched)).Accepts xs :=
  Run.run_accepts_full xs cs hne hpos sched hd

/-- **C01 (end to end).** chain + any schedule of the terminal's runner -/
theorem C01_collect_all_schedules (s : Src) (ops : List Op) (cs : List Nat) (hne : cs ≠ [])
    (hpos : ∀ c ∈ cs, 0 < c) (sched : List Nat) (t : Target)
    (hd : Run.AllDone (Run.run (Run.init (Run.ofList (Par.build s ops).1.src.items)
      (some (Par.build s ops).1.src.items.length) (fun _ => false) cs) sched)) :
    (Par.build s ops).1.term
      (Run.execOf (Run.run (Run.init (Run.ofList (Par.build s ops).1.src.items)
        (some (Par.build s ops).1.src.items.length) (fun _ => false) cs) sched))
      (.collectInto t []) = .vals (seqVals s.items ops) :=
  C01_collect s ops _ (Or.inr (C01_every_schedule _ cs hne hpos sched hd)) t

/-- **known finding F (partially consumed concurrent iterator).** if the iterator handed to
    `into_par()` has already yielded `b > 0` elements, `map_col` writes element `i` of the
    remainder at `offset + b + i` while the bag was sized for the remainder: whatever the order of
    the writes, finishing the bag fails (the call panics) as soon as the remainder is non-empty;
    with `b = 0` the same writes are accepted and give `pre ++ xs.map m` -/
theorem C01_partial_source_finding (m : Val → Val) (pre xs : List Val) (b : Nat) (hb : 0 < b)
    (hne : xs ≠ []) (writes : List (Nat × Val))
    (hw : writes.Perm (mapColWritesFrom m pre.length b xs)) : K.bagFinish pre writes = none :=
  mapCol_partial_source_panics m pre xs b hb hne writes hw

theorem C01_fresh_source_ok (m : Val → Val) (pre xs : List Val) (writes : List (Nat × Val))
    (hw : writes.Perm (mapColWritesFrom m pre.length 0 xs)) :
    K.bagFinish pre writes = some (pre ++ xs.map m) :=
  mapCol_fresh_source_ok m pre xs writes hw

/-- non-vacuity: three workers, the one spawned second holds chunk 0 and the last chunk, the third
    got nothing; chunk sizes 2, 1, 5 -/
example : ({ asg := [⟨2, 0, [10, 11]⟩, ⟨1, 2, [12, 13]⟩, ⟨2, 4, [14]⟩], order := [1, 2, 3],
             cs := fun t => [2, 1, 5].getD (t - 1) 1 } : Exec).Accepts [10, 11, 12, 13, 14] :=
  ⟨by simp [Tiles], by decide, by simp⟩

/-- … and a finishing schedule of the transition system in which worker 1 pulls first -/
example : Run.AllDone (Run.run (Run.init (Run.ofList [10, 11, 12]) (some 3) (fun _ => false) [2, 2, 5])
    [1, 1, 0, 1, 0, 0, 2, 1, 0, 1, 0]) := by decide

end OrxPar
