/-
  C16 — Computations are lazy: nothing runs before the terminal call.
  A chain that avoids the eight eager sites has no construction effects: no closure runs and no
  source element is consumed while it is built and configured (`C16_lazy`), for every chain,
  source and parameter value; each of the eight eager sites runs the whole upstream pipeline at
  construction (`C16_eager_runs_upstream`) — these are recorded as known findings, measured on
  the real code on every run.
-/
import OrxPar.Lemmas.Logged
namespace OrxPar

/-- **C16.** -/
theorem C16_lazy (s : Src) (ops : List Op)
    (h : ∀ i (hi : i < ops.length), Par.isEagerSite (Par.build s (ops.take i)).1 ops[i] = false) :
    (Par.build s ops).2 = [] :=
  build_lazy s ops h

/-- … and the source is untouched: the built pipeline is, structurally, the std chain over the
    original source -/
theorem C16_lazy_structure (s : Src) (ops : List Op)
    (h : ∀ i (hi : i < ops.length), Par.isEagerSite (Par.build s (ops.take i)).1 ops[i] = false) :
    (Par.build s ops).1.stream = seqStream s.items ops :=
  build_lazy_stream s ops h

/-- setters never run anything, on any type -/
theorem C16_setters_lazy (P : Par) (v : NumThreads) (c : ChunkSize) :
    (P.applyT (.numThreads v)).2 = [] ∧ (P.applyT (.chunkSize c)).2 = [] := by
  cases P <;> exact ⟨rfl, rfl⟩

/-- every lazy site: no effects, source unchanged -/
theorem C16_lazy_site (P : Par) (op : Op) (h : P.isEagerSite op = false) :
    (P.applyT op).2 = [] ∧ (P.applyT op).1.src = P.src :=
  ⟨(Par.applyT_lazy_elem P op h 0).2.1, (Par.applyT_lazy_elem P op h 0).2.2⟩

/-- the eight eager sites (known findings): the whole upstream pipeline runs at construction -/
theorem C16_eager_runs_upstream (P : Par) (op : Op) (h : P.isEagerSite op = true) :
    (P.applyT op).2 = P.stream.log ∧ (P.applyT op).1.src.items = P.stream.vals := by
  refine ⟨(Par.applyT_eager P op h).2, ?_⟩
  cases P <;> cases op <;> simp [Par.isEagerSite] at h <;>
    simp [Par.applyT, Par.collectEager, Par.src]
  -- ParFlatMap.filter_map goes through `filter(no_filter)`
  all_goals first
    | rfl
    | (rename_i p s fm k hh
       rw [Par.stream_vals_flatMapFil, Par.stream_vals_flatMap]
       have : pv Par.noFilter = fun _ => true := rfl
       simp [this])

/-- exactly eight of the 32 (type, transformation) sites are eager -/
example : Par.isEagerSite (.fil {} ⟨[], true⟩ (pureW fun _ => true)) (.flatMap 0 fun _ => []) = true := rfl

/-- witness: `filter` then `flat_map` runs the filter on every element while the computation is
    being built -/
example : (Par.build ⟨[1, 2, 3], true⟩ [.filter 0 (· != 2), .flatMap 1 fun x => [x, x]]).2
    = [⟨0, 1⟩, ⟨0, 2⟩, ⟨0, 3⟩] := by decide

/-- non-vacuity of `C16_lazy`: a three-stage chain without eager sites -/
example : ∀ i (hi : i < 3), Par.isEagerSite
    (Par.build ⟨[1, 2], true⟩ (([.map 0 (· + 1), .filter 1 (· != 2), .map 2 (· * 2)] : List Op).take i)).1
    ([.map 0 (· + 1), .filter 1 (· != 2), .map 2 (· * 2)] : List Op)[i] = false := by
  intro i hi
  match i, hi with
  | 0, _ => rfl
  | 1, _ => rfl
  | 2, _ => rfl

end OrxPar
