/-
  C10 — Short-circuit terminals stop consuming input once a match is known.
  Transition system `Model/Run.lean` (source possibly unbounded, adversarial scheduler):
  (a) safety: from the moment a finder has published (`skip_to_end`) no pull succeeds any more
      and every worker evaluates at most the rest of the chunk it holds — a bound independent of
      how much input remains (`C10_no_pull_after_publication`, `C10_bounded_work`);
  (b) a finder publishes at its very next step after the matching evaluation; finite sources:
      every step of an unfinished worker decreases a measure, so every schedule that keeps
      scheduling unfinished workers finishes (`C10_progress`);
  (c) sequential mode: a chain executed in one pass evaluates exactly what std's lazy `find`
      evaluates — nothing beyond the first match (`C10_seq`).
  Termination on unbounded sources under fair rounds: `C10_terminates_fair` (Lemmas/RunFair.lean).
-/
import OrxPar.Lemmas.Run
import OrxPar.Lemmas.RunFair
import OrxPar.Lemmas.Logged
import OrxPar.Lemmas.SeqConsume
namespace OrxPar

/-- **C10 (no pull after publication).** for every continuation schedule -/
theorem C10_no_pull_after_publication (s : Run.State) (hs : s.stopped = true) (sched : List Nat) :
    (Run.run s sched).log = s.log ∧ (Run.run s sched).pos = s.pos ∧ (Run.run s sched).stopped = true :=
  Run.stopped_no_pull s hs sched

/-- **C10 (bounded work).** after publication a worker evaluates at most (a prefix of) the chunk
    it currently holds, whatever the length of the source (also unbounded) -/
theorem C10_bounded_work (s : Run.State) (hs : s.stopped = true) (sched : List Nat) (t : Nat)
    (w w' : Run.Worker) (hw : s.ws[t]? = some w) (hw' : (Run.run s sched).ws[t]? = some w') :
    ∃ k, w'.seen = w.seen ++ (Run.idx w.buf w.bufPos).take k ∧ w'.seen.length ≤ w.seen.length + w.buf.length := by
  obtain ⟨k, hk⟩ := Run.stopped_eval_bound s hs sched t w w' hw hw'
  refine ⟨k, hk, ?_⟩
  rw [hk]
  simp [Run.idx]
  omega

/-- **C10 (progress on finite sources).** every step of a worker that is not finished strictly
    decreases the measure `2·(len − pos) + Σ (|buf| + status weight)` -/
theorem C10_progress (s : Run.State) (l : Nat) (hl : s.len = some l) (t : Nat) (w : Run.Worker)
    (hw : s.ws[t]? = some w) (hnd : w.status ≠ .done) (hc : 0 < w.c) :
    Run.measure (Run.step s t) l < Run.measure s l :=
  Run.step_measure s l hl t w hw hnd hc

/-- **C10 (termination on unbounded sources).** if the source — of known, unknown or unbounded
    length — has a match at position `m`, then under every schedule consisting of fair rounds
    (every worker steps at least once per round; arbitrary order and repetitions inside a round;
    other matches may be found by anybody at any time) all workers are done after
    `2(m+1) + Σc + 2·#workers + 4` rounds: a bound that does not depend on how much input remains -/
theorem C10_terminates_fair (src : Nat → Val) (len : Option Nat) (hit : Val → Bool) (cs : List Nat)
    (hne : cs ≠ []) (hpos : ∀ c ∈ cs, 0 < c) (m : Nat) (hm : hit (src m) = true)
    (hin : ∀ l, len = some l → m < l)
    (rounds : List (List Nat)) (hfair : ∀ r ∈ rounds, Run.FairRound cs.length r)
    (hlen : Run.termBound m cs ≤ rounds.length) :
    Run.AllDone (Run.run (Run.init src len hit cs) rounds.flatten) :=
  Run.terminates_fair src len hit cs hne hpos m hm hin rounds hfair hlen

/-- finite sources without any match: fair rounds finish within a bound linear in the length -/
theorem C10_terminates_fair_finite (src : Nat → Val) (l : Nat) (hit : Val → Bool) (cs : List Nat)
    (hne : cs ≠ []) (hpos : ∀ c ∈ cs, 0 < c)
    (rounds : List (List Nat)) (hfair : ∀ r ∈ rounds, Run.FairRound cs.length r)
    (hlen : 2 * l + cs.sum + 2 * cs.length + 4 ≤ rounds.length) :
    Run.AllDone (Run.run (Run.init src (some l) hit cs) rounds.flatten) :=
  Run.terminates_fair_finite src l hit cs hne hpos rounds hfair hlen

/-- **C10 (sequential clause).** -/
theorem C10_seq (s : Src) (ops : List Op) (q : Val → Bool)
    (h : ∀ i (hi : i < ops.length), Par.isEagerSite (Par.build s (ops.take i)).1 ops[i] = false) :
    (Par.build s ops).1.seqFindLog q = ((seqStream s.items ops).filterW (callW stPred q)).first.2 :=
  find_seq_lazy s ops q h

/-- … which is a prefix of the full evaluation: nothing after the first match is evaluated -/
theorem C10_seq_prefix (P : Par) (q : Val → Bool) :
    P.seqFindLog q <+: (P.stream.filterW (callW stPred q)).log :=
  events_find_seq P q

/-- **C10 (sequential mode: the source is consumed up to the match and no further).** if the
    first source element whose pipeline output satisfies the predicate is `x`, preceded by `A`,
    then what follows `x` in the source has no influence on the evaluation: the closure invocations
    are those of the source truncated right after `x` — `std`'s lazy `find` never asks the source
    for another element (the oracle of the check counts the `next()` calls of an instrumented
    source against exactly this) -/
theorem C10_seq_consumes_up_to_the_match (P : Par) (q : Val → Bool) (A : List Val) (x : Val) (B : List Val)
    (hsrc : P.src.items = A ++ x :: B)
    (hA : ∀ a ∈ A, hitOf (P.elemQ q) a = false) (hx : hitOf (P.elemQ q) x = true) :
    P.seqFindLog q = scanLog (P.elemQ q) (A ++ [x]) :=
  Par.seqFind_independent_of_tail P q A x B hsrc hA hx

/-- non-vacuity: an unbounded source (`len = none`, element i is i), a hit at 5, three workers:
    worker 0 finds it, publishes; the others stop after their held chunk -/
example : Run.AllDone (Run.run (Run.init (fun i => i) none (· == 5) [2, 2, 2])
    [0, 1, 2, 0, 0, 0, 1, 2, 2, 2, 0, 0, 1, 1, 1, 2, 1, 0]) := by
  decide

/-- sequential find on `[1,2,3,4]` with predicate `(· == 12)` after `map (+10)`: the map is
    evaluated on 1 and 2 only -/
example : (Par.build ⟨[1, 2, 3, 4], true⟩ [.map 0 (· + 10)]).1.seqFindLog (· == 12)
    = [⟨0, 1⟩, ⟨stPred, 11⟩, ⟨0, 2⟩, ⟨stPred, 12⟩] := by decide

end OrxPar
