/-
  C06 — collect_into appends to, and never disturbs, existing contents.
  For target kind ∈ {Vec, SplitVec, FixedVec}, any existing contents `pre`, any chain, sources of
  known and unknown length, sequential or any accepted parallel execution:
  `collect_into(pre) = pre ++ (what collect_vec returns)`.
  The pinned (pre-`fix:`) behaviour of `Vec::map_into` for unknown-length sources is kept as
  `mapIntoPinned`, with the defect witness.
-/
import OrxPar.Lemmas.Terminals
namespace OrxPar

/-- **C06.** -/
theorem C06_collect_into (s : Src) (ops : List Op) (ex : Exec) (h : (Par.build s ops).1.Ok ex)
    (t : Target) (pre : List Val) :
    (Par.build s ops).1.term ex (.collectInto t pre) = .vals (pre ++ seqVals s.items ops) := by
  show (Par.build s ops).1.core ex (.collectInto t pre) = _
  rw [Par.core_collectInto _ ex h, build_stream_vals]

/-- **C06 (relative to collect_vec).** the appended part is exactly what `collect_vec` returns
    under the same execution -/
theorem C06_appends_collect_vec (P : Par) (ex : Exec) (h : P.Ok ex) (t : Target) (pre : List Val) :
    ∃ v, P.term ex .collectVec = .vals v ∧ P.term ex (.collectInto t pre) = .vals (pre ++ v) := by
  refine ⟨P.stream.vals, ?_, ?_⟩
  · show P.core ex (.collectInto .vec []) = _
    rw [Par.core_collectInto _ ex h]; rfl
  · show P.core ex (.collectInto t pre) = _
    rw [Par.core_collectInto _ ex h]

/-- the map-only, unknown-length branch of the pinned `Vec::map_into`:
    `SplitVec::…map_into(par_map).to_vec()`, which ignores `self` -/
def mapIntoPinned (_pre : List Val) (p : Params) (s : Src) (m : Val → Val) (ex : Exec) :
    Option (List Val) :=
  Kern.mapCol p s m [] ex

/-- the defect the `fix:` commit repairs: existing contents lost -/
theorem C06_pinned_defect_witness :
    mapIntoPinned [100, 200, 300] ⟨.max 1, .auto⟩ ⟨[1, 2], false⟩ (· + 1) ⟨[], [], fun _ => 1⟩
      ≠ some ([100, 200, 300] ++ [2, 3]) := by
  decide

/-- non-vacuity: a map-only pipeline over an unknown-length source into a non-empty `Vec`,
    two workers -/
example :
    (Par.build ⟨[1, 2, 3], false⟩ [.numThreads (.max 2), .map 0 (· + 1)]).1.term
      { asg := [⟨2, 0, [1]⟩, ⟨1, 1, [2, 3]⟩], order := [1, 2], cs := fun _ => 2 }
      (.collectInto .vec [100, 200]) = .vals [100, 200, 2, 3, 4] := by
  rw [C06_collect_into]
  · rfl
  · exact Or.inr ⟨by simp [Par.build, Par.new, Par.applyT, Par.setParams, Par.src, Tiles], by decide,
      by simp⟩

end OrxPar
