import OrxPar.Props.C10
open OrxPar
#print axioms C10_no_pull_after_publication
#print axioms C10_bounded_work
#print axioms C10_progress
#print axioms C10_seq
#print axioms C10_seq_prefix
#print axioms C10_terminates_fair
#print axioms C10_terminates_fair_finite
#print axioms C10_seq_consumes_up_to_the_match
