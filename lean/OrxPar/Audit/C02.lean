import OrxPar.Props.C02
open OrxPar
#print axioms C02_find
#print axioms C02_first
#print axioms C02_any
#print axioms C02_all
#print axioms C02_find_idx
#print axioms C02_idx_value
#print axioms C02_every_schedule
#print axioms C02_worker_reports_first
#print axioms C02_find_all_schedules
#print axioms C02_with_index_partial_source_finding
