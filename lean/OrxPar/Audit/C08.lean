import OrxPar.Props.C08
open OrxPar
#print axioms C08_max_threads
#print axioms C08_spawn_bound
#print axioms C08_at_most_n_workers
#print axioms C08_do_spawn_refuses
#print axioms C08_sequential_no_runner
#print axioms C08_reduce_on_caller_witness
