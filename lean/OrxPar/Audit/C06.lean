import OrxPar.Props.C06
import OrxPar.Props.AllSchedules
open OrxPar
#print axioms C06_collect_into
#print axioms C06_appends_collect_vec
#print axioms C06_pinned_defect_witness
#print axioms C06_collect_into_all_schedules
