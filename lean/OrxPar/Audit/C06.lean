import OrxPar.Props.C06
open OrxPar
#print axioms C06_collect_into
#print axioms C06_appends_collect_vec
#print axioms C06_pinned_defect_witness
