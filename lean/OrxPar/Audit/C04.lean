import OrxPar.Props.C04
open OrxPar
#print axioms C04_count
#print axioms C04_nested_loop
#print axioms C04_for_each
