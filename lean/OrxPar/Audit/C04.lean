import OrxPar.Props.C04
import OrxPar.Props.AllSchedules
open OrxPar
#print axioms C04_count
#print axioms C04_nested_loop
#print axioms C04_for_each
#print axioms C04_count_all_schedules
#print axioms C04_for_each_all_schedules
