import OrxPar.Props.C14
open OrxPar
#print axioms C14_bag_unwind_no_bad
#print axioms C14_pinned_defect
#print axioms C14_pinned_defect_witness
#print axioms C14_source_after_panic
#print axioms C14_evaluated_panics
#print axioms C14_propagates
#print axioms C14_no_spurious_panic
#print axioms C14_pred_no_sound
#print axioms C14_pred_yes_full
#print axioms C14_pred_yes_short
#print axioms C14_swallowing_join_returns_a_value
