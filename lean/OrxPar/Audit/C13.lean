import OrxPar.Props.C13
open OrxPar
#print axioms C13_merge_ledger
#print axioms C13_merge_out
#print axioms C13_merge_needs_set_len
#print axioms C13_bag_ledger
#print axioms C13_source_ledger
