import OrxPar.Props.C15
open OrxPar
#print axioms C15_chunk_pos
#print axioms C15_runner_total
#print axioms C15_find_chunk_bounds
#print axioms C15_min_chunk_le
#print axioms C15_next_chunk_total
#print axioms C15_spawner_terminates
#print axioms C15_in_range
#print axioms C15_counter_no_wrap
#print axioms C15_known_finding_chunk_wrap
