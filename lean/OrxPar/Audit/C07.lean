import OrxPar.Props.C07
open OrxPar
#print axioms C07_collect_x
#print axioms C07_collect_x_seq
#print axioms C07_counts
