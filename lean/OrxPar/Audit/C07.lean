import OrxPar.Props.C07
import OrxPar.Props.AllSchedules
open OrxPar
#print axioms C07_collect_x
#print axioms C07_collect_x_seq
#print axioms C07_counts
#print axioms C07_collect_x_all_schedules
