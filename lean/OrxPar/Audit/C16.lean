import OrxPar.Props.C16
open OrxPar
#print axioms C16_lazy
#print axioms C16_lazy_structure
#print axioms C16_setters_lazy
#print axioms C16_lazy_site
#print axioms C16_eager_runs_upstream
