import OrxPar.Props.C11
open OrxPar
#print axioms C11_resolved
#print axioms C11_runner
#print axioms C11_next_chunk
#print axioms C11_workers
#print axioms C11_pulls
#print axioms C11_blocks
#print axioms C11_end_to_end
