import OrxPar.Props.C05
open OrxPar
#print axioms C05_full
#print axioms C05_full_counts
#print axioms C05_short_par
#print axioms C05_short_seq
#print axioms C05_mutex
#print axioms C05_yield_once
#print axioms C05_no_assert
#print axioms C05_kernel_step
#print axioms C05_kernel_log
#print axioms C05_term_events
#print axioms C05_source_complete
#print axioms C05_skip_to_end_loses_a_reservation
