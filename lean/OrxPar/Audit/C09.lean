import OrxPar.Props.C09
open OrxPar
#print axioms C09_seq_value
#print axioms C09_context_irrelevant
#print axioms C09_seq_find_idx
#print axioms C09_stage_order
#print axioms C09_seq_log
#print axioms C09_max_by_key_is_the_last_maximum
#print axioms C09_min_by_key_is_the_first_minimum
