import OrxPar.Props.C01
open OrxPar
#print axioms C01_collect
#print axioms C01_collect_vec
#print axioms C01_collect_splitvec
#print axioms C01_spec_is_std
#print axioms C01_materialised_stage
#print axioms C01_every_schedule
#print axioms C01_collect_all_schedules
#print axioms C01_partial_source_finding
#print axioms C01_fresh_source_ok
