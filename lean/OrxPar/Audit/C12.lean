import OrxPar.Props.C12
open OrxPar
#print axioms C12_params
#print axioms C12_params_fold
#print axioms C12_ofNat
#print axioms C12_is_sequential
#print axioms Par.applyT_params
