import OrxPar.Props.C03
import OrxPar.Props.AllSchedules
open OrxPar
#print axioms C03_reduce
#print axioms C03_none_iff
#print axioms C03_fold
#print axioms C03_sum
#print axioms C03_min
#print axioms C03_max
#print axioms C03_min_by_key
#print axioms C03_min_by
#print axioms C03_max_by_key
#print axioms C03_select_seq
#print axioms C03_reduce_all_schedules
#print axioms C03_fold_all_schedules
#print axioms C03_sum_all_schedules
#print axioms C03_min_all_schedules
#print axioms C03_max_all_schedules
#print axioms C03_min_by_key_all_schedules
#print axioms C03_max_by_key_all_schedules
#print axioms finished_schedule_exists
#print axioms C03_reduce_some_schedule
