/-
  Line-protocol driver: answers the harness' queries from the model.
  One query per input line, one answer per output line.
-/
import OrxPar.Model.Terminals
import OrxPar.Model.Logs
import OrxPar.Model.Spawn
open OrxPar

def P : Nat := 1000003

/-! closure families shared with harness/src/fam.rs -/
def fMap (a b x : Nat) : Nat := (a * (x % P) + b) % P
def fFilter (k r x : Nat) : Bool := x % k != r
def fFlat (k x : Nat) : List Nat := (List.range (x % k)).map fun j => (3 * (x % P) + j) % P
def fFm (k r a x : Nat) : Option Nat := if x % k == r then none else some (((x % P) + a) % P)

def splitOn (s : String) (sep : String) : List String := s.splitOn sep

def nat? (s : String) : Option Nat := s.toNat?

def decList (s : String) : Option (List Nat) :=
  if s == "-" || s == "" then some [] else (splitOn s ",").mapM nat?

def encList (v : List Nat) : String :=
  if v.isEmpty then "-" else ",".intercalate (v.map toString)

def decNt (s : String) : Option NumThreads :=
  if s == "a" then some .auto
  else if s.startsWith "m" then (nat? (s.drop 1).toString).map .max else none

def decCs (s : String) : Option ChunkSize :=
  if s == "a" then some .auto
  else if s.startsWith "n" then (nat? (s.drop 1).toString).map .min
  else if s.startsWith "e" then (nat? (s.drop 1).toString).map .exact else none

def encNt : NumThreads → String
  | .auto => "a"
  | .max n => s!"m{n}"
def encCs : ChunkSize → String
  | .auto => "a"
  | .min n => s!"n{n}"
  | .exact n => s!"e{n}"

def encParams (p : Params) : String :=
  s!"{encNt p.numThreads}/{encCs p.chunkSize}/{if p.isSequential then 1 else 0}"

/-- a call of the chain: transformation (with its stage id) or setter -/
def decCall (stage : Nat) (s : String) : Option Op :=
  match splitOn s ":" with
  | ["M", a, b] => do let a ← nat? a; let b ← nat? b; pure (.map stage (fMap a b))
  | ["F", k, r] => do let k ← nat? k; let r ← nat? r; pure (.filter stage (fFilter k r))
  | ["X", k] => do let k ← nat? k; pure (.flatMap stage (fFlat k))
  | ["P", k, r, a] => do let k ← nat? k; let r ← nat? r; let a ← nat? a; pure (.filterMap stage (fFm k r a))
  | ["T", n] => do let n ← nat? n; pure (.numThreads (NumThreads.ofNat n))
  | ["TE", v] => (decNt v).map .numThreads
  | ["C", n] => do let n ← nat? n; pure (.chunkSize (ChunkSize.ofNat n))
  | ["CE", v] => (decCs v).map .chunkSize
  | _ => none

def OrxPar.Op.isTransform : Op → Bool
  | .numThreads _ | .chunkSize _ => false
  | _ => true

def decCalls (s : String) : Option (List Op) :=
  if s == "-" then some [] else
  let rec go (stage : Nat) : List String → Option (List Op)
    | [] => some []
    | c :: cs => do
      let op ← decCall stage c
      let rest ← go (if op.isTransform then stage + 1 else stage) cs
      pure (op :: rest)
  go 0 (splitOn s ";")

def redOp (s : String) : Option (Nat → Nat → Nat) :=
  match s with
  | "add" => some fun a b => (a + b) % 2 ^ 64
  | "xor" => some Nat.xor
  | "min" => some Nat.min
  | "max" => some Nat.max
  | "poly" => some fun a b => (31 * (a % P) + (b % P)) % P
  | "sub" => some fun a b => (a + 2 ^ 64 - b) % 2 ^ 64
  | _ => none

def decTarget : String → Option Target
  | "v" => some .vec
  | "s" => some .splitVec
  | "f" => some .fixedVec
  | _ => none

def decTerm (s : String) : Option Terminal :=
  match splitOn s ":" with
  | ["collect_vec"] => some .collectVec
  | ["collect"] => some .collect
  | ["collect_into", k, pre, _cap] => do let t ← decTarget k; let pre ← decList pre; pure (.collectInto t pre)
  | ["collect_x"] => some .collectX
  | ["count"] => some .count
  | ["for_each"] => some .forEach
  | ["reduce", r] => (redOp r).map .reduce
  | ["fold", r, identity] => do let op ← redOp r; let i ← nat? identity; pure (.fold op i)
  | ["sum"] => some .sum
  | ["min"] => some .min
  | ["max"] => some .max
  | ["min_by"] => some .minBy
  | ["max_by"] => some .maxBy
  | ["min_by_key", k] => do let k ← nat? k; pure (.minByKey (· % k))
  | ["max_by_key", k] => do let k ← nat? k; pure (.maxByKey (· % k))
  | ["find", k, r] => do let k ← nat? k; let r ← nat? r; pure (.find fun x => x % k == r)
  | ["first"] => some .first
  | ["any", k, r] => do let k ← nat? k; let r ← nat? r; pure (.any fun x => x % k == r)
  | ["all", k, r] => do let k ← nat? k; let r ← nat? r; pure (.all fun x => x % k == r)
  | ["find_idx", k, r] => do let k ← nat? k; let r ← nat? r; pure (.findIdx fun x => x % k == r)
  | ["first_idx"] => some .firstIdx
  | _ => none

/-- insertion sort (for canonical multisets) -/
def sortNat (l : List Nat) : List Nat :=
  l.foldl (fun acc x => let (a, b) := acc.span (· ≤ x); a ++ x :: b) []

def encOutcome : Outcome → String
  | .vals v => s!"V:{encList v}"
  | .bag v => s!"G:{encList (sortNat v)}"
  | .opt none => "O:none"
  | .opt (some x) => s!"O:{x}"
  | .optIdx none => "I:none"
  | .optIdx (some (i, x)) => s!"I:{x}@{i}"
  | .num n => s!"N:{n}"
  | .bool b => s!"B:{b}"
  | .unsupported => "UNSUPPORTED"
  | .panic => "PANIC"

/-- `tid:start:len:rank;…` -/
def decAsg (src : List Nat) (s : String) : Option (List (Chunk × Nat)) :=
  if s == "-" then some [] else
  (splitOn s ";").mapM fun c =>
    match splitOn c ":" with
    | [t, st, ln, rk] => do
      let t ← nat? t; let st ← nat? st; let ln ← nat? ln; let rk ← nat? rk
      pure (⟨t, st, (src.drop st).take ln⟩, rk)
    | _ => none

def field (fs : List String) (key : String) : Option String :=
  fs.findSome? fun f => if f.startsWith (key ++ "=") then some (f.drop (key.length + 1)).toString else none

/-- executable acceptance of an observed assignment for full-visit terminals:
    sorted by begin the chunks tile `[0, n)`, and every worker pulled its chunks in increasing
    order (its evaluation ranks increase with the begin index) -/
def acceptFull (n : Nat) (asg : List (Chunk × Nat)) : Bool :=
  let rec tiles (pos : Nat) : List (Chunk × Nat) → Bool
    | [] => pos == n
    | (c, _) :: cs => c.start == pos && c.items.length > 0 && tiles (pos + c.items.length) cs
  let perThread := asg.all fun (c, r) => asg.all fun (c', r') =>
    !(c.tid == c'.tid && c.start < c'.start) || r < r'
  tiles 0 asg && perThread

/-- acceptance for the short-circuit terminals: every worker evaluated increasing positions, and
    the evaluated positions contain `[0, j]` for the least found position `j`, or everything if
    nothing was found (`hit i` = the pipeline output of source position `i` matches) -/
def acceptFind (n : Nat) (hitArr : Array Bool) (asg : List (Chunk × Nat)) : Bool :=
  let hit : Nat → Bool := fun i => hitArr.getD i false
  let perThread := asg.all fun (c, r) => asg.all fun (c', r') =>
    !(c.tid == c'.tid && c.start < c'.start) || r < r'
  let bounds : List (Nat × Nat) := asg.map fun (c, _) => (c.start, c.start + c.items.length)
  let evaluated (i : Nat) : Bool := bounds.any fun b => b.1 ≤ i && i < b.2
  let found := (List.range n).filter fun i => evaluated i && hit i
  let upto := match found.head? with
    | some j => j + 1
    | none => n
  perThread && (List.range upto).all evaluated

/-- canonical digest of a multiset of closure invocations: `count:Σ h(e) mod 2^64` -/
def evDigest (l : List Event) : String :=
  let h (e : Event) : Nat := let a := (e.stage + 1) * 2 ^ 40 + e.arg; (a * a + 12345 * a) % 2 ^ 64
  s!"{l.length}:{(l.foldl (fun acc e => (acc + h e) % 2 ^ 64) 0)}"

def decEvent (s : String) : Option Event :=
  match splitOn s ":" with
  | [a, b] => do let a ← nat? a; let b ← nat? b; pure ⟨a, b⟩
  | _ => none

def answerRun (fs : List String) : String :=
  match field fs "src", field fs "calls", field fs "term", field fs "cs", field fs "asg" with
  | some src, some calls, some term, some cs, some asg =>
    match splitOn src ":" with
    | [kind, items] =>
      match decList items, decCalls calls, decTerm term, decList cs with
      | some items, some ops, some t, some csl =>
        let s : Src := ⟨items, kind != "u"⟩
        -- params / construction effects after the source and after every call
        let steps := ops.foldl (fun (acc : (Par × List Event) × List (Params × Nat)) op =>
            let (P', e) := acc.1.1.applyT op
            let ev := acc.1.2 ++ e
            ((P', ev), acc.2 ++ [(P'.params, ev.length)])) ((Par.new s, []), [((Par.new s).params, 0)])
        let Pf := steps.1.1
        let params := "|".intercalate (steps.2.map fun x => encParams x.1)
        let eff := ",".intercalate (steps.2.map fun x => toString x.2)
        let isIdx := match t with | .findIdx _ | .firstIdx => true | _ => false
        let spec : Outcome :=
          match t with
          | .findIdx q => .optIdx (specIdx Pf q)
          | .firstIdx => .optIdx (specIdx Pf fun _ => true)
          | _ => specTerm (seqVals items ops) t
        let _ := isIdx
        -- the model's own sequential stream must agree with the std specification
        let streamOk := Pf.stream.vals == seqVals items ops
        -- the pipeline whose runner the terminal starts (`for_each` = `map(f).count()`)
        let Pt := (Pf.forTerminal t).1
        match decAsg Pt.src.items asg with
        | none => "bad-asg"
        | some asgR =>
          let traced := asg != "-"
          -- untraced: the canonical execution (one worker pulled everything in one chunk)
          let ex : Exec :=
            if traced then
              { asg := asgR.map (·.1), order := (List.range csl.length).map (· + 1),
                cs := fun t => csl.getD (t - 1) 1 }
            else
              { asg := if Pt.src.items.isEmpty then [] else [⟨1, 0, Pt.src.items⟩], order := [1], cs := fun _ => 2 }
          let pred := Pf.term ex t
          let n := Pt.src.items.length
          let isFind := match t with
            | .find _ | .first | .any _ | .all _ | .findIdx _ | .firstIdx => true
            | _ => false
          let qf : Val → Bool := match t with
            | .find q | .any q | .findIdx q => q
            | .all q => fun x => !q x
            | _ => fun _ => true
          -- only needed for the acceptance of find traces; computed once, O(1) lookups
          let hitArr : Array Bool :=
            if traced && isFind then (Pf.src.items.map fun x => (Pf.elem x).vals.any qf).toArray else #[]
          let acc :=
            if !traced then "na"
            else if Pf.params.isSequential then "na"
            else if isFind then (if acceptFind n hitArr asgR then "ok" else "REJECT-find")
            else (if acceptFull n asgR then "ok" else "REJECT-tiling")
          -- by-key selections: ties are unspecified, compare the extremal key only
          let keyOf : Option (Val → Nat) := match t with
            | .minByKey key | .maxByKey key => some key
            | _ => none
          let norm (o : Outcome) : Outcome := match keyOf, o with
            | some key, .opt (some v) => .opt (some (key v))
            | _, o => o
          -- closure invocations of the whole computation (construction effects + terminal phase);
          -- a parallel short-circuit terminal needs the observed execution
          let evd :=
            if !traced && t.isShortCircuit && !Pf.params.isSequential then "na"
            else evDigest (steps.1.2 ++ Pf.termLog ex t)
          -- what an injected panic at one invocation does to the call
          let pan := match (field fs "panic").bind decEvent with
            | none => "-"
            | some pe =>
              if pe.stage == 101 || pe.stage ≥ 103 then "-"   -- reduce operator, key / comparator / identity closures: not part of the logged model
              else match panicPred steps.1.2 Pf t pe with
              | .yes => "yes"
              | .maybe => "maybe"
              | .no => "no"
          s!"params={params} eff={eff} spec={encOutcome (norm spec)} pred={encOutcome (norm pred)} acc={acc} stream={streamOk} evd={evd} pan={pan}"
      | _, _, _, _ => "bad-run-fields"
    | _ => "bad-src"
  | _, _, _, _, _ => "bad-run"

def olen? (s : String) : Option (Option Nat) := if s == "-" then some none else (nat? s).map some

def decTask : String → Option Task
  | "c" => some .collect
  | "e" => some .earlyReturn
  | "r" => some .reduce
  | _ => none

def decResolved (s : String) : Option Resolved :=
  match splitOn s ":" with
  | ["min", c] => (nat? c).map .min
  | ["exact", c] => (nat? c).map .exact
  | _ => none

def encResolved : Resolved → String
  | .min c => s!"min:{c}"
  | .exact c => s!"exact:{c}"

def decHasMore (s : String) : Option HasMore :=
  match splitOn s ":" with
  | ["no"] => some .no
  | ["maybe"] => some .maybe
  | ["yes", n] => (nat? n).map .yes
  | _ => none

def answer (k : Consts) (line : String) : Consts × String :=
  let ws := (line.trimAscii.toString.splitOn " ").filter (· != "")
  match ws with
  | ["consts", a, b, c, d, e, f, g] =>
    match [a, b, c, d, e, f, g].mapM nat? with
    | some [a, b, c, d, e, f, g] =>
      (⟨a, b, c, d, e, f, g⟩, "ok")
    | _ => (k, "bad-consts")
  | ["ofnat_nt", n] => (k, match nat? n with | some n => encNt (NumThreads.ofNat n) | none => "bad")
  | ["ofnat_cs", n] => (k, match nat? n with | some n => encCs (ChunkSize.ofNat n) | none => "bad")
  | ["divceil", a, d] =>
    (k, match nat? a, nat? d with
      | some a, some d => if divCeilPanics d then "panic" else toString (divCeil a d)
      | _, _ => "bad")
  | ["numthreads", l, nt, av] =>
    (k, match olen? l, decNt nt, nat? av with
      | some l, some nt, some av => toString (calcNumThreads k l nt av)
      | _, _, _ => "bad")
  | ["chunksize", t, l, th, cs] =>
    (k, match decTask t, olen? l, nat? th, decCs cs with
      | some t, some l, some th, some cs =>
        match calcChunkSize k t l th cs with
        | some r => encResolved r
        | none => "panic"
      | _, _, _, _ => "bad")
  | ["runner", nt, cs, t, l, av] =>
    (k, match decNt nt, decCs cs, decTask t, olen? l, nat? av with
      | some nt, some cs, some t, some l, some av =>
        match mkRunner k ⟨nt, cs⟩ t l av with
        | some r => s!"{r.maxThreads} {encResolved r.chunk}"
        | none => "panic"
      | _, _, _, _, _ => "bad")
  | ["dospawn", l, mt, c, ns, hm] =>
    (k, match olen? l, nat? mt, decResolved c, nat? ns, decHasMore hm with
      | some l, some mt, some c, some ns, some hm => toString ((⟨l, mt, c⟩ : Runner).doSpawn ns hm)
      | _, _, _, _, _ => "bad")
  | ["nextchunk", l, mt, c, ns, hm] =>
    (k, match olen? l, nat? mt, decResolved c, nat? ns, decHasMore hm with
      | some l, some mt, some c, some ns, some hm =>
        let r : Runner := ⟨l, mt, c⟩
        if r.nextChunkSizePanics ns hm then "panic" else
        match r.nextChunkSize ns hm with
        | none => "none"
        | some x => s!"some:{x}"
      | _, _, _, _, _ => "bad")
  | ["spawn", l, mt, c, lag, hms] =>
    -- replay of the spawner on the observed `has_more()` values (one per call, in call order)
    (k, match olen? l, nat? mt, decResolved c, nat? lag with
      | some l, some mt, some c, some lag =>
        match (if hms == "-" then some [] else (splitOn hms ";").mapM decHasMore) with
        | some env =>
          match spRun ⟨l, mt, c⟩ lag (fun i => env.getD i .no) with
          | some s => s!"workers={encList s.workers} calls={s.calls}"
          | none => "diverges"
        | none => "bad"
      | _, _, _, _ => "bad")
  | "run" :: fs => (k, answerRun fs)
  | _ => (k, "bad-op")

partial def loop (h : IO.FS.Stream) (out : IO.FS.Stream) (k : Consts) : IO Unit := do
  let line ← h.getLine
  if line.isEmpty then return ()
  let (k', a) := answer k line
  out.putStrLn a
  loop h out k'

def main : IO Unit := do
  loop (← IO.getStdin) (← IO.getStdout) Consts.pinned
