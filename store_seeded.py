#!/usr/bin/env python3
"""store_seeded.py <name> <worktree> <caught-by (comma sep checks, or 'MISSED')> [note]"""
import json, os, shutil, sys
name, wt, caught = sys.argv[1], sys.argv[2], sys.argv[3]
note = sys.argv[4] if len(sys.argv) > 4 else ""
d = f"/verif/seeded/{name}"
os.makedirs(d + "/demo", exist_ok=True)
shutil.copy(wt + "/mutation/patch.diff", d + "/patch.diff")
os.makedirs(wt + "/mutation/demo", exist_ok=True)
for f in os.listdir(wt + "/tests"):
    if f.startswith("seeded_demo"):
        shutil.copy(os.path.join(wt, "tests", f), wt + "/mutation/demo/" + f)
for f in os.listdir(wt + "/mutation/demo"):
    shutil.copy(os.path.join(wt, "mutation/demo", f), d + "/demo/" + f)
meta = {}
try:
    meta = json.load(open(wt + "/mutation/meta.json"))
except Exception as e:
    meta = {"note": "agent meta.json unreadable: %s" % e}
conf = open(f"/tmp/wt/confirm_{os.path.basename(wt)}.log").read() if os.path.exists(f"/tmp/wt/confirm_{os.path.basename(wt)}.log") else ""
out = {
    "property": meta.get("property", name.split("_")[0]),
    "origin": "fresh sub-agent given only the property text and a scratch worktree of /repo",
    "summary": meta.get("summary"),
    "needs_to_manifest": meta.get("needs_to_manifest") or meta.get("needs"),
    "files_changed": meta.get("files_changed") or meta.get("files"),
    "agent_meta": meta,
    "confirmed_by_me": {
        "how": "confirm_mut.sh in the scratch worktree: demo test with the patch, full suite (184 tests + 55 doc-tests) with the patch and the demo moved aside, demo without the patch",
        "log": conf,
    },
    "checks_run_with_patch_applied_to_repo": caught,
    "note": note,
}
json.dump(out, open(d + "/meta.json", "w"), indent=1)
print("stored", d)
