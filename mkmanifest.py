#!/usr/bin/env python3
"""Writes MANIFEST.json from props.py (claimed properties) and the static texts below."""
import json, os, sys
ROOT = os.path.dirname(os.path.abspath(__file__))
sys.path.insert(0, ROOT)
from props import PROPS
TEXT = {
 "C01": ("Lean theorem C01_collect: for every source, op chain, target, worker set, accepted assignment (tiling of the index range, any chunk-to-thread assignment, any thread order) the predicted collect result equals the sequential chain; run_accepts shows every schedule yields such an assignment. Tie: outcomes, observed assignments and acceptance compared on every case.", "§6 C01"),
 "C02": ("Lean theorem C02_find over every trace in which each worker scans its chunks in order and the evaluated prefix contains the least found position: result = least matching source position; tie by controlled schedules (late worker holds chunk 0).", "§6 C02"),
 "C03": ("Lean theorems C03_reduce (associative+commutative op, any tiling, any thread order), C03_min_by_key / C03_max_by_key (by-key selections pick an extremal survivor), C03_reduce_all_schedules (every finished schedule of the worker transition system).", "§6 C03"),
 "C04": ("Lean theorem C04_count / C04_for_each for every tiling and thread order, chunk-1 and chunked paths incl. the nested loop of filtermap_fil_cnt; C04_count_all_schedules for every finished schedule.", "§6 C04"),
 "C05": ("Lean theorems on the logged stream algebra: event multiset of every chain = sequential (32 site lemmas, induction over chains), C05_term_events for the terminal closures, C05_kernel_step for the kernels' per-element work, C05_mutex / C05_yield_once / C05_source_complete on the transcribed ticket protocol (mutual exclusion, each element handed out once at its true index, and — without skip_to_end — all of them). Tie: the model's (stage,arg) invocation multiset is compared with the recorded real invocations on every case (digest), plus the std oracle.", "§6 C05"),
 "C06": ("Lean theorem C06_collect_into per branch of the three ParCollectIntoCore impls: result = pre ++ sequential result; C06_collect_into_all_schedules for every finished schedule.", "§6 C06"),
 "C07": ("Lean theorem C07_collect_x: fragments appended in spawn order are a permutation of the sequential result for every tiling; C07_collect_x_all_schedules for every finished schedule.", "§6 C07"),
 "C08": ("Lean theorems C08_max_threads, C08_spawn_bound, C08_at_most_n_workers: under Max(n) at most n workers for every has_more stream and every lag>=1; sequential entry points ignore the runner. Tie: do_spawn / calc_num_threads exactly (L0) and real thread counts from worker hooks. One known finding (reduce operator also runs on the caller).", "§6 C08"),
 "C09": ("Lean theorems C09_seq_value / C09_stage_order: in sequential mode every terminal equals the std value (left fold for arbitrary operators) and per-stage argument order is the std order; C09_max_by_key_is_the_last_maximum / C09_min_by_key_is_the_first_minimum: ties as Iterator::max_by / min_by (after fix: dec7df0).", "§6 C09"),
 "C10": ("Lean theorems C10_after_publication (no pull succeeds after skip_to_end, each worker evaluates at most its held chunk) C10_seq (sequential find evaluates exactly the lazy prefix), C10_seq_consumes_up_to_the_match, C10_terminates_fair (unbounded sources, fair rounds).", "§6 C10"),
 "C11": ("Lean theorems C11_resolved, C11_runner, C11_next_chunk, C11_workers: Exact(c) reaches every worker ever spawned, for every has_more stream; C11_pulls / C11_blocks / C11_end_to_end: under every schedule every pull is an aligned block of exactly c elements. Tie: calc_chunk_size/next_chunk_size exactly (L0), chunk handed to each real worker, aligned blocks and next() bursts observed.", "§6 C11"),
 "C12": ("Lean theorem C12_params by induction over arbitrary op lists from all 32 site lemmas + setters; C12_ofNat; C12_is_sequential. Tie: params()/is_sequential() after every call of every chain x setter position (exhaustive over the finite site family).", "§6 C12"),
 "C13": ("Lean theorem on the resource model: returned ⊎ dropped = created, no bad drop.", "§6 C13"),
 "C14": ("Lean theorems: C14_propagates / C14_evaluated_panics on a transcription of the join structure of Runner::{run,run_map,reduce} and std's scope/join/expect (any worker evaluating the panicking invocation => the call panics; C14_no_spurious_panic otherwise), C14_pred_no_sound / C14_pred_yes_full (the panic prediction compared with the real call on every case), C14_bag_unwind_no_bad on the cell-level bag model (guarded unwinding drops nothing; the pre-fix behaviour provably drops never-initialised cells).", "§6 C14"),
 "C15": ("Lean theorems C15_chunk_pos, C15_runner_total, C15_next_chunk_total, C15_spawner_terminates, C15_in_range: the settings arithmetic is total and positive for all inputs. Tie: every exported settings function compared exactly on dense grids incl. panics; end-to-end grid vs the sequential reference.", "§6 C15"),
 "C16": ("Lean theorem C16_lazy: a chain avoiding the eager sites has no construction effects; eight eager sites are known findings, measured on the real code.", "§6 C16"),
}
m = {
 "version": 1,
 "setup_cmd": "./setup.sh",
 "hooks": {
  "guard": "cargo feature verif-hooks",
  "enable": "the harness depends on /repo with features = [\"verif-hooks\"] (harness/Cargo.toml); every check rebuilds it with cargo build --offline",
  "baseline_off_cmd": "cd /repo && cargo test --workspace --no-fail-fast --offline",
  "source_commits": ["e2a0459", "ed73b4d", "0410f2f"],
  "add_only": True
 },
 "engines": [
  {"name": "lean-model-and-proofs", "path": "lean/", "serves_properties": sorted(PROPS), "kind_free_text": "Lean 4 model (OrxPar/Model), lemmas, property theorems (OrxPar/Props), axiom audits (OrxPar/Audit), compiled line-protocol driver (Driver/Main.lean)"},
  {"name": "correspondence-harness", "path": "harness/", "serves_properties": sorted(PROPS), "kind_free_text": "Rust harness linking /repo with feature verif-hooks: static chain table, instrumented closures/sources, deterministic scheduler, std::iter oracle"}
 ],
 "checks": [],
 "not_applicable": [],
 "notes": "Technique: machine-checked proof in Lean 4 of a hand-written executable model, tied to the code by a correspondence check on every run (DESIGN.md). known_findings.json lists recorded genuine defects and the four fix: commits (826920e, c6a1e56, f3134ea, dec7df0)."
}
for pid in sorted(PROPS):
    text, ref = TEXT[pid]
    m["checks"].append({
     "property_id": pid,
     "quick_cmd": f"./check {pid} --tier quick",
     "thorough_cmd": f"./check {pid} --tier thorough",
     "evidence_file": f"evidence/{pid}.json",
     "replay_cmd_template": f"./check {pid} --replay {{path}}",
     "engine": "lean-model-and-proofs",
     "level_claimed": {"category": "proof", "text": text, "design_ref": ref},
     "level_note": "Trusted: Lean kernel + axioms {propext, Classical.choice, Quot.sound}; the hand transcription in lean/OrxPar/Model validated by the correspondence harness (sampling); dependencies' behaviour modelled, not verified; see DESIGN.md §8.",
     "technique": "Lean 4 theorem over a hand-written model + model/implementation correspondence check"
    })
allp = [json.loads(l)["id"] for l in open(os.path.join(ROOT, "properties.jsonl"))]
for pid in allp:
    if pid not in PROPS:
        m["not_applicable"].append({"property_id": pid, "reason": "not claimed at this commit: its theorem file / correspondence sweep is still under construction (the technique applies; see DESIGN.md §6)"})
json.dump(m, open(os.path.join(ROOT, "MANIFEST.json"), "w"), indent=1)
print("claimed:", sorted(PROPS))
