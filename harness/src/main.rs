//! Correspondence harness for orx-parallel: runs the real library (feature `verif-hooks`) on
//! generated cases and prints, per case, the query for the Lean driver, what the
//! implementation did, and what the `std::iter` oracle says.
mod canary;
mod case;
mod chains;
mod exec;
mod fam;
mod l0;
mod rec;
mod sources;
mod sweep;

use std::io::Write;

fn main() {
    // keep stderr quiet for the panics we provoke on purpose
    std::panic::set_hook(Box::new(|info| {
        let msg = info.to_string();
        if msg.contains("HARNESS-ERROR") || std::env::var("ORXH_VERBOSE_PANIC").is_ok() {
            eprintln!("{}", msg);
        }
    }));
    rec::install_hooks();
    case::start_watchdog(25_000);
    let args: Vec<String> = std::env::args().collect();
    let mode = args.get(1).map(|s| s.as_str()).unwrap_or("");
    let stdout = std::io::stdout();
    let mut out = std::io::BufWriter::new(stdout); // not locked: the watchdog and the scheduler print from other threads
    match mode {
        "l0" => {
            let seed: u64 = args.get(2).and_then(|s| s.parse().ok()).unwrap_or(1);
            let thorough = args.get(3).map(|s| s == "thorough").unwrap_or(false);
            let n = l0::run(&mut out, thorough, seed).expect("write");
            writeln!(out, "STAT\tl0_queries\t{}", n).ok();
        }
        "one" => {
            let line = args[2..].join(" ");
            let c = case::Case::dec(&line).unwrap_or_else(|| {
                eprintln!("HARNESS-ERROR cannot parse case: {}", line);
                std::process::exit(3)
            });
            sweep::emit_case(&mut out, "replay", &c, true).expect("write");
        }
        "exhaust" => {
            let limit: usize = args.get(2).and_then(|s| s.parse().ok()).unwrap_or(100000);
            let line = args[3..].join(" ");
            let c = case::Case::dec(&line).unwrap_or_else(|| {
                eprintln!("HARNESS-ERROR cannot parse case: {}", line);
                std::process::exit(3)
            });
            sweep::exhaust(&mut out, "exhaustive", &c, limit).expect("write");
        }
        "shrink" => {
            let prefix = args.get(2).cloned().unwrap_or_default();
            let budget: usize = args.get(3).and_then(|s| s.parse().ok()).unwrap_or(300);
            let line = args[4..].join(" ");
            let c = case::Case::dec(&line).unwrap_or_else(|| {
                eprintln!("HARNESS-ERROR cannot parse case: {}", line);
                std::process::exit(3)
            });
            sweep::shrink(&mut out, &c, &prefix, budget).expect("write");
        }
        "neighbors" => {
            let seed: u64 = args.get(2).and_then(|s| s.parse().ok()).unwrap_or(1);
            let count: usize = args.get(3).and_then(|s| s.parse().ok()).unwrap_or(200);
            let line = args[4..].join(" ");
            let c = case::Case::dec(&line).unwrap_or_else(|| {
                eprintln!("HARNESS-ERROR cannot parse case: {}", line);
                std::process::exit(3)
            });
            sweep::neighbors(&mut out, &c, seed, count).expect("write");
        }
        "sources" => {
            let seed: u64 = args.get(2).and_then(|s| s.parse().ok()).unwrap_or(1);
            let only = args.get(3).cloned().unwrap_or_default();
            sources::run(&mut out, seed, &only).expect("write");
        }
        "sweep" => {
            let prop = args.get(2).cloned().unwrap_or_default();
            let seed: u64 = args.get(3).and_then(|s| s.parse().ok()).unwrap_or(1);
            let thorough = args.get(4).map(|s| s == "thorough").unwrap_or(false);
            sweep::run(&mut out, &prop, seed, thorough).expect("write");
        }
        _ => {
            eprintln!("usage: orxh l0|one|sweep ...");
            std::process::exit(2);
        }
    }
    out.flush().ok();
}
