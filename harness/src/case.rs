//! A case = one pipeline run on the real library; its textual encoding (also the replay
//! format and the query sent to the Lean driver); running it and deriving the observed trace.
use crate::chains;
use crate::exec::{self, Ctx, InstrIter};
use crate::fam::*;
use crate::rec::{self, Ev, RecState};
use std::collections::HashMap;
use std::panic::{catch_unwind, AssertUnwindSafe};
use std::sync::atomic::Ordering;

#[derive(Clone, Debug, PartialEq, Eq)]
pub enum Mode {
    /// real threads, optional jitter seed
    Free(u64),
    /// deterministic scheduler with the given schedule (0 = spawner, k = k-th worker)
    Ctl(Vec<u32>),
}

#[derive(Clone, Debug)]
pub struct Case {
    /// 'v' Vec by value, 'k' iterator with exact size hint, 'u' iterator of unknown length;
    /// 'V' / 'K' / 'U': the same over drop-observing `Canary` items
    pub src_kind: char,
    pub input: Vec<u64>,
    pub ops: Vec<OpD>,
    pub sets: Vec<Vec<SetD>>,
    pub term: TermD,
    pub mode: Mode,
    pub panic_at: Option<(u32, u64)>,
}

fn enc_list(v: &[u64]) -> String {
    if v.is_empty() {
        "-".into()
    } else {
        v.iter().map(|x| x.to_string()).collect::<Vec<_>>().join(",")
    }
}

impl Case {
    pub fn kinds(&self) -> String {
        self.ops.iter().map(|o| o.kind()).collect()
    }
    /// the flattened call sequence: setters and transformations in call order
    pub fn calls(&self) -> Vec<String> {
        let mut v = vec![];
        for s in self.sets.first().map(|x| x.as_slice()).unwrap_or(&[]) {
            v.push(s.enc());
        }
        for (i, o) in self.ops.iter().enumerate() {
            v.push(o.enc());
            if let Some(ss) = self.sets.get(i + 1) {
                for s in ss {
                    v.push(s.enc());
                }
            }
        }
        v
    }
    pub fn enc(&self) -> String {
        let calls = self.calls();
        let mode = match &self.mode {
            Mode::Free(j) => format!("free:{}", j),
            Mode::Ctl(s) => format!("ctl:{}", s.iter().map(|x| x.to_string()).collect::<Vec<_>>().join(",")),
        };
        let panic = match self.panic_at {
            None => "-".to_string(),
            Some((s, a)) => format!("{}:{}", s, a),
        };
        format!(
            "src={}:{} calls={} term={} mode={} panic={}",
            self.src_kind,
            enc_list(&self.input),
            if calls.is_empty() { "-".to_string() } else { calls.join(";") },
            self.term.enc(),
            mode,
            panic
        )
    }
    pub fn dec(s: &str) -> Option<Case> {
        let mut m: HashMap<&str, &str> = HashMap::new();
        for f in s.split_whitespace() {
            let (k, v) = f.split_once('=')?;
            m.insert(k, v);
        }
        let (sk, sl) = m.get("src")?.split_once(':')?;
        let input = dec_list(sl)?;
        let mut ops = vec![];
        let mut sets: Vec<Vec<SetD>> = vec![vec![]];
        let calls = *m.get("calls")?;
        if calls != "-" {
            for c in calls.split(';') {
                if let Some(o) = OpD::dec(c) {
                    ops.push(o);
                    sets.push(vec![]);
                } else {
                    sets.last_mut()?.push(SetD::dec(c)?);
                }
            }
        }
        let term = TermD::dec(m.get("term")?)?;
        let mode = {
            let (k, v) = m.get("mode")?.split_once(':')?;
            match k {
                "free" => Mode::Free(v.parse().ok()?),
                _ => Mode::Ctl(if v.is_empty() { vec![] } else { v.split(',').map(|x| x.parse().ok()).collect::<Option<Vec<u32>>>()? }),
            }
        };
        let panic_at = match *m.get("panic")? {
            "-" => None,
            p => {
                let (a, b) = p.split_once(':')?;
                Some((a.parse().ok()?, b.parse().ok()?))
            }
        };
        Some(Case { src_kind: sk.chars().next()?, input, ops, sets, term, mode, panic_at })
    }

    /// indices of the transformations that sit at an eager site (statically known)
    pub fn eager_flags(&self) -> Vec<bool> {
        let k = self.kinds();
        chains::CHAINS.iter().find(|c| c.0 == k).map(|c| c.4.to_vec()).unwrap_or_default()
    }
    /// the stage whose closure is the first one applied to every source element of the last phase
    pub fn trace_stage(&self) -> Option<u32> {
        let e = self.eager_flags();
        match e.iter().rposition(|x| *x) {
            Some(i) => Some(i as u32),
            None => {
                if self.ops.is_empty() {
                    None
                } else {
                    Some(0)
                }
            }
        }
    }
    pub fn has_eager(&self) -> bool {
        self.eager_flags().iter().any(|x| *x)
    }
}

pub struct RunResult {
    pub outcome: Outcome,
    pub params_trace: Vec<(orx_parallel::Params, bool)>,
    pub effects_trace: Vec<(u64, u64)>,
    /// effects right before the terminal call
    pub rec: RecState,
    pub granted: Vec<u32>,
    pub wall_us: u128,
    /// canary runs: (created, dropped, live, bad) after the result has been dropped
    pub ledger: Option<(u64, u64, u64, u64)>,
}

/// exhaustive schedule enumeration: controlled cases run with the least-actor fallback and record
/// the choice sets; `LAST_SCHED` holds (granted, choices) of the last controlled case
pub static EXHAUST: std::sync::atomic::AtomicBool = std::sync::atomic::AtomicBool::new(false);
pub static LAST_SCHED: std::sync::Mutex<(Vec<u32>, Vec<Vec<u32>>)> = std::sync::Mutex::new((Vec::new(), Vec::new()));

pub static CASE_STARTED_MS: std::sync::atomic::AtomicU64 = std::sync::atomic::AtomicU64::new(0);
pub static CURRENT_CASE: std::sync::Mutex<String> = std::sync::Mutex::new(String::new());

fn now_ms() -> u64 {
    std::time::SystemTime::now().duration_since(std::time::UNIX_EPOCH).map(|d| d.as_millis() as u64).unwrap_or(0)
}

/// a case that does not finish within the limit is reported as a hang (exit code 4)
pub fn start_watchdog(limit_ms: u64) {
    std::thread::spawn(move || loop {
        std::thread::sleep(std::time::Duration::from_millis(250));
        let st = CASE_STARTED_MS.load(Ordering::SeqCst);
        if st != 0 && now_ms().saturating_sub(st) > limit_ms {
            let c = CURRENT_CASE.lock().map(|g| g.clone()).unwrap_or_default();
            println!("HANG\t{}", c);
            use std::io::Write;
            std::io::stdout().flush().ok();
            std::process::exit(4);
        }
    });
}

pub fn run_case(c: &Case) -> RunResult {
    *CURRENT_CASE.lock().unwrap() = c.enc();
    CASE_STARTED_MS.store(now_ms(), Ordering::SeqCst);
    let r = run_case_inner(c);
    CASE_STARTED_MS.store(0, Ordering::SeqCst);
    r
}

fn run_case_inner(c: &Case) -> RunResult {
    rec::begin_case();
    exec::CALLS.store(0, Ordering::SeqCst);
    exec::CONSUMED.store(0, Ordering::SeqCst);
    exec::RED_CALLS.store(0, Ordering::SeqCst);
    for a in exec::AUX_CALLS.iter() {
        a.store(0, Ordering::SeqCst);
    }
    *exec::PANIC_AT.lock().unwrap() = c.panic_at;
    match &c.mode {
        Mode::Free(j) => {
            exec::JITTER.store(*j, Ordering::SeqCst);
        }
        Mode::Ctl(s) => {
            exec::JITTER.store(0, Ordering::SeqCst);
            rec::sched_on(s.clone(), c.trace_stage().unwrap_or(u32::MAX));
            if EXHAUST.load(Ordering::SeqCst) {
                rec::sched_exhaust();
            }
        }
    }
    let mut ctx = Ctx::new(c.ops.clone(), c.sets.clone(), c.term.clone());
    let kinds = c.kinds();
    let t0 = std::time::Instant::now();
    let is_canary = c.src_kind.is_ascii_uppercase();
    if is_canary {
        crate::canary::reset();
    }
    fn keep(_: &crate::canary::Canary) -> bool {
        true
    }
    let res = catch_unwind(AssertUnwindSafe(|| match c.src_kind {
        'v' => chains::run_chain_vec(&kinds, c.input.clone(), &mut ctx),
        'V' => chains::run_chain_cvec(&kinds, c.input.iter().map(|x| crate::canary::Canary::new(*x)).collect(), &mut ctx),
        'K' => chains::run_chain_citer(&kinds, c.input.iter().map(|x| crate::canary::Canary::new(*x)).collect::<Vec<_>>().into_iter(), &mut ctx),
        'U' => chains::run_chain_cfil(
            &kinds,
            c.input.iter().map(|x| crate::canary::Canary::new(*x)).collect::<Vec<_>>().into_iter().filter(keep as fn(&crate::canary::Canary) -> bool),
            &mut ctx,
        ),
        k => chains::run_chain_iter(&kinds, InstrIter { data: c.input.clone(), pos: 0, exact: k == 'k', endless: k == 'e' }, &mut ctx),
    }));
    let wall_us = t0.elapsed().as_micros();
    let granted = rec::sched_off();
    if EXHAUST.load(Ordering::SeqCst) {
        *LAST_SCHED.lock().unwrap() = (granted.clone(), rec::sched_choices());
    }
    *exec::PANIC_AT.lock().unwrap() = None;
    exec::JITTER.store(0, Ordering::SeqCst);
    let rec = rec::end_case();
    let outcome = match res {
        Ok(o) => o,
        Err(e) => {
            let msg = e.downcast_ref::<String>().cloned().or_else(|| e.downcast_ref::<&str>().map(|s| s.to_string())).unwrap_or_default();
            if msg.contains("HARNESS-ERROR") {
                eprintln!("{}", msg);
                std::process::exit(3);
            }
            Outcome::Panic
        }
    };
    let ledger = if is_canary { Some(crate::canary::ledger()) } else { None };
    RunResult { outcome, params_trace: ctx.params_trace, effects_trace: ctx.effects_trace, rec, granted, wall_us, ledger }
}

/// one observed chunk: a maximal run of consecutive source positions evaluated back to back by
/// one worker
#[derive(Clone, Debug, PartialEq, Eq)]
pub struct ObsChunk {
    pub tid: u32,
    pub start: usize,
    pub len: usize,
    /// rank of its first evaluation among all evaluations of the run
    pub first_seq: u64,
}

/// element → worker map of the last runner run, as chunks sorted by start.
/// `None` if the run cannot be traced (no runner ran, values not distinct, no first-stage closure).
pub fn observed_assignment(c: &Case, r: &RunResult, phase_src: &[u64]) -> Option<Vec<ObsChunk>> {
    let stage = c.trace_stage()?;
    let last_run = r.rec.runs.len() as u32;
    if last_run == 0 {
        return None;
    }
    let mut pos: HashMap<u64, usize> = HashMap::new();
    for (i, v) in phase_src.iter().enumerate() {
        if pos.insert(*v, i).is_some() {
            return None;
        }
    }
    let mut evs: Vec<&Ev> = r.rec.events.iter().filter(|e| e.stage == stage && e.run == last_run).collect();
    evs.sort_by_key(|e| e.seq);
    let mut per: HashMap<u32, Vec<(usize, u64)>> = HashMap::new();
    for e in evs {
        let i = *pos.get(&e.arg)?;
        per.entry(e.actor).or_default().push((i, e.seq));
    }
    let mut out = vec![];
    for (tid, v) in per {
        let mut cur: Option<ObsChunk> = None;
        for (i, s) in v {
            match cur.as_mut() {
                Some(ch) if ch.start + ch.len == i => ch.len += 1,
                _ => {
                    if let Some(ch) = cur.take() {
                        out.push(ch);
                    }
                    cur = Some(ObsChunk { tid, start: i, len: 1, first_seq: s });
                }
            }
        }
        if let Some(ch) = cur.take() {
            out.push(ch);
        }
    }
    out.sort_by_key(|c| (c.start, c.first_seq));
    Some(out)
}

pub fn enc_asg(a: &[ObsChunk]) -> String {
    if a.is_empty() {
        return "-".into();
    }
    // first_seq is replaced by its rank so that the text does not depend on unrelated events
    let mut seqs: Vec<u64> = a.iter().map(|c| c.first_seq).collect();
    seqs.sort_unstable();
    a.iter()
        .map(|c| format!("{}:{}:{}:{}", c.tid, c.start, c.len, seqs.binary_search(&c.first_seq).unwrap()))
        .collect::<Vec<_>>()
        .join(";")
}
