//! Layer L0: the exported settings functions on dense grids.  Every line is
//! `Q <TAB> query <TAB> impl answer`; the Lean driver answers the same queries from the model.
use crate::fam::*;
use orx_parallel::verif::exports as ex;
use orx_parallel::{ChunkSize, NumThreads, Params};
use std::io::Write;
use std::num::NonZeroUsize;
use std::panic::{catch_unwind, AssertUnwindSafe};

fn olen(l: Option<usize>) -> String {
    match l {
        None => "-".into(),
        Some(n) => n.to_string(),
    }
}
fn nz(n: usize) -> NonZeroUsize {
    NonZeroUsize::new(n).expect("nonzero")
}
fn guard<T>(f: impl FnOnce() -> T) -> Option<T> {
    catch_unwind(AssertUnwindSafe(f)).ok()
}

pub fn consts_line() -> String {
    let c = ex::constants();
    format!(
        "consts {} {} {} {} {} {} {}",
        c[0],
        c[1],
        c[2],
        c[3],
        ex::min_required_len(0, 1),
        ex::min_required_len(1, 1),
        ex::min_required_len(2, 1)
    )
}

pub fn run(out: &mut dyn Write, thorough: bool, seed: u64) -> std::io::Result<usize> {
    let mut n = 0usize;
    let mut emit = |q: String, a: String| -> std::io::Result<()> {
        n += 1;
        writeln!(out, "Q\t{}\t{}", q, a)
    };
    emit(consts_line(), "ok".into())?;

    let big: Vec<usize> = vec![1000, 4096, 65536, 1 << 20, 10_000_000, 1 << 32, 1 << 40, 1 << 62];
    let mut lens: Vec<Option<usize>> = vec![None];
    lens.extend((0..=70).map(Some));
    lens.extend(big.iter().copied().map(Some));
    // pseudo-random extra lengths derived from the seed
    let mut s = seed.wrapping_mul(0x9E37_79B9_7F4A_7C15) | 1;
    let mut rnd = move || {
        s ^= s << 13;
        s ^= s >> 7;
        s ^= s << 17;
        s
    };
    for _ in 0..(if thorough { 40 } else { 8 }) {
        lens.push(Some((rnd() % 5_000_000) as usize));
    }

    // From<usize>
    for v in (0..=40usize).chain([usize::MAX, 1 << 40]) {
        emit(format!("ofnat_nt {}", v), enc_nt(NumThreads::from(v)))?;
        emit(format!("ofnat_cs {}", v), enc_cs(ChunkSize::from(v)))?;
    }
    // div_ceil
    for a in 0..=60usize {
        for d in 0..=12usize {
            let r = guard(|| ex::div_ceil(a, d));
            emit(format!("divceil {} {}", a, d), r.map(|x| x.to_string()).unwrap_or("panic".into()))?;
        }
    }
    // calc_num_threads
    let mut nts: Vec<NumThreads> = vec![NumThreads::Auto];
    nts.extend((1..=20).map(|n| NumThreads::Max(nz(n))));
    nts.push(NumThreads::Max(nz(1000)));
    nts.push(NumThreads::Max(nz(usize::MAX)));
    let avail_max = if thorough { 32 } else { 18 };
    for l in &lens {
        for nt in &nts {
            for avail in (1..=avail_max).chain([64, 1024]) {
                let r = ex::calc_num_threads(*l, *nt, Some(avail));
                emit(format!("numthreads {} {} {}", olen(*l), enc_nt(*nt), avail), r.to_string())?;
            }
        }
    }
    // calc_chunk_size
    let mut cvals: Vec<usize> = (1..=(if thorough { 70 } else { 24 })).collect();
    cvals.extend([63, 64, 65, 127, 128, 1000, 1 << 20, 1 << 32, 1 << 62, 1 << 63, usize::MAX - 1, usize::MAX]);
    let mut css: Vec<ChunkSize> = vec![ChunkSize::Auto];
    for c in &cvals {
        css.push(ChunkSize::Min(nz(*c)));
        css.push(ChunkSize::Exact(nz(*c)));
    }
    let tmax = if thorough { 20 } else { 12 };
    for task in 0u8..3 {
        let tn = ["c", "e", "r"][task as usize];
        for l in &lens {
            for threads in (1..=tmax).chain([32, 64, 1 << 16]) {
                for cs in &css {
                    let r = guard(|| ex::calc_chunk_size(task, *l, threads, *cs));
                    let a = match r {
                        None => "panic".to_string(),
                        Some((true, c)) => format!("exact:{}", c),
                        Some((false, c)) => format!("min:{}", c),
                    };
                    emit(format!("chunksize {} {} {} {}", tn, olen(*l), threads, enc_cs(*cs)), a)?;
                }
            }
        }
    }
    // Runner::new with the machine's available_parallelism
    let avail = std::thread::available_parallelism().map(|x| x.get()).unwrap_or(1);
    for l in lens.iter().take(if thorough { lens.len() } else { 50 }) {
        for nt in nts.iter().step_by(if thorough { 1 } else { 3 }) {
            for cs in css.iter().step_by(if thorough { 3 } else { 7 }) {
                for task in 0u8..3 {
                    let tn = ["c", "e", "r"][task as usize];
                    let p = Params { num_threads: *nt, chunk_size: *cs };
                    let r = guard(|| ex::runner_new(p, task, *l));
                    let a = match r {
                        None => "panic".to_string(),
                        Some(v) => format!("{} {}:{}", v.max_num_threads, if v.chunk_is_exact { "exact" } else { "min" }, v.chunk),
                    };
                    emit(format!("runner {} {} {} {} {}", enc_nt(*nt), enc_cs(*cs), tn, olen(*l), avail), a)?;
                }
            }
        }
    }
    // do_spawn / next_chunk_size
    let mut vlens: Vec<Option<usize>> = vec![None];
    vlens.extend((0..=(if thorough { 60 } else { 30 })).map(Some));
    vlens.push(Some(100_000));
    for l in &vlens {
        for mt in 1..=(if thorough { 14 } else { 9 }) {
            for (exact, c) in [(false, 1usize), (false, 2), (false, 3), (false, 7), (false, 64), (true, 1), (true, 3), (true, 64)] {
                let view = ex::RunnerView { input_len: *l, max_num_threads: mt, chunk_is_exact: exact, chunk: c };
                let vs = format!("{} {} {}:{}", olen(*l), mt, if exact { "exact" } else { "min" }, c);
                let mut hms: Vec<(u8, usize, String)> = vec![(0, 0, "no".into()), (1, 0, "maybe".into())];
                let top = l.unwrap_or(40);
                let step = (top / 12).max(1);
                let mut r = 0;
                while r <= top {
                    hms.push((2, r, format!("yes:{}", r)));
                    r += step;
                }
                if l.is_some() {
                    hms.push((2, top + 1, format!("yes:{}", top + 1)));
                    hms.push((2, top + 1000, format!("yes:{}", top + 1000)));
                }
                for ns in 0..=(mt + 1) {
                    for (code, rem, hs) in &hms {
                        let d = guard(|| ex::do_spawn(view, ns, *code, *rem));
                        emit(format!("dospawn {} {} {}", vs, ns, hs), d.map(|b| b.to_string()).unwrap_or("panic".into()))?;
                        let nc = guard(|| ex::next_chunk_size(view, ns, *code, *rem));
                        let a = match nc {
                            None => "panic".to_string(),
                            Some(None) => "none".to_string(),
                            Some(Some(x)) => format!("some:{}", x),
                        };
                        emit(format!("nextchunk {} {} {}", vs, ns, hs), a)?;
                    }
                }
            }
        }
    }
    Ok(n)
}
