//! Every way of turning a collection into a parallel computation (src/into/*.rs,
//! src/par/cloned_copied.rs), plus `Result`-returning `filter_map` (src/par/fallible.rs):
//! a fixed battery of terminals per source kind, compared with the collection's own std
//! iteration.  Lines: `CHK <TAB> property <TAB> name <TAB> ok | FAIL: reason`.
use orx_concurrent_iter::*;
use orx_parallel::*;
use std::collections::{BTreeMap, BTreeSet, BinaryHeap, HashMap, HashSet, LinkedList, VecDeque};
use std::io::Write;
use std::panic::{catch_unwind, AssertUnwindSafe};

pub static ONLY: std::sync::Mutex<String> = std::sync::Mutex::new(String::new());

fn chk<T: PartialEq + std::fmt::Debug>(out: &mut dyn Write, prop: &str, name: &str, what: &str, got: impl FnOnce() -> T, want: T) -> std::io::Result<()> {
    chk_known(out, prop, name, what, got, want, None)
}

/// `known`: key of a recorded known finding whose symptom is a panic of this very call; a panic is
/// then reported as `KNOWN:<key>`, any other difference stays a failure
fn chk_known<T: PartialEq + std::fmt::Debug>(out: &mut dyn Write, prop: &str, name: &str, what: &str, got: impl FnOnce() -> T, want: T, known: Option<&str>) -> std::io::Result<()> {
    {
        let only = ONLY.lock().unwrap();
        if !only.is_empty() && *only != prop {
            return Ok(());
        }
    }
    let r = catch_unwind(AssertUnwindSafe(got));
    let verdict = match r {
        Ok(g) if g == want => "ok".to_string(),
        Ok(g) => format!("FAIL: got {:?} want {:?}", g, want).chars().take(300).collect(),
        Err(_) => match known {
            Some(k) => format!("KNOWN:{}", k),
            None => "FAIL: panicked".to_string(),
        },
    };
    writeln!(out, "CHK\t{}\t{} {}\t{}", prop, name, what, verdict)
}

/// `$mk` must evaluate to a fresh `impl Par<Item = u64>` each time; `$exp` is the std order
macro_rules! battery {
    ($out:expr, $name:expr, $mk:expr, $exp:expr) => {
        battery!($out, $name, $mk, $exp, None)
    };
    ($out:expr, $name:expr, $mk:expr, $exp:expr, $known:expr) => {{
        let exp: Vec<u64> = $exp;
        let known_par: Option<&str> = $known;
        for (nt, cs) in [(0usize, 0usize), (1, 0), (2, 1), (5, 3)] {
            let name = format!("{} nt={} cs={}", $name, nt, cs);
            let known = if nt != 1 { known_par } else { None };
            chk_known($out, "C01", &name, "collect_vec", || $mk.num_threads(nt).chunk_size(cs).collect_vec(), exp.clone(), known)?;
            chk_known($out, "C01", &name, "map collect (SplitVec)", || pv_to_vec($mk.num_threads(nt).chunk_size(cs).map(|x| x + 7).collect()), exp.iter().map(|x| x + 7).collect::<Vec<_>>(), known)?;
            chk($out, "C04", &name, "for_each", || { let m = std::sync::Mutex::new(Vec::new()); $mk.num_threads(nt).chunk_size(cs).for_each(|x| m.lock().unwrap().push(x)); let mut w = m.into_inner().unwrap(); w.sort_unstable(); w }, { let mut w = exp.clone(); w.sort_unstable(); w })?;
            chk($out, "C03", &name, "sum", || $mk.num_threads(nt).chunk_size(cs).fold(|| 0u64, |a, b| a.wrapping_add(b)), exp.iter().fold(0u64, |a, b| a.wrapping_add(*b)))?;
            chk($out, "C02", &name, "any/all", || ($mk.num_threads(nt).chunk_size(cs).any(|x| x % 7 == 3), $mk.num_threads(nt).chunk_size(cs).all(|x| x % 7 != 3)), (exp.iter().any(|x| x % 7 == 3), exp.iter().all(|x| x % 7 != 3)))?;
            chk($out, "C01", &name, "map+filter collect_vec", || $mk.num_threads(nt).chunk_size(cs).map(|x| x * 3 + 1).filter(|x| x % 2 == 0).collect_vec(), exp.iter().map(|x| x * 3 + 1).filter(|x| x % 2 == 0).collect::<Vec<_>>())?;
            chk($out, "C01", &name, "filter_map(Result) collect_vec", || $mk.num_threads(nt).chunk_size(cs).filter_map(|x| if x % 3 == 0 { Err("multiple of three") } else { Ok(x + 1) }).collect_vec(), exp.iter().filter(|x| *x % 3 != 0).map(|x| x + 1).collect::<Vec<_>>())?;
            chk($out, "C01", &name, "flat_map collect_vec", || $mk.num_threads(nt).chunk_size(cs).flat_map(|x| vec![x; (x % 3) as usize]).collect_vec(), exp.iter().flat_map(|x| vec![*x; (*x % 3) as usize]).collect::<Vec<_>>())?;
            chk($out, "C04", &name, "count", || $mk.num_threads(nt).chunk_size(cs).count(), exp.len())?;
            chk($out, "C03", &name, "reduce add", || $mk.num_threads(nt).chunk_size(cs).reduce(|a, b| a.wrapping_add(b)), exp.iter().copied().reduce(|a, b| a.wrapping_add(b)))?;
            chk($out, "C03", &name, "max", || $mk.num_threads(nt).chunk_size(cs).max(), exp.iter().copied().max())?;
            chk($out, "C02", &name, "find", || $mk.num_threads(nt).chunk_size(cs).find(|x| x % 7 == 3), exp.iter().copied().find(|x| x % 7 == 3))?;
            chk($out, "C02", &name, "first", || $mk.num_threads(nt).chunk_size(cs).first(), exp.first().copied())?;
            chk($out, "C02", &name, "filter first", || $mk.num_threads(nt).chunk_size(cs).filter(|x| x % 5 == 1).first(), exp.iter().copied().find(|x| x % 5 == 1))?;
            chk(
                $out,
                "C07",
                &name,
                "collect_x",
                || {
                    let v = $mk.num_threads(nt).chunk_size(cs).filter(|x| x % 4 != 0).collect_x();
                    let mut w: Vec<u64> = (0..orx_split_vec::PinnedVec::len(&v)).map(|i| *orx_split_vec::PinnedVec::get(&v, i).expect("in bounds")).collect();
                    w.sort_unstable();
                    w
                },
                {
                    let mut w: Vec<u64> = exp.iter().copied().filter(|x| x % 4 != 0).collect();
                    w.sort_unstable();
                    w
                },
            )?;
        }
    }};
}

fn pv_to_vec<V: orx_split_vec::PinnedVec<u64>>(v: V) -> Vec<u64> {
    (0..v.len()).map(|i| *v.get(i).expect("in bounds")).collect()
}

pub fn run(out: &mut dyn Write, seed: u64, only: &str) -> std::io::Result<()> {
    *ONLY.lock().unwrap() = only.to_string();
    let mut s = seed.wrapping_mul(0x9E37_79B9_7F4A_7C15) | 1;
    let mut rnd = move || {
        s ^= s << 13;
        s ^= s >> 7;
        s ^= s << 17;
        s
    };
    for &len in &[0usize, 1, 7, 33, 129] {
        let v: Vec<u64> = (0..len).map(|_| rnd() % 1000).collect();
        let tag = format!("len={}", len);
        battery!(out, format!("Vec.par().copied {}", tag), v.par().copied(), v.clone());
        battery!(out, format!("Vec.par().cloned {}", tag), v.par().cloned(), v.clone());
        battery!(out, format!("Vec.par().map(deref) {}", tag), v.par().map(|x| *x), v.clone());
        let sl: &[u64] = &v[..];
        battery!(out, format!("slice.par() {}", tag), sl.par().copied(), v.clone());
        battery!(out, format!("slice.into_par() {}", tag), sl.into_par().copied(), v.clone());
        battery!(out, format!("Vec.into_par() {}", tag), v.clone().into_par(), v.clone());
        battery!(out, format!("Vec.into_iter().par() {}", tag), v.clone().into_iter().par(), v.clone());
        battery!(out, format!("Vec.iter().par().copied {}", tag), v.iter().par().copied(), v.clone());
        battery!(out, format!("Vec.iter().filter().par() unknown-len {}", tag), v.clone().into_iter().filter(|x| x % 11 != 0).par(), v.iter().copied().filter(|x| x % 11 != 0).collect());
        battery!(out, format!("Range.into_par() {}", tag), (3..3 + len).into_par().map(|x| x as u64), (3..3 + len as u64).collect());
        battery!(out, format!("Range.par() {}", tag), (3..3 + len).par().map(|x| x as u64), (3..3 + len as u64).collect());
        let dq: VecDeque<u64> = v.iter().copied().collect();
        battery!(out, format!("VecDeque.par() {}", tag), dq.par().copied(), dq.iter().copied().collect());
        battery!(out, format!("VecDeque.into_par() {}", tag), dq.clone().into_par(), dq.iter().copied().collect());
        let bs: BTreeSet<u64> = v.iter().copied().collect();
        battery!(out, format!("BTreeSet.par() {}", tag), bs.par().copied(), bs.iter().copied().collect());
        battery!(out, format!("BTreeSet.into_par() {}", tag), bs.clone().into_par(), bs.iter().copied().collect());
        let hs: HashSet<u64> = v.iter().copied().collect();
        battery!(out, format!("HashSet.par() {}", tag), hs.par().copied(), hs.iter().copied().collect());
        battery!(out, format!("HashSet.into_par() {}", tag), hs.clone().into_par(), hs.clone().into_iter().collect());
        let ll: LinkedList<u64> = v.iter().copied().collect();
        battery!(out, format!("LinkedList.par() {}", tag), ll.par().copied(), ll.iter().copied().collect());
        battery!(out, format!("LinkedList.into_par() {}", tag), ll.clone().into_par(), ll.iter().copied().collect());
        let bh: BinaryHeap<u64> = v.iter().copied().collect();
        battery!(out, format!("BinaryHeap.par() {}", tag), bh.par().copied(), bh.iter().copied().collect());
        battery!(out, format!("BinaryHeap.into_par() {}", tag), bh.clone().into_par(), bh.clone().into_iter().collect());
        let bm: BTreeMap<u64, u64> = v.iter().enumerate().map(|(i, x)| (i as u64, *x)).collect();
        battery!(out, format!("BTreeMap.par() {}", tag), bm.par().map(|(k, x)| k * 1000 + x), bm.iter().map(|(k, x)| k * 1000 + x).collect());
        battery!(out, format!("BTreeMap.into_par() {}", tag), bm.clone().into_par().map(|(k, x)| k * 1000 + x), bm.iter().map(|(k, x)| k * 1000 + x).collect());
        let hm: HashMap<u64, u64> = v.iter().enumerate().map(|(i, x)| (i as u64, *x)).collect();
        battery!(out, format!("HashMap.par() {}", tag), hm.par().map(|(k, x)| k * 1000 + x), hm.iter().map(|(k, x)| k * 1000 + x).collect());
        battery!(out, format!("HashMap.into_par() {}", tag), hm.clone().into_par().map(|(k, x)| k * 1000 + x), hm.clone().into_iter().map(|(k, x)| k * 1000 + x).collect());
    }
    // concurrent iterators handed to `into_par()` directly (src/into/into_par.rs), fresh and after
    // the caller has already taken `k` elements: the computation is over the remaining elements
    const KF: &str = "C01 map-only-parallel-collect:partially-consumed-concurrent-iterator";
    for &len in &[1usize, 6, 40] {
        let v: Vec<u64> = (0..len).map(|_| rnd() % 1000).collect();
        for &k in &[0usize, 1, len / 2, len] {
            if k > len || (k == len / 2 && (k == 0 || k == 1)) && len > 1 {
                continue;
            }
            let tag = format!("len={} taken={}", len, k);
            let known = if k > 0 { Some(KF) } else { None };
            let rest: Vec<u64> = v[k..].to_vec();
            battery!(out, format!("ConIterOfSlice.into_par().copied {}", tag), { let it = v.as_slice().into_con_iter(); for _ in 0..k { it.next(); } it.into_par().copied() }, rest.clone(), known);
            battery!(out, format!("ConIterOfSlice(next_chunk).into_par().cloned {}", tag), { let it = v.as_slice().into_con_iter(); if k > 0 { let _ = it.next_chunk(k).map(|c| c.values.count()); } it.into_par().cloned() }, rest.clone(), known);
            battery!(out, format!("ConIterOfVec.into_par() {}", tag), { let it = v.clone().into_con_iter(); for _ in 0..k { it.next(); } it.into_par() }, rest.clone(), known);
            battery!(out, format!("ConIterOfVec.into_par().map {}", tag), { let it = v.clone().into_con_iter(); for _ in 0..k { it.next(); } it.into_par().map(|x| x ^ 1) }, rest.iter().map(|x| x ^ 1).collect(), known);
            battery!(out, format!("ConIterOfIter(exact).into_par() {}", tag), { let it = v.clone().into_iter().into_con_iter(); for _ in 0..k { it.next(); } it.into_par() }, rest.clone(), known);
            battery!(out, format!("ConIterOfIter(exact).into_par().map {}", tag), { let it = v.clone().into_iter().into_con_iter(); for _ in 0..k { it.next(); } it.into_par().map(|x| x + 1) }, rest.iter().map(|x| x + 1).collect(), known);
            battery!(out, format!("ConIterOfIter(unknown).into_par() {}", tag), { let it = v.clone().into_iter().filter(|x| x % 13 != 0).into_con_iter(); for _ in 0..k { it.next(); } it.into_par() }, v.iter().copied().filter(|x| x % 13 != 0).skip(k).collect(), known);
            battery!(out, format!("ConIterOfRange.into_par().map {}", tag), { let it = (5..5 + len).con_iter(); for _ in 0..k { it.next(); } it.into_par().map(|x| x as u64) }, (5 + k as u64..5 + len as u64).collect(), known);
            battery!(out, format!("Cloned(ConIterOfSlice).into_par() {}", tag), { let it = v.as_slice().into_con_iter().cloned(); for _ in 0..k { it.next(); } it.into_par() }, rest.clone(), known);
        }
    }
    let arr: [u64; 9] = [5, 3, 8, 8, 1, 0, 13, 21, 4];
    battery!(out, "array.par()".to_string(), arr.par().copied(), arr.to_vec());
    Ok(())
}
