//! Every way of turning a collection into a parallel computation (src/into/*.rs,
//! src/par/cloned_copied.rs), plus `Result`-returning `filter_map` (src/par/fallible.rs):
//! a fixed battery of terminals per source kind, compared with the collection's own std
//! iteration.  Lines: `CHK <TAB> property <TAB> name <TAB> ok | FAIL: reason`.
use orx_concurrent_iter::*;
use orx_parallel::*;
use std::collections::{BTreeMap, BTreeSet, BinaryHeap, HashMap, HashSet, LinkedList, VecDeque};
use std::io::Write;
use std::panic::{catch_unwind, AssertUnwindSafe};

pub static ONLY: std::sync::Mutex<String> = std::sync::Mutex::new(String::new());

fn chk<T: PartialEq + std::fmt::Debug>(out: &mut dyn Write, prop: &str, name: &str, what: &str, got: impl FnOnce() -> T, want: T) -> std::io::Result<()> {
    chk_known(out, prop, name, what, got, want, None)
}

/// `known`: key of a recorded known finding whose symptom is a panic of this very call; a panic is
/// then reported as `KNOWN:<key>`, any other difference stays a failure
fn chk_known<T: PartialEq + std::fmt::Debug>(out: &mut dyn Write, prop: &str, name: &str, what: &str, got: impl FnOnce() -> T, want: T, known: Option<&str>) -> std::io::Result<()> {
    {
        let only = ONLY.lock().unwrap();
        if !only.is_empty() && *only != prop {
            return Ok(());
        }
    }
    // announce the check first: a call that aborts the process is then identifiable
    writeln!(out, "BEGIN\tsources:{} {}", name, what)?;
    out.flush()?;
    let r = catch_unwind(AssertUnwindSafe(got));
    let verdict = match r {
        Ok(g) if g == want => "ok".to_string(),
        Ok(g) => format!("FAIL: got {:?} want {:?}", g, want).chars().take(300).collect(),
        Err(_) => match known {
            Some(k) => format!("KNOWN:{}", k),
            None => "FAIL: panicked".to_string(),
        },
    };
    writeln!(out, "CHK\t{}\t{} {}\t{}", prop, name, what, verdict)?;
    out.flush()
}

/// like `chk`, but a result equal to `alt` is the symptom of the recorded known finding `key`
fn chk_alt<T: PartialEq + std::fmt::Debug>(out: &mut dyn Write, prop: &str, name: &str, what: &str, got: impl FnOnce() -> T, want: T, alt: Option<(&str, T)>) -> std::io::Result<()> {
    {
        let only = ONLY.lock().unwrap();
        if !only.is_empty() && *only != prop {
            return Ok(());
        }
    }
    writeln!(out, "BEGIN\tsources:{} {}", name, what)?;
    out.flush()?;
    let r = catch_unwind(AssertUnwindSafe(got));
    let verdict = match (r, alt) {
        (Ok(g), _) if g == want => "ok".to_string(),
        (Ok(g), Some((k, a))) if g == a => format!("KNOWN:{}", k),
        (Ok(g), _) => format!("FAIL: got {:?} want {:?}", g, want).chars().take(300).collect(),
        (Err(_), _) => "FAIL: panicked".to_string(),
    };
    writeln!(out, "CHK\t{}\t{} {}\t{}", prop, name, what, verdict)?;
    out.flush()
}

/// `$mk` must evaluate to a fresh `impl Par<Item = u64>` each time; `$exp` is the std order
macro_rules! battery {
    ($out:expr, $name:expr, $mk:expr, $exp:expr) => {
        battery!($out, $name, $mk, $exp, None)
    };
    ($out:expr, $name:expr, $mk:expr, $exp:expr, $known:expr) => {{
        let exp: Vec<u64> = $exp;
        let known_par: Option<&str> = $known;
        for (nt, cs) in [(0usize, 0usize), (1, 0), (2, 1), (5, 3)] {
            let name = format!("{} nt={} cs={}", $name, nt, cs);
            let known = if nt != 1 { known_par } else { None };
            chk_known($out, "C01", &name, "collect_vec", || $mk.num_threads(nt).chunk_size(cs).collect_vec(), exp.clone(), known)?;
            chk_known($out, "C01", &name, "map collect (SplitVec)", || pv_to_vec($mk.num_threads(nt).chunk_size(cs).map(|x| x + 7).collect()), exp.iter().map(|x| x + 7).collect::<Vec<_>>(), known)?;
            chk($out, "C04", &name, "for_each", || { let m = std::sync::Mutex::new(Vec::new()); $mk.num_threads(nt).chunk_size(cs).for_each(|x| m.lock().unwrap().push(x)); let mut w = m.into_inner().unwrap(); w.sort_unstable(); w }, { let mut w = exp.clone(); w.sort_unstable(); w })?;
            chk($out, "C03", &name, "sum", || $mk.num_threads(nt).chunk_size(cs).fold(|| 0u64, |a, b| a.wrapping_add(b)), exp.iter().fold(0u64, |a, b| a.wrapping_add(*b)))?;
            chk($out, "C02", &name, "any/all", || ($mk.num_threads(nt).chunk_size(cs).any(|x| x % 7 == 3), $mk.num_threads(nt).chunk_size(cs).all(|x| x % 7 != 3)), (exp.iter().any(|x| x % 7 == 3), exp.iter().all(|x| x % 7 != 3)))?;
            chk($out, "C01", &name, "map+filter collect_vec", || $mk.num_threads(nt).chunk_size(cs).map(|x| x * 3 + 1).filter(|x| x % 2 == 0).collect_vec(), exp.iter().map(|x| x * 3 + 1).filter(|x| x % 2 == 0).collect::<Vec<_>>())?;
            chk($out, "C01", &name, "filter_map(Result) collect_vec", || $mk.num_threads(nt).chunk_size(cs).filter_map(|x| if x % 3 == 0 { Err("multiple of three") } else { Ok(x + 1) }).collect_vec(), exp.iter().filter(|x| *x % 3 != 0).map(|x| x + 1).collect::<Vec<_>>())?;
            chk($out, "C01", &name, "flat_map collect_vec", || $mk.num_threads(nt).chunk_size(cs).flat_map(|x| vec![x; (x % 3) as usize]).collect_vec(), exp.iter().flat_map(|x| vec![*x; (*x % 3) as usize]).collect::<Vec<_>>())?;
            chk($out, "C04", &name, "count", || $mk.num_threads(nt).chunk_size(cs).count(), exp.len())?;
            chk($out, "C03", &name, "reduce add", || $mk.num_threads(nt).chunk_size(cs).reduce(|a, b| a.wrapping_add(b)), exp.iter().copied().reduce(|a, b| a.wrapping_add(b)))?;
            chk($out, "C03", &name, "max", || $mk.num_threads(nt).chunk_size(cs).max(), exp.iter().copied().max())?;
            chk($out, "C02", &name, "find", || $mk.num_threads(nt).chunk_size(cs).find(|x| x % 7 == 3), exp.iter().copied().find(|x| x % 7 == 3))?;
            chk($out, "C02", &name, "first", || $mk.num_threads(nt).chunk_size(cs).first(), exp.first().copied())?;
            chk($out, "C02", &name, "filter first", || $mk.num_threads(nt).chunk_size(cs).filter(|x| x % 5 == 1).first(), exp.iter().copied().find(|x| x % 5 == 1))?;
            chk(
                $out,
                "C07",
                &name,
                "collect_x",
                || {
                    let v = $mk.num_threads(nt).chunk_size(cs).filter(|x| x % 4 != 0).collect_x();
                    let mut w: Vec<u64> = (0..orx_split_vec::PinnedVec::len(&v)).map(|i| *orx_split_vec::PinnedVec::get(&v, i).expect("in bounds")).collect();
                    w.sort_unstable();
                    w
                },
                {
                    let mut w: Vec<u64> = exp.iter().copied().filter(|x| x % 4 != 0).collect();
                    w.sort_unstable();
                    w
                },
            )?;
        }
    }};
}

fn pv_to_vec<V: orx_split_vec::PinnedVec<u64>>(v: V) -> Vec<u64> {
    (0..v.len()).map(|i| *v.get(i).expect("in bounds")).collect()
}

/// element types other than `u64`: zero-sized, heap-owning, large, boxed
pub trait Item: Send + Sync + Clone + 'static {
    /// zero-sized: `SplitVec<()>` of the dependency orx-split-vec is inconsistent on its own (all
    /// pushes land in the first fragment, whose capacity is usize::MAX, while `get` computes the
    /// fragment from the growth arithmetic: `get(16)` after 17 plain pushes is out of bounds), so
    /// results are not read back from a SplitVec for such items
    const ZST: bool = false;
    fn mk(x: u64) -> Self;
    fn val(&self) -> u64;
}
impl Item for () {
    const ZST: bool = true;
    fn mk(_: u64) -> Self {}
    fn val(&self) -> u64 {
        0
    }
}
impl Item for String {
    fn mk(x: u64) -> Self {
        format!("item-{}", x)
    }
    fn val(&self) -> u64 {
        self[5..].parse().unwrap_or(u64::MAX)
    }
}
impl Item for [u64; 24] {
    fn mk(x: u64) -> Self {
        let mut a = [x; 24];
        a[23] = !x;
        a
    }
    fn val(&self) -> u64 {
        if self.iter().take(23).all(|y| *y == self[0]) && self[23] == !self[0] {
            self[0]
        } else {
            u64::MAX
        }
    }
}
impl Item for Box<u64> {
    fn mk(x: u64) -> Self {
        Box::new(x)
    }
    fn val(&self) -> u64 {
        **self
    }
}
impl Item for (u8, Vec<u64>) {
    fn mk(x: u64) -> Self {
        ((x % 251) as u8, vec![x; (x % 3) as usize + 1])
    }
    fn val(&self) -> u64 {
        if self.1.iter().all(|y| *y == self.1[0]) && (self.1[0] % 251) as u8 == self.0 && self.1.len() == (self.1[0] % 3) as usize + 1 {
            self.1[0]
        } else {
            u64::MAX
        }
    }
}

fn item_battery<T: Item>(out: &mut dyn Write, tname: &str, v: &[u64]) -> std::io::Result<()> {
    let items: Vec<T> = v.iter().map(|x| T::mk(*x)).collect();
    let vals = |w: &[T]| -> Vec<u64> { w.iter().map(|x| x.val()).collect() };
    let keep = |x: &T| x.val() % 3 != 1;
    let dup = |x: T| -> Vec<T> { vec![x.clone(); (x.val() % 3) as usize] };
    for (nt, cs) in [(0usize, 0usize), (1, 0), (2, 1), (3, 2), (4, 5)] {
        let name = format!("items<{}> len={} nt={} cs={}", tname, v.len(), nt, cs);
        chk(out, "C01", &name, "collect_vec", || vals(&items.clone().into_par().num_threads(nt).chunk_size(cs).collect_vec()), vals(&items))?;
        chk(out, "C01", &name, "map collect_vec", || vals(&items.clone().into_par().num_threads(nt).chunk_size(cs).map(|x| T::mk(x.val() / 2)).collect_vec()), v.iter().map(|x| T::mk(x / 2).val()).collect())?;
        chk(out, "C01", &name, "filter collect_vec", || vals(&items.clone().into_par().num_threads(nt).chunk_size(cs).filter(keep).collect_vec()), vals(&items.iter().cloned().filter(keep).collect::<Vec<_>>()))?;
        if !T::ZST {
        chk(out, "C01", &name, "filter collect (SplitVec)", || { let w = items.clone().into_par().num_threads(nt).chunk_size(cs).filter(keep).collect(); (0..orx_split_vec::PinnedVec::len(&w)).map(|i| orx_split_vec::PinnedVec::get(&w, i).expect("in bounds").val()).collect::<Vec<u64>>() }, vals(&items.iter().cloned().filter(keep).collect::<Vec<_>>()))?;
        }
        chk(out, "C01", &name, "flat_map collect_vec", || vals(&items.clone().into_par().num_threads(nt).chunk_size(cs).flat_map(dup).collect_vec()), vals(&items.iter().cloned().flat_map(dup).collect::<Vec<_>>()))?;
        chk(out, "C01", &name, "filter collect_into(Vec with capacity)", || { let mut t: Vec<T> = Vec::with_capacity(7); t.push(T::mk(5)); vals(&items.clone().into_par().num_threads(nt).chunk_size(cs).filter(keep).collect_into(t)) }, { let mut e = vec![T::mk(5).val()]; e.extend(vals(&items.iter().cloned().filter(keep).collect::<Vec<_>>())); e })?;
        if !T::ZST {
        chk(out, "C07", &name, "filter collect_x", || { let w = items.clone().into_par().num_threads(nt).chunk_size(cs).filter(keep).collect_x(); let mut o: Vec<u64> = (0..orx_split_vec::PinnedVec::len(&w)).map(|i| orx_split_vec::PinnedVec::get(&w, i).expect("in bounds").val()).collect(); o.sort_unstable(); o }, { let mut o = vals(&items.iter().cloned().filter(keep).collect::<Vec<_>>()); o.sort_unstable(); o })?;
        }
        // zero-sized items included: only the length of the unordered result is read back
        chk(out, "C07", &name, "collect_x lengths: map, filter, flat_map(twice), filter_map(Some)", || {
            let a = items.clone().into_par().num_threads(nt).chunk_size(cs).map(|x| x).collect_x();
            let b = items.clone().into_par().num_threads(nt).chunk_size(cs).filter(keep).collect_x();
            let c = items.clone().into_par().num_threads(nt).chunk_size(cs).flat_map(|x| vec![x.clone(), x]).collect_x();
            let d = items.clone().into_par().num_threads(nt).chunk_size(cs).filter_map(|x| Some(x)).collect_x();
            (orx_split_vec::PinnedVec::len(&a), orx_split_vec::PinnedVec::len(&b), orx_split_vec::PinnedVec::len(&c), orx_split_vec::PinnedVec::len(&d))
        }, (items.len(), items.iter().filter(|x| keep(x)).count(), 2 * items.len(), items.len()))?;
        chk(out, "C04", &name, "filter count", || items.clone().into_par().num_threads(nt).chunk_size(cs).filter(keep).count(), items.iter().filter(|x| keep(x)).count())?;
        chk(out, "C03", &name, "reduce max-by-val", || items.clone().into_par().num_threads(nt).chunk_size(cs).reduce(|a, b| if a.val() >= b.val() { a } else { b }).map(|x| x.val()), items.iter().map(|x| x.val()).max())?;
        chk(out, "C03", &name, "min_by_key", || items.clone().into_par().num_threads(nt).chunk_size(cs).min_by_key(|x| x.val()).map(|x| x.val()), items.iter().map(|x| x.val()).min())?;
        chk(out, "C02", &name, "find", || items.clone().into_par().num_threads(nt).chunk_size(cs).find(|x| x.val() % 7 == 3).map(|x| x.val()), items.iter().find(|x| x.val() % 7 == 3).map(|x| x.val()))?;
        chk(out, "C02", &name, "flat_map first", || items.clone().into_par().num_threads(nt).chunk_size(cs).flat_map(dup).first().map(|x| x.val()), items.iter().cloned().flat_map(dup).next().map(|x| x.val()))?;
        chk(out, "C02", &name, "par() of references: find", || items.par().num_threads(nt).chunk_size(cs).find(|x| x.val() % 5 == 2).map(|x| x.val()), items.iter().find(|x| x.val() % 5 == 2).map(|x| x.val()))?;
    }
    Ok(())
}

/// collect_into targets of every kind, REUSED over several computations: known-length map-only,
/// unknown-length map-only, filtering, flat_map over an unknown-length source — the contents
/// after every step must be the previous contents followed by the std result of that step
macro_rules! target_battery {
    ($out:expr, $name:expr, $mk:expr, $to_vec:expr, $n1:expr, $n2:expr, $nt:expr) => {{
        let (n1, n2, nt): (usize, usize, usize) = ($n1, $n2, $nt);
        let name = format!("target {} first={} second={} nt={}", $name, n1, n2, nt);
        let a: Vec<u64> = (0..n1 as u64).map(|i| i * 7 % 1009).collect();
        let b: Vec<u64> = (0..(2 * n2) as u64).map(|i| i * 13 % 997).collect();
        let mut exp: Vec<u64> = vec![];
        let t = $mk;
        exp.extend(a.iter().map(|x| x + 1));
        let t = a.par().num_threads(nt).map(|x| *x + 1).collect_into(t);
        chk($out, "C06", &name, "step 1: map-only, known length", || $to_vec(&t), exp.clone())?;
        exp.extend(b.iter().copied().filter(|x| x % 2 == 0).map(|x| x ^ 3));
        let t = b.clone().into_iter().filter(|x| x % 2 == 0).par().num_threads(nt).map(|x| x ^ 3).collect_into(t);
        chk($out, "C06", &name, "step 2: map-only, unknown length, reused target", || $to_vec(&t), exp.clone())?;
        exp.extend(a.iter().copied().filter(|x| x % 3 == 1));
        let t = a.par().num_threads(nt).copied().filter(|x| x % 3 == 1).collect_into(t);
        chk($out, "C06", &name, "step 3: filter, known length, reused target", || $to_vec(&t), exp.clone())?;
        exp.extend(b.iter().copied().filter(|x| x % 5 == 0).flat_map(|x| vec![x; (x % 3) as usize]));
        let t = b.clone().into_iter().filter(|x| x % 5 == 0).par().num_threads(nt).flat_map(|x| vec![x; (x % 3) as usize]).collect_into(t);
        chk($out, "C06", &name, "step 4: flat_map, unknown length, reused target", || $to_vec(&t), exp.clone())?;
        exp.extend(b.iter().copied().filter(|x| x % 2 == 1).map(|x| x + 9));
        let t = b.clone().into_iter().filter(|x| x % 2 == 1).par().num_threads(nt).chunk_size(3).map(|x| x + 9).collect_into(t);
        chk($out, "C06", &name, "step 5: map-only, unknown length, again", || $to_vec(&t), exp.clone())?;
    }};
}

pub fn run(out: &mut dyn Write, seed: u64, only: &str) -> std::io::Result<()> {
    *ONLY.lock().unwrap() = only.to_string();
    let mut s = seed.wrapping_mul(0x9E37_79B9_7F4A_7C15) | 1;
    let mut rnd = move || {
        s ^= s << 13;
        s ^= s >> 7;
        s ^= s << 17;
        s
    };
    for &len in &[0usize, 1, 7, 33, 129] {
        let v: Vec<u64> = (0..len).map(|_| rnd() % 1000).collect();
        let tag = format!("len={}", len);
        battery!(out, format!("Vec.par().copied {}", tag), v.par().copied(), v.clone());
        battery!(out, format!("Vec.par().cloned {}", tag), v.par().cloned(), v.clone());
        battery!(out, format!("Vec.par().map(deref) {}", tag), v.par().map(|x| *x), v.clone());
        let sl: &[u64] = &v[..];
        battery!(out, format!("slice.par() {}", tag), sl.par().copied(), v.clone());
        battery!(out, format!("slice.into_par() {}", tag), sl.into_par().copied(), v.clone());
        battery!(out, format!("Vec.into_par() {}", tag), v.clone().into_par(), v.clone());
        battery!(out, format!("Vec.into_iter().par() {}", tag), v.clone().into_iter().par(), v.clone());
        battery!(out, format!("Vec.iter().par().copied {}", tag), v.iter().par().copied(), v.clone());
        battery!(out, format!("Vec.iter().filter().par() unknown-len {}", tag), v.clone().into_iter().filter(|x| x % 11 != 0).par(), v.iter().copied().filter(|x| x % 11 != 0).collect());
        battery!(out, format!("Range.into_par() {}", tag), (3..3 + len).into_par().map(|x| x as u64), (3..3 + len as u64).collect());
        battery!(out, format!("Range.par() {}", tag), (3..3 + len).par().map(|x| x as u64), (3..3 + len as u64).collect());
        let dq: VecDeque<u64> = v.iter().copied().collect();
        battery!(out, format!("VecDeque.par() {}", tag), dq.par().copied(), dq.iter().copied().collect());
        battery!(out, format!("VecDeque.into_par() {}", tag), dq.clone().into_par(), dq.iter().copied().collect());
        let bs: BTreeSet<u64> = v.iter().copied().collect();
        battery!(out, format!("BTreeSet.par() {}", tag), bs.par().copied(), bs.iter().copied().collect());
        battery!(out, format!("BTreeSet.into_par() {}", tag), bs.clone().into_par(), bs.iter().copied().collect());
        let hs: HashSet<u64> = v.iter().copied().collect();
        battery!(out, format!("HashSet.par() {}", tag), hs.par().copied(), hs.iter().copied().collect());
        battery!(out, format!("HashSet.into_par() {}", tag), hs.clone().into_par(), hs.clone().into_iter().collect());
        let ll: LinkedList<u64> = v.iter().copied().collect();
        battery!(out, format!("LinkedList.par() {}", tag), ll.par().copied(), ll.iter().copied().collect());
        battery!(out, format!("LinkedList.into_par() {}", tag), ll.clone().into_par(), ll.iter().copied().collect());
        let bh: BinaryHeap<u64> = v.iter().copied().collect();
        battery!(out, format!("BinaryHeap.par() {}", tag), bh.par().copied(), bh.iter().copied().collect());
        battery!(out, format!("BinaryHeap.into_par() {}", tag), bh.clone().into_par(), bh.clone().into_iter().collect());
        let bm: BTreeMap<u64, u64> = v.iter().enumerate().map(|(i, x)| (i as u64, *x)).collect();
        battery!(out, format!("BTreeMap.par() {}", tag), bm.par().map(|(k, x)| k * 1000 + x), bm.iter().map(|(k, x)| k * 1000 + x).collect());
        battery!(out, format!("BTreeMap.into_par() {}", tag), bm.clone().into_par().map(|(k, x)| k * 1000 + x), bm.iter().map(|(k, x)| k * 1000 + x).collect());
        let hm: HashMap<u64, u64> = v.iter().enumerate().map(|(i, x)| (i as u64, *x)).collect();
        battery!(out, format!("HashMap.par() {}", tag), hm.par().map(|(k, x)| k * 1000 + x), hm.iter().map(|(k, x)| k * 1000 + x).collect());
        battery!(out, format!("HashMap.into_par() {}", tag), hm.clone().into_par().map(|(k, x)| k * 1000 + x), hm.clone().into_iter().map(|(k, x)| k * 1000 + x).collect());
    }
    // concurrent iterators handed to `into_par()` directly (src/into/into_par.rs), fresh and after
    // the caller has already taken `k` elements: the computation is over the remaining elements
    const KF: &str = "C01 map-only-parallel-collect:partially-consumed-concurrent-iterator";
    for &len in &[1usize, 6, 40] {
        let v: Vec<u64> = (0..len).map(|_| rnd() % 1000).collect();
        for &k in &[0usize, 1, len / 2, len] {
            if k > len || (k == len / 2 && (k == 0 || k == 1)) && len > 1 {
                continue;
            }
            let tag = format!("len={} taken={}", len, k);
            let known = if k > 0 { Some(KF) } else { None };
            let rest: Vec<u64> = v[k..].to_vec();
            battery!(out, format!("ConIterOfSlice.into_par().copied {}", tag), { let it = v.as_slice().into_con_iter(); for _ in 0..k { it.next(); } it.into_par().copied() }, rest.clone(), known);
            battery!(out, format!("ConIterOfSlice(next_chunk).into_par().cloned {}", tag), { let it = v.as_slice().into_con_iter(); if k > 0 { let _ = it.next_chunk(k).map(|c| c.values.count()); } it.into_par().cloned() }, rest.clone(), known);
            battery!(out, format!("ConIterOfVec.into_par() {}", tag), { let it = v.clone().into_con_iter(); for _ in 0..k { it.next(); } it.into_par() }, rest.clone(), known);
            battery!(out, format!("ConIterOfVec.into_par().map {}", tag), { let it = v.clone().into_con_iter(); for _ in 0..k { it.next(); } it.into_par().map(|x| x ^ 1) }, rest.iter().map(|x| x ^ 1).collect(), known);
            battery!(out, format!("ConIterOfIter(exact).into_par() {}", tag), { let it = v.clone().into_iter().into_con_iter(); for _ in 0..k { it.next(); } it.into_par() }, rest.clone(), known);
            battery!(out, format!("ConIterOfIter(exact).into_par().map {}", tag), { let it = v.clone().into_iter().into_con_iter(); for _ in 0..k { it.next(); } it.into_par().map(|x| x + 1) }, rest.iter().map(|x| x + 1).collect(), known);
            battery!(out, format!("ConIterOfIter(unknown).into_par() {}", tag), { let it = v.clone().into_iter().filter(|x| x % 13 != 0).into_con_iter(); for _ in 0..k { it.next(); } it.into_par() }, v.iter().copied().filter(|x| x % 13 != 0).skip(k).collect(), known);
            battery!(out, format!("ConIterOfRange.into_par().map {}", tag), { let it = (5..5 + len).con_iter(); for _ in 0..k { it.next(); } it.into_par().map(|x| x as u64) }, (5 + k as u64..5 + len as u64).collect(), known);
            battery!(out, format!("Cloned(ConIterOfSlice).into_par() {}", tag), { let it = v.as_slice().into_con_iter().cloned(); for _ in 0..k { it.next(); } it.into_par() }, rest.clone(), known);
            // `*_with_index` report positions in the ORIGINAL source: k + position among the rest
            const KI: &str = "C02 sequential-with-index:partially-consumed-concurrent-iterator";
            for (nt, cs) in [(0usize, 0usize), (1, 0), (2, 1), (4, 3)] {
                let name = format!("ConIter with_index {} nt={} cs={}", tag, nt, cs);
                let rel = rest.iter().position(|x| x % 4 == 1);
                let want = rel.map(|i| (k + i, rest[i]));
                let alt = if k > 0 && nt == 1 { rel.map(|i| (KI, Some((i, rest[i])))) } else { None };
                chk_alt(out, "C02", &name, "ConIterOfSlice find_with_index", || { let it = v.as_slice().into_con_iter(); for _ in 0..k { it.next(); } it.into_par().num_threads(nt).chunk_size(cs).find_with_index(|x| **x % 4 == 1).map(|(i, x)| (i, *x)) }, want, alt)?;
                let alt = if k > 0 && nt == 1 { rel.map(|i| (KI, Some((i, rest[i])))) } else { None };
                chk_alt(out, "C02", &name, "ConIterOfVec find_with_index", || { let it = v.clone().into_con_iter(); for _ in 0..k { it.next(); } it.into_par().num_threads(nt).chunk_size(cs).find_with_index(|x| *x % 4 == 1) }, want, alt)?;
                let alt = if k > 0 && nt == 1 { rel.map(|i| (KI, Some((i, rest[i] + 3)))) } else { None };
                chk_alt(out, "C02", &name, "ConIterOfIter map find_with_index", || { let it = v.clone().into_iter().into_con_iter(); for _ in 0..k { it.next(); } it.into_par().num_threads(nt).chunk_size(cs).map(|x| x + 3).find_with_index(|x| (*x - 3) % 4 == 1) }, want.map(|(i, x)| (i, x + 3)), alt)?;
                let relf = rest.iter().position(|x| x % 3 != 0);
                let wantf = relf.map(|i| (k + i, rest[i]));
                let alt = if k > 0 && nt == 1 { relf.map(|i| (KI, Some((i, rest[i])))) } else { None };
                chk_alt(out, "C02", &name, "ConIterOfVec filter first_with_index", || { let it = v.clone().into_con_iter(); for _ in 0..k { it.next(); } it.into_par().num_threads(nt).chunk_size(cs).filter(|x| x % 3 != 0).first_with_index() }, wantf, alt)?;
                let alt = if k > 0 && nt == 1 { relf.map(|i| (KI, Some((i, rest[i] * 2)))) } else { None };
                chk_alt(out, "C02", &name, "ConIterOfRange map filter first_with_index", || { let it = (0..len).con_iter(); for _ in 0..k { it.next(); } let vv = v.clone(); it.into_par().num_threads(nt).chunk_size(cs).map(move |i| vv[i] * 2).filter(|x| (x / 2) % 3 != 0).first_with_index() }, wantf.map(|(i, x)| (i, x * 2)), alt)?;
            }
        }
    }
    for &len in &[0usize, 1, 2, 17, 64, 65, 300] {
        let v: Vec<u64> = (0..len).map(|_| rnd() % 1000).collect();
        item_battery::<()>(out, "()", &v)?;
        item_battery::<String>(out, "String", &v)?;
        item_battery::<[u64; 24]>(out, "[u64;24]", &v)?;
        item_battery::<Box<u64>>(out, "Box<u64>", &v)?;
        item_battery::<(u8, Vec<u64>)>(out, "(u8,Vec<u64>)", &v)?;
    }
    if only.is_empty() || only == "C06" {
        use orx_fixed_vec::FixedVec;
        use orx_split_vec::SplitVec;
        let sv = |v: &dyn Fn(usize) -> Option<u64>, n: usize| -> Vec<u64> { (0..n).map(|i| v(i).expect("in bounds")).collect() };
        for (n1, n2) in [(0usize, 5usize), (10, 40), (300, 1000), (8200, 600)] {
            for nt in [1usize, 3] {
                target_battery!(out, "Vec::new", Vec::<u64>::new(), |t: &Vec<u64>| t.clone(), n1, n2, nt);
                target_battery!(out, "Vec::with_capacity(partial)", Vec::<u64>::with_capacity(n1 + n2 / 3), |t: &Vec<u64>| t.clone(), n1, n2, nt);
                target_battery!(out, "Vec::with_capacity(ample)", Vec::<u64>::with_capacity(6 * (n1 + n2) + 64), |t: &Vec<u64>| t.clone(), n1, n2, nt);
                target_battery!(out, "FixedVec", FixedVec::<u64>::new(6 * (n1 + n2) + 64), |t: &FixedVec<u64>| sv(&|i| orx_split_vec::PinnedVec::get(t, i).copied(), orx_split_vec::PinnedVec::len(t)), n1, n2, nt);
                target_battery!(out, "SplitVec::new (doubling)", SplitVec::<u64>::new(), |t: &SplitVec<u64>| sv(&|i| orx_split_vec::PinnedVec::get(t, i).copied(), orx_split_vec::PinnedVec::len(t)), n1, n2, nt);
                // constant-size fragments: linear(k) has 2^k elements per fragment (the pinned code
                // reserves room for 2^32 elements when the length is unknown, i.e. 2^(32-k) fragments:
                // small k costs seconds and gigabytes, so only k = 8 and 10 are exercised)
                target_battery!(out, "SplitVec linear(10)", SplitVec::<u64, orx_split_vec::Linear>::with_linear_growth(10), |t: &SplitVec<u64, orx_split_vec::Linear>| sv(&|i| orx_split_vec::PinnedVec::get(t, i).copied(), orx_split_vec::PinnedVec::len(t)), n1, n2, nt);
                if n1 == 8200 || n1 == 10 {
                    target_battery!(out, "SplitVec linear(8)", SplitVec::<u64, orx_split_vec::Linear>::with_linear_growth(8), |t: &SplitVec<u64, orx_split_vec::Linear>| sv(&|i| orx_split_vec::PinnedVec::get(t, i).copied(), orx_split_vec::PinnedVec::len(t)), n1, n2, nt);
                }
            }
        }
    }
    // many workers find a match at the same instant (the first `threads` predicate evaluations meet
    // at a rendezvous, every element matches): the first match in source order must win (C02) and
    // the input must stop being consumed (C10); plain closures, real threads, repeated
    if only.is_empty() || only == "C02" || only == "C10" || only == "C13" {
        use std::sync::atomic::{AtomicBool, AtomicUsize, Ordering};
        for (threads, shape) in [(4usize, 0usize), (8, 0), (8, 1), (6, 2), (12, 0), (3, 1)] {
            let attempts = 30;
            let total = 120_000u64;
            let mut over = 0usize;
            let mut worst = 0usize;
            let mut wrong: Option<String> = None;
            for _ in 0..attempts {
                let arrived = AtomicUsize::new(0);
                let matched = AtomicBool::new(false);
                let after = AtomicUsize::new(0);
                // the first `m` elements match; their evaluations meet at a rendezvous so that `m`
                // workers report a match at the same instant while the others keep pulling
                let m = (threads / 2).max(2) as u64;
                let pred = |x: &u64| -> bool {
                    if matched.load(Ordering::SeqCst) {
                        after.fetch_add(1, Ordering::SeqCst);
                    }
                    if *x >= m {
                        return false;
                    }
                    arrived.fetch_add(1, Ordering::SeqCst);
                    let t0 = std::time::Instant::now();
                    while (arrived.load(Ordering::SeqCst) as u64) < m && t0.elapsed() < std::time::Duration::from_millis(3) {
                        std::hint::spin_loop();
                    }
                    matched.store(true, Ordering::SeqCst);
                    true
                };
                let src = (0..total).filter(|x| *x < u64::MAX);
                let got: Option<u64> = match shape {
                    0 => src.par().num_threads(threads).chunk_size(1).find(pred),
                    1 => src.par().num_threads(threads).chunk_size(1).map(|x| x + 1).filter(|x| pred(&(*x - 1))).first().map(|x| x - 1),
                    _ => src.par().num_threads(threads).chunk_size(2).flat_map(|x| vec![x]).find(pred),
                };
                if got != Some(0) && wrong.is_none() {
                    wrong = Some(format!("{:?}", got));
                }
                let a = after.load(Ordering::SeqCst);
                worst = worst.max(a);
                if a > 20000 {
                    over += 1;
                }
            }
            // the same with drop-counted values produced by the pipeline: whatever the workers do with
            // the matches they found, every produced value is dropped exactly once (C13)
            let mut leaked_or_double: Option<String> = None;
            if only.is_empty() || only == "C13" {
                static LIVE: std::sync::atomic::AtomicIsize = std::sync::atomic::AtomicIsize::new(0);
                struct Tracked(u64);
                impl Tracked {
                    fn new(x: u64) -> Self {
                        LIVE.fetch_add(1, Ordering::SeqCst);
                        Tracked(x)
                    }
                }
                impl Drop for Tracked {
                    fn drop(&mut self) {
                        LIVE.fetch_sub(1, Ordering::SeqCst);
                        if self.0 == SLOW.load(Ordering::SeqCst) {
                            // a slow destructor on one of the matches (a different one in every
                            // attempt) keeps hand-over windows open
                            std::thread::sleep(std::time::Duration::from_micros(200));
                        }
                    }
                }
                static SLOW: std::sync::atomic::AtomicU64 = std::sync::atomic::AtomicU64::new(1);
                for attempt in 0..(3 * attempts as u64) {
                    LIVE.store(0, Ordering::SeqCst);
                    let arrived = AtomicUsize::new(0);
                    let m = (threads / 2).max(3) as u64;
                    SLOW.store(attempt % m, Ordering::SeqCst);
                    let pred = |t: &Tracked| -> bool {
                        if t.0 >= m {
                            return false;
                        }
                        arrived.fetch_add(1, Ordering::SeqCst);
                        let t0 = std::time::Instant::now();
                        while (arrived.load(Ordering::SeqCst) as u64) < m && t0.elapsed() < std::time::Duration::from_millis(3) {
                            std::hint::spin_loop();
                        }
                        // the order in which the matches are reported varies with the attempt
                        // (later matches first, earlier first, mixed)
                        let rank = match attempt % 3 {
                            0 => m - t.0,
                            1 => t.0 + 1,
                            _ => (t.0 * 2 + attempt / 3) % m + 1,
                        };
                        std::thread::sleep(std::time::Duration::from_micros(120 * rank));
                        true
                    };
                    let src = (0..3000u64).filter(|x| *x < u64::MAX);
                    let got = match shape {
                        0 => src.par().num_threads(threads).chunk_size(1).map(Tracked::new).find(pred).map(|t| t.0),
                        1 => src.par().num_threads(threads).chunk_size(1).filter_map(|x| Some(Tracked::new(x))).filter(pred).first().map(|t| t.0),
                        _ => src.par().num_threads(threads).chunk_size(2).flat_map(|x| vec![Tracked::new(x)]).find(pred).map(|t| t.0),
                    };
                    let live = LIVE.load(Ordering::SeqCst);
                    if (live != 0 || got != Some(0)) && leaked_or_double.is_none() {
                        leaked_or_double = Some(format!("result {:?}, produced minus dropped = {}", got, live));
                    }
                }
            }
            let name = format!("simultaneous finders threads={} shape={} attempts={}", threads, ["find", "map.filter.first", "flat_map.find"][shape], attempts);
            chk(out, "C13", &name, "every produced value dropped exactly once", || leaked_or_double.clone(), None)?;
            chk(out, "C02", &name, "the first element wins", || wrong.clone(), None)?;
            // a few slow attempts can be the OS descheduling the finders; five of thirty are not
            chk(out, "C10", &name, "evaluations after a match stay bounded (fails if 5 or more of the attempts evaluated more than 20000 of 120000 elements after it)", || if over >= 5 { Some((over, worst)) } else { None }, None)?;
        }
    }
    // several computations at the same time on different threads, and computations started from
    // inside a closure of another one: nothing may be shared between computations
    {
        let v: Vec<u64> = (0..400u64).map(|i| i * 31 % 1013).collect();
        let vref = &v;
        for round in 0..3usize {
            let name = format!("concurrent round={}", round);
            chk(out, "C01", &name, "4 threads x (filter collect_vec | map collect | flat_map collect_vec | filter_map collect_into)", || {
                std::thread::scope(|s| {
                    let h1 = s.spawn(move || (0..6).map(|_| vref.par().num_threads(3).chunk_size(2).copied().filter(|x| x % 3 == 0).collect_vec()).collect::<Vec<_>>());
                    let h2 = s.spawn(move || (0..6).map(|_| pv_to_vec(vref.par().num_threads(2).map(|x| *x + 1).collect())).collect::<Vec<_>>());
                    let h3 = s.spawn(move || (0..6).map(|_| vref.par().chunk_size(5).flat_map(|x| vec![*x; (*x % 3) as usize]).collect_vec()).collect::<Vec<_>>());
                    let h4 = s.spawn(move || (0..6).map(|_| vref.par().num_threads(4).filter_map(|x| if x % 5 == 0 { None } else { Some(*x * 2) }).collect_into(vec![7u64])).collect::<Vec<_>>());
                    (h1.join().expect("join"), h2.join().expect("join"), h3.join().expect("join"), h4.join().expect("join"))
                })
            }, (
                vec![v.iter().copied().filter(|x| x % 3 == 0).collect::<Vec<_>>(); 6],
                vec![v.iter().map(|x| *x + 1).collect::<Vec<_>>(); 6],
                vec![v.iter().flat_map(|x| vec![*x; (*x % 3) as usize]).collect::<Vec<_>>(); 6],
                vec![std::iter::once(7u64).chain(v.iter().filter(|x| **x % 5 != 0).map(|x| *x * 2)).collect::<Vec<_>>(); 6],
            ))?;
            chk(out, "C03", &name, "4 threads x (sum | max | min_by_key | count)", || {
                std::thread::scope(|s| {
                    let h1 = s.spawn(move || (0..6).map(|_| vref.par().num_threads(3).copied().sum()).collect::<Vec<u64>>());
                    let h2 = s.spawn(move || (0..6).map(|_| vref.par().chunk_size(3).copied().filter(|x| x % 2 == 1).max()).collect::<Vec<_>>());
                    let h3 = s.spawn(move || (0..6).map(|_| vref.par().num_threads(2).copied().min_by_key(|x| x % 17).map(|x| x % 17)).collect::<Vec<_>>());
                    let h4 = s.spawn(move || (0..6).map(|_| vref.par().flat_map(|x| vec![*x; 2]).filter(|x| x % 7 == 0).count()).collect::<Vec<_>>());
                    (h1.join().expect("join"), h2.join().expect("join"), h3.join().expect("join"), h4.join().expect("join"))
                })
            }, (
                vec![v.iter().sum::<u64>(); 6],
                vec![v.iter().copied().filter(|x| x % 2 == 1).max(); 6],
                vec![v.iter().map(|x| x % 17).min(); 6],
                vec![2 * v.iter().filter(|x| **x % 7 == 0).count(); 6],
            ))?;
            chk(out, "C01", &name, "nested: a computation inside the map closure of another", || {
                vref.par().num_threads(3).chunk_size(4).map(|x| (0..(*x % 6) as usize).into_par().num_threads(2).map(|y| y as u64 + *x).filter(|y| y % 2 == 0).collect_vec()).collect_vec()
            }, v.iter().map(|x| (0..(*x % 6)).map(|y| y + *x).filter(|y| y % 2 == 0).collect::<Vec<u64>>()).collect::<Vec<_>>())?;
            chk(out, "C02", &name, "nested: find inside a filter closure", || {
                vref.par().num_threads(3).copied().filter(|x| (0..20u64).collect::<Vec<_>>().into_par().num_threads(2).find(|y| *y * *y == *x).is_some()).collect_vec()
            }, v.iter().copied().filter(|x| (0..20u64).any(|y| y * y == *x)).collect::<Vec<_>>())?;
            chk(out, "C04", &name, "nested: count inside a for_each closure", || {
                let total = std::sync::atomic::AtomicUsize::new(0);
                vref.par().num_threads(4).for_each(|x| { total.fetch_add((0..(*x % 4) as usize).into_par().count(), std::sync::atomic::Ordering::SeqCst); });
                total.into_inner()
            }, v.iter().map(|x| (*x % 4) as usize).sum::<usize>())?;
        }
    }
    // an element type whose `Ord` is coarser than identity (ordered by priority only): in sequential
    // mode min / max / min_by / max_by / *_by_key return exactly the element std returns (the first
    // minimal, the last maximal one) — C09
    {
        #[derive(Clone, Copy, Debug, PartialEq, Eq)]
        struct Job {
            prio: u64,
            id: u64,
        }
        impl PartialOrd for Job {
            fn partial_cmp(&self, o: &Self) -> Option<std::cmp::Ordering> {
                Some(self.cmp(o))
            }
        }
        impl Ord for Job {
            fn cmp(&self, o: &Self) -> std::cmp::Ordering {
                self.prio.cmp(&o.prio)
            }
        }
        for &len in &[1usize, 2, 9, 40] {
            let jobs: Vec<Job> = (0..len as u64).map(|i| Job { prio: rnd() % 4, id: i }).collect();
            for cs in [0usize, 1, 3] {
                let name = format!("coarse Ord len={} nt=1 cs={}", len, cs);
                chk(out, "C09", &name, "max / min", || (jobs.par().num_threads(1).chunk_size(cs).copied().max(), jobs.par().num_threads(1).chunk_size(cs).copied().min()), (jobs.iter().copied().max(), jobs.iter().copied().min()))?;
                chk(out, "C09", &name, "filter max / flat_map min", || (jobs.par().num_threads(1).chunk_size(cs).copied().filter(|j| j.id % 3 != 0).max(), jobs.par().num_threads(1).chunk_size(cs).flat_map(|j| vec![*j, Job { prio: j.prio, id: j.id + 100 }]).min()), (jobs.iter().copied().filter(|j| j.id % 3 != 0).max(), jobs.iter().flat_map(|j| vec![*j, Job { prio: j.prio, id: j.id + 100 }]).min()))?;
                chk(out, "C09", &name, "max_by / min_by", || (jobs.par().num_threads(1).chunk_size(cs).copied().max_by(|a, b| a.prio.cmp(&b.prio)), jobs.par().num_threads(1).chunk_size(cs).copied().min_by(|a, b| a.prio.cmp(&b.prio))), (jobs.iter().copied().max_by(|a, b| a.prio.cmp(&b.prio)), jobs.iter().copied().min_by(|a, b| a.prio.cmp(&b.prio))))?;
                chk(out, "C09", &name, "max_by_key / min_by_key", || (jobs.par().num_threads(1).chunk_size(cs).copied().max_by_key(|j| j.prio), jobs.par().num_threads(1).chunk_size(cs).copied().min_by_key(|j| j.prio)), (jobs.iter().copied().max_by_key(|j| j.prio), jobs.iter().copied().min_by_key(|j| j.prio)))?;
            }
            // parallel runs: one of the extremal elements (C03)
            for (nt, cs) in [(2usize, 1usize), (4, 2)] {
                let name = format!("coarse Ord len={} nt={} cs={}", len, nt, cs);
                chk(out, "C03", &name, "max / min_by_key priorities", || (jobs.par().num_threads(nt).chunk_size(cs).copied().max().map(|j| j.prio), jobs.par().num_threads(nt).chunk_size(cs).copied().min_by_key(|j| j.prio).map(|j| j.prio)), (jobs.iter().map(|j| j.prio).max(), jobs.iter().map(|j| j.prio).min()))?;
            }
        }
    }
    // values that need dropping produced FROM plain sources (ranges, references to Copy data): every
    // produced value is handed back or dropped exactly once, whatever the pipeline keeps (C13)
    {
        use std::sync::atomic::{AtomicIsize, Ordering};
        static LIVE2: AtomicIsize = AtomicIsize::new(0);
        struct Tr(u64);
        impl Tr {
            fn new(x: u64) -> Self {
                LIVE2.fetch_add(1, Ordering::SeqCst);
                Tr(x)
            }
        }
        impl Clone for Tr {
            fn clone(&self) -> Self {
                Tr::new(self.0)
            }
        }
        impl Drop for Tr {
            fn drop(&mut self) {
                LIVE2.fetch_sub(1, Ordering::SeqCst);
            }
        }
        let v: Vec<u64> = (0..200u64).map(|i| i * 17 % 101).collect();
        for (nt, cs) in [(1usize, 0usize), (0, 0), (2, 1), (3, 4), (4, 16), (8, 2)] {
            let name = format!("droppable outputs from plain sources nt={} cs={}", nt, cs);
            chk(out, "C13", &name, "range / slice refs: map.filter collect_vec, collect, collect_into, collect_x; filter_map; flat_map; reduce; find; count", || {
                LIVE2.store(0, Ordering::SeqCst);
                let mut lens = vec![];
                {
                    let a = (0..200usize).into_par().num_threads(nt).chunk_size(cs).map(|i| Tr::new(i as u64)).filter(|t| t.0 % 3 != 0).collect_vec();
                    let b = v.par().num_threads(nt).chunk_size(cs).map(|x| Tr::new(*x)).filter(|t| t.0 % 2 == 0).collect();
                    let c = v.par().num_threads(nt).chunk_size(cs).map(|x| Tr::new(*x)).filter(|t| t.0 % 5 == 0).collect_into(vec![Tr::new(1)]);
                    let d = v.par().num_threads(nt).chunk_size(cs).map(|x| Tr::new(*x)).filter(|t| t.0 % 7 != 0).collect_x();
                    let e = v.par().num_threads(nt).chunk_size(cs).filter_map(|x| if x % 4 == 0 { None } else { Some(Tr::new(*x)) }).filter(|t| t.0 % 3 == 0).collect_vec();
                    let f = v.par().num_threads(nt).chunk_size(cs).flat_map(|x| vec![Tr::new(*x), Tr::new(*x + 1)]).filter(|t| t.0 % 2 == 1).collect_vec();
                    let g = v.par().num_threads(nt).chunk_size(cs).map(|x| Tr::new(*x)).filter(|t| t.0 % 2 == 1).reduce(|p, q| if p.0 >= q.0 { p } else { q });
                    let h = v.par().num_threads(nt).chunk_size(cs).map(|x| Tr::new(*x)).filter(|t| t.0 % 9 == 8).find(|t| t.0 > 50);
                    let k = v.par().num_threads(nt).chunk_size(cs).map(|x| Tr::new(*x)).filter(|t| t.0 % 2 == 0).count();
                    let m = v.par().num_threads(nt).chunk_size(cs).map(|x| Tr::new(*x)).collect_vec();
                    let cl = m.par().num_threads(nt).chunk_size(cs).cloned().filter(|t| t.0 % 3 == 1).collect_vec();
                    lens.extend([a.len(), orx_split_vec::PinnedVec::len(&b), c.len(), orx_split_vec::PinnedVec::len(&d), e.len(), f.len(), g.map(|t| t.0 as usize).unwrap_or(0), h.map(|t| t.0 as usize).unwrap_or(0), k, cl.len()]);
                }
                (lens, LIVE2.load(Ordering::SeqCst))
            }, (vec![
                (0..200u64).filter(|i| i % 3 != 0).count(),
                v.iter().filter(|x| **x % 2 == 0).count(),
                1 + v.iter().filter(|x| **x % 5 == 0).count(),
                v.iter().filter(|x| **x % 7 != 0).count(),
                v.iter().filter(|x| **x % 4 != 0 && **x % 3 == 0).count(),
                v.iter().flat_map(|x| [*x, *x + 1]).filter(|t| t % 2 == 1).count(),
                v.iter().copied().filter(|t| t % 2 == 1).max().unwrap_or(0) as usize,
                v.iter().copied().filter(|t| t % 9 == 8).find(|t| *t > 50).unwrap_or(0) as usize,
                v.iter().filter(|x| **x % 2 == 0).count(),
                v.iter().filter(|x| **x % 3 == 1).count(),
            ], 0))?;
        }
        // the same with chunks of 513 … 2048 results and a short pause at chunk starts (so that
        // several workers each hold long runs when the ordered merge begins and the last run of the
        // merge comes from one worker): produced − dropped must be 0 after the results are dropped
        let big: Vec<u64> = (0..6000u64).map(|i| i * 31 % 1009).collect();
        for (nt, cs) in [(2usize, 513usize), (2, 700), (3, 1000), (4, 600), (4, 2048)] {
            let name = format!("droppable outputs, long runs per worker nt={} cs={}", nt, cs);
            let pause = |i: usize| { if i % cs == 0 { std::thread::sleep(std::time::Duration::from_micros(300)); } };
            chk(out, "C13", &name, "map.filter collect_vec / collect / collect_into(Vec, FixedVec); filter_map; flat_map — lengths and live count", || {
                LIVE2.store(0, Ordering::SeqCst);
                let mut lens = vec![];
                {
                    let a = (0..6000usize).into_par().num_threads(nt).chunk_size(cs).map(|i| { pause(i); Tr::new(i as u64) }).filter(|t| t.0 % 11 != 0).collect_vec();
                    let b = big.par().num_threads(nt).chunk_size(cs).map(|x| Tr::new(*x)).filter(|t| t.0 % 13 != 0).collect();
                    let c = (0..6000usize).into_par().num_threads(nt).chunk_size(cs).map(|i| { pause(i); Tr::new(big[i]) }).filter(|t| t.0 % 5 != 0).collect_into(vec![Tr::new(1)]);
                    let mut fx = orx_fixed_vec::FixedVec::new(6100);
                    orx_split_vec::PinnedVec::push(&mut fx, Tr::new(2));
                    let d = (0..6000usize).into_par().num_threads(nt).chunk_size(cs).map(|i| { pause(i); Tr::new(big[i]) }).filter(|t| t.0 % 7 != 0).collect_into(fx);
                    let e = (0..6000usize).into_par().num_threads(nt).chunk_size(cs).filter_map(|i| { pause(i); if big[i] % 4 == 0 { None } else { Some(Tr::new(big[i])) } }).collect_vec();
                    let f = (0..3000usize).into_par().num_threads(nt).chunk_size(cs).flat_map(|i| { pause(i); vec![Tr::new(big[i]), Tr::new(big[i] + 1)] }).filter(|t| t.0 % 3 != 0).collect_vec();
                    lens.extend([a.len(), orx_split_vec::PinnedVec::len(&b), c.len(), orx_split_vec::PinnedVec::len(&d), e.len(), f.len()]);
                }
                (lens, LIVE2.load(Ordering::SeqCst))
            }, (vec![
                (0..6000u64).filter(|i| i % 11 != 0).count(),
                big.iter().filter(|x| **x % 13 != 0).count(),
                1 + big.iter().filter(|x| **x % 5 != 0).count(),
                1 + big.iter().filter(|x| **x % 7 != 0).count(),
                big.iter().filter(|x| **x % 4 != 0).count(),
                big[..3000].iter().flat_map(|x| [*x, *x + 1]).filter(|t| t % 3 != 0).count(),
            ], 0))?;
        }
    }
    // nested computations judged like top-level ones: collect_into keeps the target's contents
    // (C06), Max(n) bounds the threads of the inner computation (C08)
    {
        let outer: Vec<u64> = (0..24u64).collect();
        let oref = &outer;
        for nt_outer in [2usize, 4] {
            let name = format!("nested outer_threads={}", nt_outer);
            chk(out, "C06", &name, "collect_into(non-empty Vec / FixedVec / SplitVec) inside a map closure", || {
                oref.par().num_threads(nt_outer).chunk_size(2).map(|x| {
                    let a = (0..(*x % 5 + 3)).collect::<Vec<u64>>().into_par().num_threads(2).map(|y| y + *x).collect_into(vec![1000 + *x, 7]);
                    let mut f = orx_fixed_vec::FixedVec::new(40);
                    orx_split_vec::PinnedVec::push(&mut f, 9u64);
                    let b = (0..(*x % 4 + 2)).collect::<Vec<u64>>().into_par().num_threads(3).map(|y| y * 2).collect_into(f);
                    let mut sv = orx_split_vec::SplitVec::new();
                    orx_split_vec::PinnedVec::push(&mut sv, 5u64);
                    let c = (0..6u64).collect::<Vec<u64>>().into_par().num_threads(2).filter(|y| y % 2 == 0).collect_into(sv);
                    (a, (0..orx_split_vec::PinnedVec::len(&b)).map(|i| *orx_split_vec::PinnedVec::get(&b, i).expect("in bounds")).collect::<Vec<u64>>(), pv_to_vec(c))
                }).collect_vec()
            }, outer.iter().map(|x| {
                let mut a = vec![1000 + *x, 7];
                a.extend((0..(*x % 5 + 3)).map(|y| y + *x));
                let mut b = vec![9u64];
                b.extend((0..(*x % 4 + 2)).map(|y| y * 2));
                (a, b, vec![5u64, 0, 2, 4])
            }).collect::<Vec<_>>())?;
            chk(out, "C08", &name, "Max(2) inner computation inside a for_each closure: distinct threads and peak concurrency per inner run", || {
                let worst = std::sync::Mutex::new((0usize, 0usize));
                oref.par().num_threads(nt_outer).chunk_size(1).for_each(|_| {
                    let ids = std::sync::Mutex::new(std::collections::HashSet::new());
                    let live = std::sync::atomic::AtomicUsize::new(0);
                    let peak = std::sync::atomic::AtomicUsize::new(0);
                    let n = (0..40u64).collect::<Vec<u64>>().into_par().num_threads(2).chunk_size(1).map(|y| {
                        ids.lock().unwrap().insert(std::thread::current().id());
                        let l = live.fetch_add(1, std::sync::atomic::Ordering::SeqCst) + 1;
                        peak.fetch_max(l, std::sync::atomic::Ordering::SeqCst);
                        std::thread::sleep(std::time::Duration::from_micros(60));
                        live.fetch_sub(1, std::sync::atomic::Ordering::SeqCst);
                        y
                    }).count();
                    assert_eq!(n, 40);
                    let mut w = worst.lock().unwrap();
                    w.0 = w.0.max(ids.lock().unwrap().len());
                    w.1 = w.1.max(peak.load(std::sync::atomic::Ordering::SeqCst));
                });
                let w = worst.lock().unwrap();
                (w.0 <= 2, w.1 <= 2)
            }, (true, true))?;
        }
    }
    // closures that need a deep stack (several hundred KiB, well below the 2 MiB of a spawned
    // thread): every parameter setting must complete, as num_threads(1) does (C15)
    {
        #[inline(never)]
        fn deep(n: u32, x: u64) -> u64 {
            let a = [x.wrapping_add(n as u64); 48];
            let a = std::hint::black_box(a);
            if n == 0 {
                a[0]
            } else {
                deep(n - 1, x).wrapping_add(a[47] & 1)
            }
        }
        let v: Vec<u64> = (0..40u64).collect();
        let want: Vec<u64> = v.iter().map(|x| deep(600, *x)).collect();
        for (nt, cs) in [(1usize, 0usize), (0, 0), (2, 1), (4, 3), (8, 0)] {
            let name = format!("deep-stack closure nt={} cs={}", nt, cs);
            chk(out, "C15", &name, "map collect_vec / filter count / reduce", || {
                let a = v.par().num_threads(nt).chunk_size(cs).map(|x| deep(600, *x)).collect_vec();
                let b = v.par().num_threads(nt).chunk_size(cs).filter(|x| deep(600, **x) % 2 == 0).count();
                let c = v.par().num_threads(nt).chunk_size(cs).map(|x| deep(600, *x)).reduce(|p, q| p ^ q);
                (a, b, c)
            }, (want.clone(), want.iter().filter(|x| **x % 2 == 0).count(), want.iter().copied().reduce(|p, q| p ^ q)))?;
        }
    }
    // hundreds of live worker threads belonging to other computations (40 computations of up to 16
    // workers each, all blocked inside their closures) while one more computation runs (C04 …)
    if only.is_empty() || matches!(only, "C01" | "C03" | "C04") {
        use std::sync::atomic::{AtomicBool, AtomicUsize, Ordering};
        let arrived = AtomicUsize::new(0);
        let release = AtomicBool::new(false);
        let v: Vec<u64> = (0..750u64).collect();
        let vref = &v;
        let (arr, rel) = (&arrived, &release);
        std::thread::scope(|s| -> std::io::Result<()> {
            for _ in 0..40 {
                s.spawn(move || {
                    (0..16usize).into_par().num_threads(16).chunk_size(1).for_each(|_| {
                        arr.fetch_add(1, Ordering::SeqCst);
                        let t0 = std::time::Instant::now();
                        while !rel.load(Ordering::SeqCst) && t0.elapsed() < std::time::Duration::from_secs(20) {
                            std::thread::sleep(std::time::Duration::from_millis(1));
                        }
                    })
                });
            }
            let t0 = std::time::Instant::now();
            while arrived.load(Ordering::SeqCst) < 600 && t0.elapsed() < std::time::Duration::from_secs(5) {
                std::thread::sleep(std::time::Duration::from_millis(2));
            }
            let name = format!("victim among {} blocked workers", arrived.load(Ordering::SeqCst) / 100 * 100);
            let r1 = chk(out, "C04", &name, "count / filter_map count / for_each", || {
                let n = AtomicUsize::new(0);
                vref.par().for_each(|_| { n.fetch_add(1, Ordering::SeqCst); });
                (vref.par().count(), vref.par().filter_map(|x| if x % 3 == 0 { None } else { Some(*x) }).count(), n.load(Ordering::SeqCst))
            }, (750, 500, 750));
            let r2 = chk(out, "C03", &name, "sum / max", || (vref.par().copied().sum(), vref.par().num_threads(4).copied().max()), (v.iter().sum::<u64>(), Some(749)));
            let r3 = chk(out, "C01", &name, "filter collect_vec / map collect_vec", || (vref.par().copied().filter(|x| x % 2 == 0).collect_vec(), vref.par().num_threads(3).map(|x| *x + 1).collect_vec()), (v.iter().copied().filter(|x| x % 2 == 0).collect::<Vec<_>>(), v.iter().map(|x| *x + 1).collect::<Vec<_>>()));
            release.store(true, Ordering::SeqCst);
            r1?;
            r2?;
            r3
        })?;
    }
    // scale: inputs and chunk sizes around the largest constant of the settings code
    // (INITIAL_CHUNK_SIZE = 2^20), plain closures (nothing is recorded)
    if only.is_empty() || matches!(only, "C01" | "C02" | "C03" | "C04" | "C07") {
        let big = 1usize << 20;
        for &len in &[big + 1, 3 * big + 7, 6 * big + 12345] {
            let v: Vec<u64> = (0..len as u64).map(|i| i.wrapping_mul(2654435761) % 1_000_003).collect();
            for (nt, cs) in [(2usize, ChunkSize::Exact(std::num::NonZeroUsize::new(big + 1).expect("nz"))), (3, ChunkSize::Min(std::num::NonZeroUsize::new(big + 3).expect("nz"))), (4, ChunkSize::Exact(std::num::NonZeroUsize::new(2 * big).expect("nz"))), (0, ChunkSize::Auto), (16, ChunkSize::Exact(std::num::NonZeroUsize::new(1).expect("nz"))), (8, ChunkSize::Exact(std::num::NonZeroUsize::new(64).expect("nz")))] {
                let name = format!("scale len={} nt={} cs={:?}", len, nt, cs);
                chk(out, "C04", &name, "count", || v.par().num_threads(nt).chunk_size(cs).count(), len)?;
                chk(out, "C04", &name, "filter count", || v.par().num_threads(nt).chunk_size(cs).filter(|x| **x % 3 == 0).count(), v.iter().filter(|x| **x % 3 == 0).count())?;
                chk(out, "C04", &name, "for_each", || { let n = std::sync::atomic::AtomicU64::new(0); v.par().num_threads(nt).chunk_size(cs).for_each(|x| { n.fetch_add(*x, std::sync::atomic::Ordering::Relaxed); }); n.into_inner() }, v.iter().sum::<u64>())?;
                chk(out, "C03", &name, "sum", || v.par().num_threads(nt).chunk_size(cs).copied().sum(), v.iter().sum::<u64>())?;
                chk(out, "C03", &name, "filter_map max", || v.par().num_threads(nt).chunk_size(cs).filter_map(|x| if x % 5 == 0 { None } else { Some(x + 1) }).max(), v.iter().filter(|x| **x % 5 != 0).map(|x| x + 1).max())?;
                chk(out, "C02", &name, "find (only the last element matches)", || v.par().num_threads(nt).chunk_size(cs).copied().map(|x| x + 1).find(|x| *x == 2_000_000), None)?;
                chk(out, "C02", &name, "position of the first multiple of 999983", || v.par().num_threads(nt).chunk_size(cs).copied().find(|x| *x != 0 && x % 999_983 == 0), v.iter().copied().find(|x| *x != 0 && x % 999_983 == 0))?;
                chk(out, "C01", &name, "filter collect_vec (length, checksum)", || { let r = v.par().num_threads(nt).chunk_size(cs).copied().filter(|x| x % 7 == 1).collect_vec(); (r.len(), r.iter().enumerate().fold(0u64, |a, (i, x)| a.wrapping_add((i as u64 + 1).wrapping_mul(*x)))) }, { let r: Vec<u64> = v.iter().copied().filter(|x| x % 7 == 1).collect(); (r.len(), r.iter().enumerate().fold(0u64, |a, (i, x)| a.wrapping_add((i as u64 + 1).wrapping_mul(*x)))) })?;
                chk(out, "C01", &name, "map collect_vec (length, checksum)", || { let r = v.par().num_threads(nt).chunk_size(cs).map(|x| *x ^ 5).collect_vec(); (r.len(), r.iter().enumerate().fold(0u64, |a, (i, x)| a.wrapping_add((i as u64 + 1).wrapping_mul(*x)))) }, { let r: Vec<u64> = v.iter().map(|x| *x ^ 5).collect(); (r.len(), r.iter().enumerate().fold(0u64, |a, (i, x)| a.wrapping_add((i as u64 + 1).wrapping_mul(*x)))) })?;
                chk(out, "C07", &name, "flat_map collect_x (length, sum)", || { let r = v.par().num_threads(nt).chunk_size(cs).flat_map(|x| if x % 4 == 0 { vec![*x, 1] } else { vec![] }).collect_x(); (orx_split_vec::PinnedVec::len(&r), (0..orx_split_vec::PinnedVec::len(&r)).map(|i| *orx_split_vec::PinnedVec::get(&r, i).expect("in bounds")).sum::<u64>()) }, { let r: Vec<u64> = v.iter().flat_map(|x| if x % 4 == 0 { vec![*x, 1] } else { vec![] }).collect(); (r.len(), r.iter().sum::<u64>()) })?;
            }
        }
    }
    let arr: [u64; 9] = [5, 3, 8, 8, 1, 0, 13, 21, 4];
    battery!(out, "array.par()".to_string(), arr.par().copied(), arr.to_vec());
    Ok(())
}
