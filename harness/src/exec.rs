//! Generic pieces of a pipeline run: instrumented closures and sources, the per-step
//! observations (params, construction effects) and the terminal dispatch.
use crate::fam::*;
use crate::rec;
use orx_fixed_vec::FixedVec;
use orx_parallel::*;
use orx_split_vec::{PinnedVec, SplitVec};

fn pv_to_vec<V: PinnedVec<u64>>(v: V) -> Vec<u64> {
    (0..v.len()).map(|i| *v.get(i).expect("in bounds")).collect()
}
use std::sync::atomic::{AtomicBool, AtomicU64, Ordering};
use std::sync::Mutex;

pub static CALLS: AtomicU64 = AtomicU64::new(0);
pub static CONSUMED: AtomicU64 = AtomicU64::new(0);
pub static JITTER: AtomicU64 = AtomicU64::new(0);
/// (stage, arg) at which the closure of that stage panics
pub static PANIC_AT: Mutex<Option<(u32, u64)>> = Mutex::new(None);

pub const ST_FOR_EACH: u32 = 100;
pub const ST_RED: u32 = 101;
pub const ST_PRED: u32 = 102;
pub const ST_KEY: u32 = 103;

#[inline]
fn jitter(x: u64) {
    let j = JITTER.load(Ordering::Relaxed);
    if j == 0 {
        return;
    }
    let h = (x ^ j).wrapping_mul(0x9E37_79B9_7F4A_7C15) >> 58;
    if h < 6 {
        std::thread::yield_now();
    } else if h < 8 {
        std::thread::sleep(std::time::Duration::from_micros(30 * (h - 5)));
    }
}

#[inline]
pub fn pre(stage: u32, x: u64) {
    rec::gate(stage);
    CALLS.fetch_add(1, Ordering::SeqCst);
    rec::record(stage, x);
    jitter(x);
    let p = *PANIC_AT.lock().unwrap();
    if p == Some((stage, x)) {
        panic!("injected panic at stage {} arg {}", stage, x);
    }
}

pub fn mk_map(d: OpD, stage: u32) -> impl Fn(u64) -> u64 + Clone + Send + Sync {
    move |x| {
        pre(stage, x);
        match d {
            OpD::Map { a, b } => f_map(a, b, x),
            _ => unreachable!(),
        }
    }
}
pub fn mk_filter(d: OpD, stage: u32) -> impl Fn(&u64) -> bool + Clone + Send + Sync {
    move |x| {
        pre(stage, *x);
        match d {
            OpD::Filter { k, r } => f_filter(k, r, *x),
            _ => unreachable!(),
        }
    }
}
pub fn mk_flat(d: OpD, stage: u32) -> impl Fn(u64) -> Vec<u64> + Clone + Send + Sync {
    move |x| {
        pre(stage, x);
        match d {
            OpD::FlatMap { k } => f_flat(k, x),
            _ => unreachable!(),
        }
    }
}
pub fn mk_fm(d: OpD, stage: u32) -> impl Fn(u64) -> Option<u64> + Clone + Send + Sync {
    move |x| {
        pre(stage, x);
        match d {
            OpD::FilterMap { k, r, a } => f_fm(k, r, a, x),
            _ => unreachable!(),
        }
    }
}
pub fn mk_pred(p: PredD, negate: bool) -> impl Fn(&u64) -> bool + Clone + Send + Sync {
    move |x| {
        pre(ST_PRED, *x);
        p.test(*x) != negate
    }
}
/// number of invocations of the reduce operator so far in this case
pub static RED_CALLS: AtomicU64 = AtomicU64::new(0);
/// comparator of min_by/max_by, identity closure of fold
pub const ST_CMP: u32 = 105;
pub const ST_ID: u32 = 106;
pub static AUX_CALLS: [AtomicU64; 8] = [const { AtomicU64::new(0) }; 8];
/// the closures handed to the provided terminals (key extraction, comparator, fold identity): who
/// ran them is recorded; they panic at their k-th invocation when `PANIC_AT == (stage, k)`
#[inline]
pub fn aux_gate(stage: u32, x: u64) {
    rec::record(stage, x);
    let k = AUX_CALLS[(stage - 100) as usize].fetch_add(1, Ordering::SeqCst) + 1;
    let p = *PANIC_AT.lock().unwrap();
    if p == Some((stage, k)) {
        rec::record(ST_RED_FIRED, k);
        panic!("injected panic at invocation {} of the closure of stage {}", k, stage);
    }
}
/// the reduce operator panics at its k-th invocation when `PANIC_AT == (ST_RED, k)`; which
/// operands that invocation combines (elements, chunk results, worker results) depends on the run
pub const ST_RED_FIRED: u32 = 104;
#[inline]
pub fn red_gate() {
    let k = RED_CALLS.fetch_add(1, Ordering::SeqCst) + 1;
    let p = *PANIC_AT.lock().unwrap();
    if p == Some((ST_RED, k)) {
        rec::record(ST_RED_FIRED, k);
        panic!("injected panic at invocation {} of the reduce operator", k);
    }
}

pub fn mk_red(r: RedD) -> impl Fn(u64, u64) -> u64 + Clone + Send + Sync {
    move |a, b| {
        rec::record(ST_RED, a);
        red_gate();
        r.apply(a, b)
    }
}

/// by-value iterator source: detects concurrent `next()` calls, records who pulled what
pub struct InstrIter {
    pub data: Vec<u64>,
    pub pos: usize,
    pub exact: bool,
    /// unbounded source: the data repeats for ever
    pub endless: bool,
}
static INSIDE: AtomicBool = AtomicBool::new(false);
impl Iterator for InstrIter {
    type Item = u64;
    fn next(&mut self) -> Option<u64> {
        if INSIDE.swap(true, Ordering::SeqCst) {
            if let Some(r) = rec::REC.lock().unwrap().as_mut() {
                r.reentrancy += 1;
            }
        }
        let out = if self.endless && !self.data.is_empty() { Some(self.data[self.pos % self.data.len()]) } else { self.data.get(self.pos).copied() };
        if out.is_some() {
            CONSUMED.fetch_add(1, Ordering::SeqCst);
            let actor = rec::actor_here();
            let run = rec::CUR_RUN.load(Ordering::SeqCst) as u32;
            if let Some(r) = rec::REC.lock().unwrap().as_mut() {
                r.pulls.push((run, actor, self.pos as u64));
            }
            self.pos += 1;
        }
        let j = JITTER.load(Ordering::Relaxed);
        if j != 0 {
            // a slow source: the thread inside next() holds the dependency's handle while the others
            // wait for it or are only just being spawned (the first pull is slow in half of the runs)
            let h = ((self.pos as u64) ^ j).wrapping_mul(0x9E37_79B9_7F4A_7C15) >> 56; // 1 pull in 256
            if j & 14 == 8 {
                // one slow position (0..7), everything before it is fast: a worker runs ahead, the
                // next one reserves the following position and waits, later workers find everything
                // handed out
                if self.pos as u64 == (j >> 8) % 8 {
                    std::thread::sleep(std::time::Duration::from_millis(3));
                }
            } else if h == 0 || (self.pos <= 1 && j & 2 != 0) || j & 6 == 6 {
                std::thread::sleep(std::time::Duration::from_micros(200 + 60 * (j % 17)));
            } else {
                std::hint::spin_loop();
            }
        }
        INSIDE.store(false, Ordering::SeqCst);
        out
    }
    fn size_hint(&self) -> (usize, Option<usize>) {
        let rem = self.data.len().saturating_sub(self.pos);
        if self.endless {
            (usize::MAX, None)
        } else if self.exact {
            (rem, Some(rem))
        } else {
            (0, None)
        }
    }
}

/// everything one pipeline run needs and observes
pub struct Ctx {
    pub ops: Vec<OpD>,
    /// setters applied after the source (index 0) and after op i (index i+1)
    pub sets: Vec<Vec<SetD>>,
    pub term: TermD,
    /// `params()` / `is_sequential()` after the source and after every call, in call order
    pub params_trace: Vec<(Params, bool)>,
    /// (closure calls, source elements consumed) so far, after the source and after every call
    pub effects_trace: Vec<(u64, u64)>,
}

impl Ctx {
    pub fn new(ops: Vec<OpD>, sets: Vec<Vec<SetD>>, term: TermD) -> Self {
        let mut sets = sets;
        sets.resize(ops.len() + 1, vec![]);
        Ctx { ops, sets, term, params_trace: vec![], effects_trace: vec![] }
    }
    fn observe<Q: Par>(&mut self, p: &Q) {
        let pr = p.params();
        self.params_trace.push((pr, pr.is_sequential()));
        self.effects_trace.push((CALLS.load(Ordering::SeqCst), CONSUMED.load(Ordering::SeqCst)));
    }
}

fn apply_setters<Q: Par>(mut p: Q, ctx: &mut Ctx, pos: usize) -> Q {
    let sets = ctx.sets[pos].clone();
    for s in sets {
        p = match s {
            SetD::NtUsize(n) => p.num_threads(n),
            SetD::NtEnum(v) => p.num_threads(v),
            SetD::CsUsize(n) => p.chunk_size(n),
            SetD::CsEnum(v) => p.chunk_size(v),
        };
        ctx.observe(&p);
    }
    p
}

/// after the source has been turned into a computation
pub fn after_src<Q: Par>(p: Q, ctx: &mut Ctx) -> Q {
    ctx.observe(&p);
    apply_setters(p, ctx, 0)
}

/// after transformation `i`
pub fn after_op<Q: Par>(p: Q, ctx: &mut Ctx, i: usize) -> Q {
    ctx.observe(&p);
    apply_setters(p, ctx, i + 1)
}

fn for_each_bag() -> Outcome {
    let mut v: Vec<u64> = rec::REC
        .lock()
        .unwrap()
        .as_ref()
        .map(|r| r.events.iter().filter(|e| e.stage == ST_FOR_EACH).map(|e| e.arg).collect())
        .unwrap_or_default();
    v.sort_unstable();
    Outcome::Bag(v)
}

/// terminals available on every chain
pub fn run_terminal_core<Q: Par<Item = u64>>(p: Q, ctx: &mut Ctx) -> Outcome {
    match ctx.term.clone() {
        TermD::CollectVec => Outcome::Vals(p.collect_vec()),
        TermD::Collect => Outcome::Vals(pv_to_vec(p.collect())),
        TermD::CollectInto(kind, pre, cap) => match kind {
            'v' => {
                let mut v = Vec::with_capacity(pre.len() + cap);
                v.extend_from_slice(&pre);
                Outcome::Vals(p.collect_into(v))
            }
            's' => {
                let mut v = SplitVec::new();
                for x in &pre {
                    v.push(*x);
                }
                Outcome::Vals(pv_to_vec(p.collect_into(v)))
            }
            _ => {
                let mut v = FixedVec::new(pre.len() + cap);
                for x in &pre {
                    v.push(*x);
                }
                Outcome::Vals(pv_to_vec(p.collect_into(v)))
            }
        },
        TermD::CollectX => {
            let mut v: Vec<u64> = pv_to_vec(p.collect_x());
            v.sort_unstable();
            Outcome::Bag(v)
        }
        TermD::Count => Outcome::Num(p.count() as u64),
        TermD::Reduce(r) => Outcome::Opt(p.reduce(mk_red(r))),
        TermD::Find(pd) => Outcome::Opt(p.find(mk_pred(pd, false))),
        TermD::First => Outcome::Opt(p.first()),
        TermD::ForEach => {
            p.for_each(|x| pre(ST_FOR_EACH, x));
            for_each_bag()
        }
        _ => panic!("HARNESS-ERROR terminal {} not instantiated for this chain", ctx.term.enc()),
    }
}

/// all trait terminals (instantiated only for short chains: the provided methods are written
/// once in the trait and delegate to reduce / find / map+count)
pub fn run_terminal_full<Q: Par<Item = u64>>(p: Q, ctx: &mut Ctx) -> Outcome {
    match ctx.term.clone() {
        TermD::Fold(r, id) => Outcome::Opt(Some(p.fold(
            move || {
                aux_gate(ST_ID, id);
                id
            },
            mk_red(r),
        ))),
        TermD::Sum => Outcome::Opt(Some(p.sum())),
        TermD::Min => Outcome::Opt(p.min()),
        TermD::Max => Outcome::Opt(p.max()),
        TermD::MinBy => Outcome::Opt(p.min_by(|a, b| {
            aux_gate(ST_CMP, *a);
            a.cmp(b)
        })),
        TermD::MaxBy => Outcome::Opt(p.max_by(|a, b| {
            aux_gate(ST_CMP, *a);
            a.cmp(b)
        })),
        TermD::MinByKey(k) => Outcome::Opt(p.min_by_key(move |x| {
            aux_gate(ST_KEY, *x);
            x % k
        })),
        TermD::MaxByKey(k) => Outcome::Opt(p.max_by_key(move |x| {
            aux_gate(ST_KEY, *x);
            x % k
        })),
        TermD::Any(pd) => Outcome::Bool(p.any(mk_pred(pd, false))),
        TermD::All(pd) => Outcome::Bool(p.all(mk_pred(pd, false))),
        _ => run_terminal_core(p, ctx),
    }
}

pub fn is_core_terminal(t: &TermD) -> bool {
    matches!(
        t,
        TermD::CollectVec
            | TermD::Collect
            | TermD::CollectInto(..)
            | TermD::CollectX
            | TermD::Count
            | TermD::Reduce(_)
            | TermD::Find(_)
            | TermD::First
            | TermD::ForEach
    )
}
