//! Closure families shared with the Lean driver (`Driver/Main.lean`), their textual encoding,
//! and the `std::iter` oracle.
use orx_parallel::{ChunkSize, NumThreads};
use std::num::NonZeroUsize;

pub const P: u64 = 1_000_003;

#[derive(Clone, Copy, Debug, PartialEq, Eq, Hash)]
pub enum OpD {
    Map { a: u64, b: u64 },
    Filter { k: u64, r: u64 },
    FlatMap { k: u64 },
    FilterMap { k: u64, r: u64, a: u64 },
}

#[inline]
pub fn f_map(a: u64, b: u64, x: u64) -> u64 {
    (a * (x % P) + b) % P
}
#[inline]
pub fn f_filter(k: u64, r: u64, x: u64) -> bool {
    x % k != r
}
#[inline]
pub fn f_flat(k: u64, x: u64) -> Vec<u64> {
    (0..(x % k)).map(|j| (3 * (x % P) + j) % P).collect()
}
#[inline]
pub fn f_fm(k: u64, r: u64, a: u64, x: u64) -> Option<u64> {
    if x % k == r {
        None
    } else {
        Some(((x % P) + a) % P)
    }
}

impl OpD {
    pub fn kind(&self) -> char {
        match self {
            OpD::Map { .. } => 'M',
            OpD::Filter { .. } => 'F',
            OpD::FlatMap { .. } => 'X',
            OpD::FilterMap { .. } => 'P',
        }
    }
    pub fn enc(&self) -> String {
        match *self {
            OpD::Map { a, b } => format!("M:{}:{}", a, b),
            OpD::Filter { k, r } => format!("F:{}:{}", k, r),
            OpD::FlatMap { k } => format!("X:{}", k),
            OpD::FilterMap { k, r, a } => format!("P:{}:{}:{}", k, r, a),
        }
    }
    pub fn dec(s: &str) -> Option<OpD> {
        let p: Vec<&str> = s.split(':').collect();
        let n = |i: usize| p.get(i).and_then(|x| x.parse::<u64>().ok());
        match p.first().copied()? {
            "M" => Some(OpD::Map { a: n(1)?, b: n(2)? }),
            "F" => Some(OpD::Filter { k: n(1)?, r: n(2)? }),
            "X" => Some(OpD::FlatMap { k: n(1)? }),
            "P" => Some(OpD::FilterMap { k: n(1)?, r: n(2)?, a: n(3)? }),
            _ => None,
        }
    }
    /// std semantics on a whole sequence
    pub fn apply_seq(&self, xs: Vec<u64>) -> Vec<u64> {
        match *self {
            OpD::Map { a, b } => xs.into_iter().map(|x| f_map(a, b, x)).collect(),
            OpD::Filter { k, r } => xs.into_iter().filter(|x| f_filter(k, r, *x)).collect(),
            OpD::FlatMap { k } => xs.into_iter().flat_map(|x| f_flat(k, x)).collect(),
            OpD::FilterMap { k, r, a } => xs.into_iter().filter_map(|x| f_fm(k, r, a, x)).collect(),
        }
    }
}

/// a setter call as the user writes it
#[derive(Clone, Copy, Debug, PartialEq, Eq)]
pub enum SetD {
    NtUsize(usize),
    NtEnum(NumThreads),
    CsUsize(usize),
    CsEnum(ChunkSize),
}

pub fn enc_nt(v: NumThreads) -> String {
    match v {
        NumThreads::Auto => "a".into(),
        NumThreads::Max(n) => format!("m{}", n),
    }
}
pub fn enc_cs(v: ChunkSize) -> String {
    match v {
        ChunkSize::Auto => "a".into(),
        ChunkSize::Min(n) => format!("n{}", n),
        ChunkSize::Exact(n) => format!("e{}", n),
    }
}
pub fn dec_nt(s: &str) -> Option<NumThreads> {
    if s == "a" {
        return Some(NumThreads::Auto);
    }
    let n: usize = s.strip_prefix('m')?.parse().ok()?;
    Some(NumThreads::Max(NonZeroUsize::new(n)?))
}
pub fn dec_cs(s: &str) -> Option<ChunkSize> {
    if s == "a" {
        return Some(ChunkSize::Auto);
    }
    if let Some(r) = s.strip_prefix('n') {
        return Some(ChunkSize::Min(NonZeroUsize::new(r.parse().ok()?)?));
    }
    let n: usize = s.strip_prefix('e')?.parse().ok()?;
    Some(ChunkSize::Exact(NonZeroUsize::new(n)?))
}

impl SetD {
    pub fn enc(&self) -> String {
        match *self {
            SetD::NtUsize(n) => format!("T:{}", n),
            SetD::NtEnum(v) => format!("TE:{}", enc_nt(v)),
            SetD::CsUsize(n) => format!("C:{}", n),
            SetD::CsEnum(v) => format!("CE:{}", enc_cs(v)),
        }
    }
    pub fn dec(s: &str) -> Option<SetD> {
        let (h, t) = s.split_once(':')?;
        match h {
            "T" => Some(SetD::NtUsize(t.parse().ok()?)),
            "TE" => Some(SetD::NtEnum(dec_nt(t)?)),
            "C" => Some(SetD::CsUsize(t.parse().ok()?)),
            "CE" => Some(SetD::CsEnum(dec_cs(t)?)),
            _ => None,
        }
    }
}

/// reduce operators
#[derive(Clone, Copy, Debug, PartialEq, Eq, Hash)]
pub enum RedD {
    Add,
    Xor,
    Min,
    Max,
    /// non-commutative, non-associative: (31*a + b) mod P
    Poly,
    /// non-commutative: wrapping subtraction
    Sub,
}
impl RedD {
    pub fn enc(&self) -> &'static str {
        match self {
            RedD::Add => "add",
            RedD::Xor => "xor",
            RedD::Min => "min",
            RedD::Max => "max",
            RedD::Poly => "poly",
            RedD::Sub => "sub",
        }
    }
    pub fn dec(s: &str) -> Option<RedD> {
        Some(match s {
            "add" => RedD::Add,
            "xor" => RedD::Xor,
            "min" => RedD::Min,
            "max" => RedD::Max,
            "poly" => RedD::Poly,
            "sub" => RedD::Sub,
            _ => return None,
        })
    }
    pub fn is_ac(&self) -> bool {
        matches!(self, RedD::Add | RedD::Xor | RedD::Min | RedD::Max)
    }
    #[inline]
    pub fn apply(&self, a: u64, b: u64) -> u64 {
        match self {
            RedD::Add => a.wrapping_add(b),
            RedD::Xor => a ^ b,
            RedD::Min => a.min(b),
            RedD::Max => a.max(b),
            RedD::Poly => (31 * (a % P) + (b % P)) % P,
            RedD::Sub => a.wrapping_sub(b),
        }
    }
}

/// predicates of the find family: `x % k == r`
#[derive(Clone, Copy, Debug, PartialEq, Eq, Hash)]
pub struct PredD {
    pub k: u64,
    pub r: u64,
}
impl PredD {
    #[inline]
    pub fn test(&self, x: u64) -> bool {
        x % self.k == self.r
    }
}

#[derive(Clone, Debug, PartialEq, Eq, Hash)]
pub enum TermD {
    CollectVec,
    Collect,
    /// target kind: v(ec) | s(plit) | f(ixed); existing contents; spare capacity
    CollectInto(char, Vec<u64>, usize),
    CollectX,
    Count,
    ForEach,
    Reduce(RedD),
    Fold(RedD, u64),
    Sum,
    Min,
    Max,
    MinBy,
    MaxBy,
    /// key = x % k
    MinByKey(u64),
    MaxByKey(u64),
    Find(PredD),
    First,
    Any(PredD),
    All(PredD),
    FindIdx(PredD),
    FirstIdx,
}

fn enc_list(v: &[u64]) -> String {
    if v.is_empty() {
        "-".into()
    } else {
        v.iter().map(|x| x.to_string()).collect::<Vec<_>>().join(",")
    }
}
pub fn dec_list(s: &str) -> Option<Vec<u64>> {
    if s == "-" || s.is_empty() {
        return Some(vec![]);
    }
    s.split(',').map(|x| x.parse().ok()).collect()
}

impl TermD {
    pub fn enc(&self) -> String {
        match self {
            TermD::CollectVec => "collect_vec".into(),
            TermD::Collect => "collect".into(),
            TermD::CollectInto(k, pre, cap) => format!("collect_into:{}:{}:{}", k, enc_list(pre), cap),
            TermD::CollectX => "collect_x".into(),
            TermD::Count => "count".into(),
            TermD::ForEach => "for_each".into(),
            TermD::Reduce(r) => format!("reduce:{}", r.enc()),
            TermD::Fold(r, id) => format!("fold:{}:{}", r.enc(), id),
            TermD::Sum => "sum".into(),
            TermD::Min => "min".into(),
            TermD::Max => "max".into(),
            TermD::MinBy => "min_by".into(),
            TermD::MaxBy => "max_by".into(),
            TermD::MinByKey(k) => format!("min_by_key:{}", k),
            TermD::MaxByKey(k) => format!("max_by_key:{}", k),
            TermD::Find(p) => format!("find:{}:{}", p.k, p.r),
            TermD::First => "first".into(),
            TermD::Any(p) => format!("any:{}:{}", p.k, p.r),
            TermD::All(p) => format!("all:{}:{}", p.k, p.r),
            TermD::FindIdx(p) => format!("find_idx:{}:{}", p.k, p.r),
            TermD::FirstIdx => "first_idx".into(),
        }
    }
    pub fn dec(s: &str) -> Option<TermD> {
        let p: Vec<&str> = s.split(':').collect();
        let n = |i: usize| p.get(i).and_then(|x| x.parse::<u64>().ok());
        Some(match p[0] {
            "collect_vec" => TermD::CollectVec,
            "collect" => TermD::Collect,
            "collect_into" => TermD::CollectInto(p.get(1)?.chars().next()?, dec_list(p.get(2)?)?, n(3)? as usize),
            "collect_x" => TermD::CollectX,
            "count" => TermD::Count,
            "for_each" => TermD::ForEach,
            "reduce" => TermD::Reduce(RedD::dec(p.get(1)?)?),
            "fold" => TermD::Fold(RedD::dec(p.get(1)?)?, n(2)?),
            "sum" => TermD::Sum,
            "min" => TermD::Min,
            "max" => TermD::Max,
            "min_by" => TermD::MinBy,
            "max_by" => TermD::MaxBy,
            "min_by_key" => TermD::MinByKey(n(1)?),
            "max_by_key" => TermD::MaxByKey(n(1)?),
            "find" => TermD::Find(PredD { k: n(1)?, r: n(2)? }),
            "first" => TermD::First,
            "any" => TermD::Any(PredD { k: n(1)?, r: n(2)? }),
            "all" => TermD::All(PredD { k: n(1)?, r: n(2)? }),
            "find_idx" => TermD::FindIdx(PredD { k: n(1)?, r: n(2)? }),
            "first_idx" => TermD::FirstIdx,
            _ => return None,
        })
    }
    pub fn is_find_family(&self) -> bool {
        matches!(
            self,
            TermD::Find(_) | TermD::First | TermD::Any(_) | TermD::All(_) | TermD::FindIdx(_) | TermD::FirstIdx
        )
    }
    pub fn needs_concrete(&self) -> bool {
        matches!(self, TermD::FindIdx(_) | TermD::FirstIdx)
    }
}

/// the result of a terminal, canonical text
#[derive(Clone, Debug, PartialEq, Eq)]
pub enum Outcome {
    Vals(Vec<u64>),
    /// multiset (collect_x, for_each log): kept sorted
    Bag(Vec<u64>),
    Opt(Option<u64>),
    OptIdx(Option<(usize, u64)>),
    Num(u64),
    Bool(bool),
    Panic,
}
impl Outcome {
    pub fn enc(&self) -> String {
        match self {
            Outcome::Vals(v) => format!("V:{}", enc_list(v)),
            Outcome::Bag(v) => format!("G:{}", enc_list(v)),
            Outcome::Opt(None) => "O:none".into(),
            Outcome::Opt(Some(x)) => format!("O:{}", x),
            Outcome::OptIdx(None) => "I:none".into(),
            Outcome::OptIdx(Some((i, x))) => format!("I:{}@{}", x, i),
            Outcome::Num(n) => format!("N:{}", n),
            Outcome::Bool(b) => format!("B:{}", b),
            Outcome::Panic => "PANIC".into(),
        }
    }
}

/// `std::iter` oracle: the sequential value of the chain
pub fn seq_chain(src: &[u64], ops: &[OpD]) -> Vec<u64> {
    let mut xs = src.to_vec();
    for op in ops {
        xs = op.apply_seq(xs);
    }
    xs
}

/// `std::iter` oracle for a terminal (on the sequential stream `xs`).
/// `index_base`: for *_idx terminals the position reported is the position in the source of the
/// last phase; `idx_of` maps a position in `xs` to that source position.
pub fn seq_terminal(xs: &[u64], t: &TermD) -> Outcome {
    match t {
        TermD::CollectVec | TermD::Collect => Outcome::Vals(xs.to_vec()),
        TermD::CollectInto(_, pre, _) => {
            let mut v = pre.clone();
            v.extend_from_slice(xs);
            Outcome::Vals(v)
        }
        TermD::CollectX | TermD::ForEach => {
            let mut v = xs.to_vec();
            v.sort_unstable();
            Outcome::Bag(v)
        }
        TermD::Count => Outcome::Num(xs.len() as u64),
        TermD::Reduce(r) => Outcome::Opt(xs.iter().copied().reduce(|a, b| r.apply(a, b))),
        TermD::Fold(r, id) => Outcome::Opt(Some(xs.iter().copied().reduce(|a, b| r.apply(a, b)).unwrap_or(*id))),
        TermD::Sum => Outcome::Opt(Some(xs.iter().copied().fold(0u64, |a, b| a.wrapping_add(b)))),
        TermD::Min => Outcome::Opt(xs.iter().copied().min()),
        TermD::Max => Outcome::Opt(xs.iter().copied().max()),
        TermD::MinBy => Outcome::Opt(xs.iter().copied().min()),
        TermD::MaxBy => Outcome::Opt(xs.iter().copied().max()),
        // by-key: any extremal element is admissible; the canonical answer is the extremal key
        // together with the set of admissible values, checked separately (see `key_extremal_ok`)
        TermD::MinByKey(k) => Outcome::Opt(xs.iter().copied().min_by_key(|x| x % k)),
        TermD::MaxByKey(k) => Outcome::Opt(xs.iter().copied().max_by_key(|x| x % k)),
        TermD::Find(p) => Outcome::Opt(xs.iter().copied().find(|x| p.test(*x))),
        TermD::First => Outcome::Opt(xs.first().copied()),
        TermD::Any(p) => Outcome::Bool(xs.iter().any(|x| p.test(*x))),
        TermD::All(p) => Outcome::Bool(xs.iter().all(|x| p.test(*x))),
        TermD::FindIdx(_) | TermD::FirstIdx => unreachable!("index terminals use seq_terminal_idx"),
    }
}

/// for by-key terminals: is `got` one of the extremal elements?
pub fn key_extremal_ok(xs: &[u64], t: &TermD, got: Option<u64>) -> bool {
    match t {
        TermD::MinByKey(k) | TermD::MaxByKey(k) => match got {
            None => xs.is_empty(),
            Some(g) => {
                let is_min = matches!(t, TermD::MinByKey(_));
                let ext = if is_min { xs.iter().map(|x| x % k).min() } else { xs.iter().map(|x| x % k).max() };
                xs.contains(&g) && Some(g % k) == ext
            }
        },
        _ => false,
    }
}
