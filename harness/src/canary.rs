//! Drop-observing item type and the closures / terminals over it (C13, C14).
use crate::exec::{pre, Ctx, ST_FOR_EACH, ST_PRED};
use crate::fam::*;
use orx_fixed_vec::FixedVec;
use orx_parallel::*;
use orx_split_vec::{PinnedVec, SplitVec};
use std::sync::atomic::{AtomicU64, Ordering};
use std::sync::Mutex;

const MAGIC: u64 = 0xC0FF_EE00_DEAD_BEEF;
const POISON: u64 = 0x0BAD_0BAD_0BAD_0BAD;

pub struct Canary {
    pub id: u64,
    magic: u64,
    pub val: u64,
}

/// per id: 1 = live, 2 = dropped
static TABLE: Mutex<Vec<u8>> = Mutex::new(Vec::new());
pub static BAD: AtomicU64 = AtomicU64::new(0);
pub static CREATED: AtomicU64 = AtomicU64::new(0);
pub static DROPPED: AtomicU64 = AtomicU64::new(0);

impl Canary {
    pub fn new(val: u64) -> Self {
        let mut t = TABLE.lock().unwrap();
        let id = t.len() as u64;
        t.push(1);
        CREATED.fetch_add(1, Ordering::SeqCst);
        Canary { id, magic: MAGIC, val }
    }
}

impl Drop for Canary {
    fn drop(&mut self) {
        if self.magic != MAGIC {
            // never-initialised memory, or a value that was already dropped (poisoned)
            BAD.fetch_add(1, Ordering::SeqCst);
            return;
        }
        self.magic = POISON;
        let mut t = TABLE.lock().unwrap();
        match t.get_mut(self.id as usize) {
            Some(s) if *s == 1 => {
                *s = 2;
                DROPPED.fetch_add(1, Ordering::SeqCst);
            }
            _ => {
                BAD.fetch_add(1, Ordering::SeqCst);
            }
        }
    }
}

pub fn reset() {
    TABLE.lock().unwrap().clear();
    BAD.store(0, Ordering::SeqCst);
    CREATED.store(0, Ordering::SeqCst);
    DROPPED.store(0, Ordering::SeqCst);
}

/// (created, dropped, live, bad)
pub fn ledger() -> (u64, u64, u64, u64) {
    let t = TABLE.lock().unwrap();
    let live = t.iter().filter(|s| **s == 1).count() as u64;
    (CREATED.load(Ordering::SeqCst), DROPPED.load(Ordering::SeqCst), live, BAD.load(Ordering::SeqCst))
}

pub fn mk_map_c(d: OpD, stage: u32) -> impl Fn(Canary) -> Canary + Clone + Send + Sync {
    move |c| {
        pre(stage, c.val);
        match d {
            OpD::Map { a, b } => Canary::new(f_map(a, b, c.val)),
            _ => unreachable!(),
        }
    }
}
pub fn mk_filter_c(d: OpD, stage: u32) -> impl Fn(&Canary) -> bool + Clone + Send + Sync {
    move |c| {
        pre(stage, c.val);
        match d {
            OpD::Filter { k, r } => f_filter(k, r, c.val),
            _ => unreachable!(),
        }
    }
}
pub fn mk_flat_c(d: OpD, stage: u32) -> impl Fn(Canary) -> Vec<Canary> + Clone + Send + Sync {
    move |c| {
        pre(stage, c.val);
        match d {
            OpD::FlatMap { k } => f_flat(k, c.val).into_iter().map(Canary::new).collect(),
            _ => unreachable!(),
        }
    }
}
pub fn mk_fm_c(d: OpD, stage: u32) -> impl Fn(Canary) -> Option<Canary> + Clone + Send + Sync {
    move |c| {
        pre(stage, c.val);
        match d {
            OpD::FilterMap { k, r, a } => f_fm(k, r, a, c.val).map(Canary::new),
            _ => unreachable!(),
        }
    }
}

fn vals<'a>(it: impl Iterator<Item = &'a Canary>) -> Vec<u64> {
    it.map(|c| c.val).collect()
}
fn pv_vals<V: PinnedVec<Canary>>(v: &V) -> Vec<u64> {
    (0..v.len()).map(|i| v.get(i).expect("in bounds").val).collect()
}

/// terminals over canaries; the returned collection / value is dropped before returning
pub fn run_terminal_canary<Q: Par<Item = Canary>>(p: Q, ctx: &mut Ctx, full: bool) -> Outcome {
    match ctx.term.clone() {
        TermD::CollectVec => {
            let v = p.collect_vec();
            Outcome::Vals(vals(v.iter()))
        }
        TermD::Collect => {
            let v = p.collect();
            Outcome::Vals(pv_vals(&v))
        }
        TermD::CollectInto(kind, pre_vals, cap) => match kind {
            'v' => {
                let mut v = Vec::with_capacity(pre_vals.len() + cap);
                v.extend(pre_vals.iter().map(|x| Canary::new(*x)));
                let v = p.collect_into(v);
                Outcome::Vals(vals(v.iter()))
            }
            's' => {
                let mut v = SplitVec::new();
                for x in &pre_vals {
                    v.push(Canary::new(*x));
                }
                let v = p.collect_into(v);
                Outcome::Vals(pv_vals(&v))
            }
            _ => {
                let mut v = FixedVec::new(pre_vals.len() + cap);
                for x in &pre_vals {
                    v.push(Canary::new(*x));
                }
                let v = p.collect_into(v);
                Outcome::Vals(pv_vals(&v))
            }
        },
        TermD::CollectX => {
            let v = p.collect_x();
            let mut o = pv_vals(&v);
            o.sort_unstable();
            Outcome::Bag(o)
        }
        TermD::Count => Outcome::Num(p.count() as u64),
        TermD::Reduce(r) => {
            let o = p.reduce(move |a: Canary, b: Canary| {
                crate::exec::red_gate();
                Canary::new(r.apply(a.val, b.val))
            });
            Outcome::Opt(o.map(|c| c.val))
        }
        TermD::Find(pd) => {
            let o = p.find(move |c: &Canary| {
                pre(ST_PRED, c.val);
                pd.test(c.val)
            });
            Outcome::Opt(o.map(|c| c.val))
        }
        TermD::First => Outcome::Opt(p.first().map(|c| c.val)),
        TermD::ForEach => {
            p.for_each(|c: Canary| pre(ST_FOR_EACH, c.val));
            let mut v: Vec<u64> = crate::rec::REC
                .lock()
                .unwrap()
                .as_ref()
                .map(|r| r.events.iter().filter(|e| e.stage == ST_FOR_EACH).map(|e| e.arg).collect())
                .unwrap_or_default();
            v.sort_unstable();
            Outcome::Bag(v)
        }
        TermD::MinByKey(k) if full => Outcome::Opt(
            p.min_by_key(move |c: &Canary| {
                crate::exec::aux_gate(crate::exec::ST_KEY, c.val);
                c.val % k
            })
            .map(|c| c.val),
        ),
        TermD::MaxByKey(k) if full => Outcome::Opt(
            p.max_by_key(move |c: &Canary| {
                crate::exec::aux_gate(crate::exec::ST_KEY, c.val);
                c.val % k
            })
            .map(|c| c.val),
        ),
        TermD::Any(pd) if full => Outcome::Bool(p.any(move |c: &Canary| {
            pre(ST_PRED, c.val);
            pd.test(c.val)
        })),
        _ => panic!("HARNESS-ERROR terminal {} not instantiated for canary chains", ctx.term.enc()),
    }
}
