//! Recorder (who evaluated what, spawner decisions, worker life cycle) and the deterministic
//! scheduler that serialises the spawning thread and the workers at hook points.
use orx_parallel::verif::{self, Hooks, SpawnerPoint};
use std::cell::Cell;
use std::collections::{BTreeMap, VecDeque};
use std::sync::atomic::{AtomicBool, AtomicU64, AtomicUsize, Ordering};
use std::sync::{Condvar, Mutex, OnceLock};
use std::thread::ThreadId;
use std::time::Duration;

#[derive(Clone, Copy, Debug, PartialEq, Eq)]
pub struct Ev {
    pub stage: u32,
    pub arg: u64,
    /// run index (0 = no runner active when the event happened)
    pub run: u32,
    /// 0 = calling thread, k>=1 = k-th registered worker of that run, u32::MAX = foreign thread
    pub actor: u32,
    pub seq: u64,
}

#[derive(Clone, Debug, PartialEq, Eq)]
pub struct RunInfo {
    pub max_threads: usize,
    pub exact: bool,
    pub chunk: usize,
    pub len: Option<usize>,
    /// chunk handed to each worker, in registration order
    pub worker_chunks: Vec<usize>,
    /// (point, num_spawned, has_more code, remaining)
    pub points: Vec<(u8, usize, u8, usize)>,
    pub max_live: usize,
    pub panicked_workers: usize,
    pub on_caller: bool,
}

#[derive(Default)]
pub struct RecState {
    pub events: Vec<Ev>,
    pub runs: Vec<RunInfo>,
    pub live: usize,
    pub caller: Option<ThreadId>,
    /// source `next()` calls: (run, actor, position)
    pub pulls: Vec<(u32, u32, u64)>,
    pub reentrancy: u64,
}

pub static REC: Mutex<Option<RecState>> = Mutex::new(None);
static SEQ: AtomicU64 = AtomicU64::new(0);
pub static CUR_RUN: AtomicUsize = AtomicUsize::new(0);
pub static RUN_ACTIVE: AtomicBool = AtomicBool::new(false);

thread_local! {
    pub static ACTOR: Cell<Option<u32>> = const { Cell::new(None) };
}

pub fn actor_here() -> u32 {
    if let Some(a) = ACTOR.with(|a| a.get()) {
        return a;
    }
    let g = REC.lock().unwrap();
    match g.as_ref().and_then(|r| r.caller) {
        Some(c) if c == std::thread::current().id() => 0,
        _ => u32::MAX,
    }
}

pub fn record(stage: u32, arg: u64) {
    let actor = actor_here();
    let run = if RUN_ACTIVE.load(Ordering::SeqCst) { CUR_RUN.load(Ordering::SeqCst) as u32 } else { 0 };
    let seq = SEQ.fetch_add(1, Ordering::SeqCst);
    if let Some(r) = REC.lock().unwrap().as_mut() {
        r.events.push(Ev { stage, arg, run, actor, seq });
    }
}

pub fn begin_case() {
    SEQ.store(0, Ordering::SeqCst);
    CUR_RUN.store(0, Ordering::SeqCst);
    RUN_ACTIVE.store(false, Ordering::SeqCst);
    ACTOR.with(|a| a.set(None));
    *REC.lock().unwrap() = Some(RecState { caller: Some(std::thread::current().id()), ..Default::default() });
}

pub fn end_case() -> RecState {
    RUN_ACTIVE.store(false, Ordering::SeqCst);
    REC.lock().unwrap().take().unwrap_or_default()
}

// ---------------------------------------------------------------- scheduler

#[derive(Clone, Copy, PartialEq, Eq, Debug)]
enum St {
    Running,
    Parked,
    Done,
}

struct Inner {
    on: bool,
    schedule: VecDeque<u32>,
    actors: BTreeMap<u32, St>,
    expected_workers: usize,
    registered: usize,
    turn: Option<u32>,
    granted: Vec<u32>,
    /// closure stage at which workers are gated
    gate_stage: u32,
    rr: u32,
    /// exhaustive enumeration: past the given prefix always grant the smallest parked actor, and
    /// record the set of parked actors at every grant
    exhaust: bool,
    choices: Vec<Vec<u32>>,
}

pub struct Sched {
    m: Mutex<Inner>,
    cv: Condvar,
}

pub static STUCK: AtomicBool = AtomicBool::new(false);

fn sched() -> &'static Sched {
    static S: OnceLock<Sched> = OnceLock::new();
    S.get_or_init(|| Sched {
        m: Mutex::new(Inner {
            on: false,
            schedule: VecDeque::new(),
            actors: BTreeMap::new(),
            expected_workers: 0,
            registered: 0,
            turn: None,
            granted: vec![],
            gate_stage: 0,
            rr: 0,
            exhaust: false,
            choices: vec![],
        }),
        cv: Condvar::new(),
    })
}

impl Sched {
    fn quiescent(i: &Inner) -> bool {
        i.turn.is_none() && i.registered == i.expected_workers && i.actors.values().all(|s| *s != St::Running)
    }
    fn pick_next(i: &mut Inner) {
        if !Self::quiescent(i) {
            return;
        }
        let parked: Vec<u32> = i.actors.iter().filter(|(_, s)| **s == St::Parked).map(|(a, _)| *a).collect();
        if parked.is_empty() {
            return;
        }
        let mut chosen = None;
        while let Some(a) = i.schedule.pop_front() {
            if parked.contains(&a) {
                chosen = Some(a);
                break;
            }
        }
        // schedule exhausted: round-robin over the parked actors (fair); under exhaustive
        // enumeration the smallest parked actor (the lexicographically least continuation)
        let a = chosen.unwrap_or_else(|| {
            if i.exhaust {
                parked[0]
            } else {
                i.rr = i.rr.wrapping_add(1);
                parked[(i.rr as usize) % parked.len()]
            }
        });
        if i.exhaust {
            i.choices.push(parked.clone());
        }
        i.turn = Some(a);
        i.granted.push(a);
    }
    fn park(&self, actor: u32, pre: impl FnOnce(&mut Inner)) {
        let mut g = self.m.lock().unwrap();
        pre(&mut g);
        if !g.on {
            return;
        }
        g.actors.insert(actor, St::Parked);
        Self::pick_next(&mut g);
        self.cv.notify_all();
        while g.turn != Some(actor) {
            let (ng, to) = self.cv.wait_timeout(g, Duration::from_secs(12)).unwrap();
            g = ng;
            if to.timed_out() && g.turn != Some(actor) {
                // the run left the protocol the scheduler (and the spawner model) relies on: a worker
                // the final spawn should have created never registered, or a hook was never reached.
                // Reported as a case the model cannot follow (exit code 5), not as a harness error.
                STUCK.store(true, Ordering::SeqCst);
                let c = crate::case::CURRENT_CASE.lock().map(|g| g.clone()).unwrap_or_default();
                println!("STUCK\t{}\tactor {} actors={:?} expected_workers={} registered={}", c, actor, g.actors, g.expected_workers, g.registered);
                use std::io::Write;
                std::io::stdout().flush().ok();
                std::process::exit(5);
            }
        }
        g.turn = None;
        g.actors.insert(actor, St::Running);
    }
    fn done(&self, actor: u32, pre: impl FnOnce(&mut Inner)) {
        let mut g = self.m.lock().unwrap();
        pre(&mut g);
        if !g.on {
            return;
        }
        g.actors.insert(actor, St::Done);
        Self::pick_next(&mut g);
        self.cv.notify_all();
    }
}

/// switch the deterministic scheduler on for the next case
pub fn sched_on(schedule: Vec<u32>, gate_stage: u32) {
    let mut g = sched().m.lock().unwrap();
    g.on = true;
    g.schedule = schedule.into();
    g.actors.clear();
    g.expected_workers = 0;
    g.registered = 0;
    g.turn = None;
    g.granted.clear();
    g.gate_stage = gate_stage;
    g.rr = 0;
    g.exhaust = false;
    g.choices.clear();
}

/// exhaustive enumeration mode for the next case (call after `sched_on`)
pub fn sched_exhaust() {
    let mut g = sched().m.lock().unwrap();
    g.exhaust = true;
}

/// the sets of parked actors at every grant of the last controlled case (exhaustive mode only)
pub fn sched_choices() -> Vec<Vec<u32>> {
    std::mem::take(&mut sched().m.lock().unwrap().choices)
}

/// switch it off; returns the sequence of grants that actually happened
pub fn sched_off() -> Vec<u32> {
    let mut g = sched().m.lock().unwrap();
    g.on = false;
    g.actors.clear();
    std::mem::take(&mut g.granted)
}

pub fn sched_is_on() -> bool {
    sched().m.lock().unwrap().on
}

/// called by instrumented closures: a worker about to evaluate a closure of the gate stage
pub fn gate(stage: u32) {
    let s = sched();
    let (on, gs) = {
        let g = s.m.lock().unwrap();
        (g.on, g.gate_stage)
    };
    if !on || stage != gs {
        return;
    }
    if let Some(id) = ACTOR.with(|a| a.get()) {
        if id >= 1 && RUN_ACTIVE.load(Ordering::SeqCst) {
            s.park(id, |_| {});
        }
    }
}

pub fn install_hooks() {
    verif::install(Hooks {
        run_begin: Box::new(|mx, exact, c, len| {
            let run = CUR_RUN.fetch_add(1, Ordering::SeqCst) + 1;
            RUN_ACTIVE.store(true, Ordering::SeqCst);
            let on_caller = actor_here() == 0;
            if let Some(r) = REC.lock().unwrap().as_mut() {
                r.live = 0;
                r.runs.push(RunInfo {
                    max_threads: mx,
                    exact,
                    chunk: c,
                    len,
                    worker_chunks: vec![],
                    points: vec![],
                    max_live: 0,
                    panicked_workers: 0,
                    on_caller,
                });
            }
            let _ = run;
            let mut g = sched().m.lock().unwrap();
            if g.on {
                g.actors.clear();
                g.actors.insert(0, St::Running);
                g.expected_workers = 0;
                g.registered = 0;
                g.turn = None;
            }
        }),
        spawner_point: Box::new(|p, n, hm| {
            let code = match p {
                SpawnerPoint::BeforeSpawnDecision => 0u8,
                SpawnerPoint::AfterLag => 1,
                SpawnerPoint::BeforeFinalSpawn => 2,
            };
            let s = sched();
            // first park (so that the has_more value recorded is the one seen when granted)
            s.park(0, |g| {
                g.expected_workers = n;
            });
            // read has_more() now: nothing else runs until the spawner reaches its next gate
            let hm = hm();
            if let Some(r) = REC.lock().unwrap().as_mut() {
                if let Some(run) = r.runs.last_mut() {
                    run.points.push((code, n, hm.0, hm.1));
                }
            }
            if p == SpawnerPoint::BeforeFinalSpawn {
                s.done(0, |g| {
                    g.expected_workers = n + 1;
                });
            }
        }),
        worker_begin: Box::new(|c| {
            let s = sched();
            // ordinal = order of arrival at the recorder (= spawn order under the scheduler)
            let id = {
                let mut g = REC.lock().unwrap();
                match g.as_mut() {
                    Some(r) => {
                        r.live += 1;
                        let live = r.live;
                        match r.runs.last_mut() {
                            Some(run) => {
                                run.worker_chunks.push(c);
                                run.max_live = run.max_live.max(live);
                                run.worker_chunks.len() as u32
                            }
                            None => u32::MAX - 1,
                        }
                    }
                    None => u32::MAX - 1,
                }
            };
            ACTOR.with(|a| a.set(Some(id)));
            s.park(id, |g| g.registered += 1);
        }),
        worker_end: Box::new(|panicking| {
            let id = ACTOR.with(|a| a.get()).unwrap_or(u32::MAX);
            if let Some(r) = REC.lock().unwrap().as_mut() {
                r.live = r.live.saturating_sub(1);
                if panicking {
                    if let Some(run) = r.runs.last_mut() {
                        run.panicked_workers += 1;
                    }
                }
            }
            sched().done(id, |_| {});
        }),
    });
}
