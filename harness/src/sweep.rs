//! Case generators per property and the per-case report line.
use crate::case::*;
use crate::chains::CHAINS;
use crate::exec::*;
use crate::fam::*;
use orx_parallel::{ChunkSize, NumThreads, Params};
use std::collections::{BTreeMap, HashMap};
use std::io::Write;
use std::num::NonZeroUsize;

// ------------------------------------------------------------------ PRNG (xorshift64*)
pub struct Rng(pub u64);
impl Rng {
    pub fn new(seed: u64) -> Self {
        Rng(seed.wrapping_mul(0x9E37_79B9_7F4A_7C15) ^ 0xD1B5_4A32_D192_ED03 | 1)
    }
    pub fn next(&mut self) -> u64 {
        let mut x = self.0;
        x ^= x >> 12;
        x ^= x << 25;
        x ^= x >> 27;
        self.0 = x;
        x.wrapping_mul(0x2545_F491_4F6C_DD1D)
    }
    pub fn below(&mut self, n: u64) -> u64 {
        if n == 0 {
            0
        } else {
            self.next() % n
        }
    }
    pub fn range(&mut self, lo: u64, hi: u64) -> u64 {
        lo + self.below(hi - lo + 1)
    }
    pub fn pick<'a, T>(&mut self, v: &'a [T]) -> &'a T {
        &v[self.below(v.len() as u64) as usize]
    }
    pub fn chance(&mut self, num: u64, den: u64) -> bool {
        self.below(den) < num
    }
}

// ------------------------------------------------------------------ sequential logged oracle

/// lazy left-to-right std evaluation with logging: returns the values yielded (until `sink`
/// says stop) and the (stage, arg) events in evaluation order
pub fn seq_eval(src: &[u64], ops: &[OpD], sink: &mut dyn FnMut(u64, &mut Vec<(u32, u64)>) -> bool) -> Vec<(u32, u64)> {
    fn go(x: u64, i: usize, ops: &[OpD], log: &mut Vec<(u32, u64)>, sink: &mut dyn FnMut(u64, &mut Vec<(u32, u64)>) -> bool) -> bool {
        if i == ops.len() {
            return sink(x, log);
        }
        log.push((i as u32, x));
        match ops[i] {
            OpD::Map { a, b } => go(f_map(a, b, x), i + 1, ops, log, sink),
            OpD::Filter { k, r } => {
                if f_filter(k, r, x) {
                    go(x, i + 1, ops, log, sink)
                } else {
                    true
                }
            }
            OpD::FilterMap { k, r, a } => match f_fm(k, r, a, x) {
                Some(y) => go(y, i + 1, ops, log, sink),
                None => true,
            },
            OpD::FlatMap { k } => {
                for y in f_flat(k, x) {
                    if !go(y, i + 1, ops, log, sink) {
                        return false;
                    }
                }
                true
            }
        }
    }
    let mut log = vec![];
    for x in src {
        if !go(*x, 0, ops, &mut log, sink) {
            break;
        }
    }
    log
}

fn multiset(v: impl Iterator<Item = (u32, u64)>) -> BTreeMap<(u32, u64), usize> {
    let mut m = BTreeMap::new();
    for e in v {
        *m.entry(e).or_insert(0) += 1;
    }
    m
}

// ------------------------------------------------------------------ expectations

pub struct Expect {
    pub seq_vals: Vec<u64>,
    pub out: Outcome,
    /// events of the sequential evaluation of the terminal (chain closures and the predicate)
    pub log: Vec<(u32, u64)>,
}

/// position in the source of the last phase for index terminals: the number of elements of the
/// last phase's source before the one producing the match
pub fn expect(c: &Case) -> Expect {
    let seq_vals = seq_chain(&c.input, &c.ops);
    let (out, log) = match &c.term {
        TermD::Find(p) | TermD::Any(p) | TermD::All(p) | TermD::FindIdx(p) => {
            let negate = matches!(c.term, TermD::All(_));
            let p = *p;
            let mut found = None;
            let log = seq_eval(&c.input, &c.ops, &mut |y, log| {
                log.push((ST_PRED, y));
                if p.test(y) != negate {
                    found = Some(y);
                    false
                } else {
                    true
                }
            });
            let out = match &c.term {
                TermD::Find(_) => Outcome::Opt(found),
                TermD::Any(_) => Outcome::Bool(found.is_some()),
                TermD::All(_) => Outcome::Bool(found.is_none()),
                _ => Outcome::OptIdx(found.map(|y| (idx_of_match(c, &|z| p.test(z)), y))),
            };
            (out, log)
        }
        TermD::First | TermD::FirstIdx => {
            let mut found = None;
            let log = seq_eval(&c.input, &c.ops, &mut |y, _| {
                found = Some(y);
                false
            });
            let out = match &c.term {
                TermD::First => Outcome::Opt(found),
                _ => Outcome::OptIdx(found.map(|y| (idx_of_match(c, &|_| true), y))),
            };
            (out, log)
        }
        t => {
            let is_fe = matches!(t, TermD::ForEach);
            let log = seq_eval(&c.input, &c.ops, &mut |y, log| {
                if is_fe {
                    log.push((ST_FOR_EACH, y));
                }
                true
            });
            (seq_terminal(&seq_vals, t), log)
        }
    };
    Expect { seq_vals, out, log }
}

/// index reported by `*_with_index`: position, in the source of the last phase, of the element
/// whose expansion contains the first match (these terminals exist on ParEmpty/Map/Filter/MapFilter
/// only, so without flat_map in the last phase every element yields at most one value)
fn idx_of_match(c: &Case, pred: &dyn Fn(u64) -> bool) -> usize {
    let e = c.eager_flags();
    let split = e.iter().rposition(|x| *x).unwrap_or(0);
    let phase_src = if e.iter().any(|x| *x) { seq_chain(&c.input, &c.ops[..split]) } else { c.input.clone() };
    let rest = if e.iter().any(|x| *x) { &c.ops[split..] } else { &c.ops[..] };
    for (i, x) in phase_src.iter().enumerate() {
        let ys = seq_chain(&[*x], rest);
        if ys.iter().any(|y| pred(*y)) {
            return i;
        }
    }
    usize::MAX
}

/// the parameters in effect on the source (`sets[0]`), i.e. what the property texts call
/// "set on the source"
fn params_after(sets: &[SetD], mut p: Params) -> Params {
    for s in sets {
        match *s {
            SetD::NtUsize(n) => p.num_threads = nt_of_usize_spec(n),
            SetD::NtEnum(v) => p.num_threads = v,
            SetD::CsUsize(n) => p.chunk_size = cs_of_usize_spec(n),
            SetD::CsEnum(v) => p.chunk_size = v,
        }
    }
    p
}
pub fn final_params(c: &Case) -> Params {
    let mut p = params_default_spec();
    for s in &c.sets {
        p = params_after(s, p);
    }
    p
}
/// the property's definitions, NOT the library's own `Default` / `From<usize>` (which are under
/// test): defaults Auto/Auto; 0 converts to Auto, n > 0 to Max(n) / Exact(n)
pub fn params_default_spec() -> Params {
    Params { num_threads: NumThreads::Auto, chunk_size: ChunkSize::Auto }
}
pub fn nt_of_usize_spec(n: usize) -> NumThreads {
    match NonZeroUsize::new(n) {
        None => NumThreads::Auto,
        Some(n) => NumThreads::Max(n),
    }
}
pub fn cs_of_usize_spec(n: usize) -> ChunkSize {
    match NonZeroUsize::new(n) {
        None => ChunkSize::Auto,
        Some(n) => ChunkSize::Exact(n),
    }
}
/// the property's definition of "sequential", NOT the library's `Params::is_sequential()` (which
/// is under test): true exactly for `NumThreads::Max(1)`
pub fn is_seq_spec(p: &Params) -> bool {
    matches!(p.num_threads, NumThreads::Max(n) if n.get() == 1)
}
pub fn enc_params(p: Params, seq: bool) -> String {
    format!("{}/{}/{}", enc_nt(p.num_threads), enc_cs(p.chunk_size), if seq { 1 } else { 0 })
}

// ------------------------------------------------------------------ the report line

fn phase_source(c: &Case) -> Vec<u64> {
    let e = c.eager_flags();
    match e.iter().rposition(|x| *x) {
        Some(i) => seq_chain(&c.input, &c.ops[..i]),
        None => c.input.clone(),
    }
}

pub struct Report {
    pub fails: Vec<String>,
    pub notes: Vec<String>,
}

pub fn emit_case(out: &mut dyn Write, group: &str, c: &Case, verbose: bool) -> std::io::Result<Report> {
    emit_case_known(out, group, c, verbose, None)
}

/// `known`: the key of a recorded known finding this fixed case is expected to exhibit; its
/// failures are then reported as notes (`KNOWN:<key>`) instead of failures
pub fn emit_case_known(out: &mut dyn Write, group: &str, c: &Case, verbose: bool, known: Option<&str>) -> std::io::Result<Report> {
    let r = run_case(c);
    // under exhaustive enumeration the case is reported with the complete sequence of grants, so
    // that the text replays the same run without the enumeration's fallback rule
    let c_full;
    let c = if EXHAUST.load(std::sync::atomic::Ordering::SeqCst) && matches!(c.mode, Mode::Ctl(_)) {
        c_full = Case { mode: Mode::Ctl(r.granted.clone()), ..c.clone() };
        &c_full
    } else {
        c
    };
    let ex = expect(c);
    let mut fails: Vec<String> = vec![];
    let mut notes: Vec<String> = vec![];
    let fp = final_params(c);
    let src_params = params_after(c.sets.first().map(|v| v.as_slice()).unwrap_or(&[]), params_default_spec());
    let later_sets = c.sets.iter().skip(1).any(|s| !s.is_empty());
    let panicked = r.outcome == Outcome::Panic;

    // ---- value of the terminal vs std (C01 C02 C03 C04 C06 C07 C09 C15)
    if c.panic_at.is_none() {
        if panicked {
            // a call that panics returns nothing: the property of its terminal fails as well
            let tag = match &c.term {
                TermD::CollectVec | TermD::Collect => "C01",
                TermD::CollectInto(_, pre, _) => {
                    if pre.is_empty() {
                        "C01"
                    } else {
                        "C06"
                    }
                }
                TermD::CollectX => "C07",
                TermD::Count | TermD::ForEach => "C04",
                t if t.is_find_family() => "C02",
                _ => "C03",
            };
            // (the two recorded C15 findings at the extreme chunk sizes are reported under C15 only)
            if known.is_none() {
                fails.push(format!("{}:call-panicked-instead-of-returning", tag));
                if matches!(&c.term, TermD::CollectInto(..)) && tag == "C01" {
                    fails.push("C06:call-panicked-instead-of-returning".into());
                }
            }
            fails.push("C15:panicked-without-injected-panic".into());
        } else {
            let ok = match &c.term {
                // in sequential mode the by-key selections are std's exactly (first minimal, last
                // maximal element); in parallel runs ties are unspecified: any extremal element
                TermD::MinByKey(_) | TermD::MaxByKey(_) if fp_all_sequential(c) => r.outcome == ex.out,
                TermD::MinByKey(_) | TermD::MaxByKey(_) => match &r.outcome {
                    Outcome::Opt(g) => key_extremal_ok(&ex.seq_vals, &c.term, *g),
                    _ => false,
                },
                TermD::Reduce(rd) | TermD::Fold(rd, _) if !rd.is_ac() && !fp_all_sequential(c) => true, // unspecified
                _ => r.outcome == ex.out,
            };
            if !ok {
                let tag = match &c.term {
                    TermD::CollectVec | TermD::Collect => "C01",
                    TermD::CollectInto(_, pre, _) => {
                        if pre.is_empty() {
                            "C01"
                        } else {
                            "C06"
                        }
                    }
                    TermD::CollectX => "C07",
                    TermD::Count | TermD::ForEach => "C04",
                    t if t.is_find_family() => "C02",
                    _ => "C03",
                };
                fails.push(format!("{}:value-differs-from-std", tag));
                if fp_all_sequential(c) {
                    fails.push("C09:value-differs-from-std-in-sequential-mode".into());
                }
                fails.push("C15:value-differs-from-sequential-reference".into());
            }
        }
    } else if !panicked {
        // an injected panic must propagate, provided the closure was reached in the sequential order
        let red_panic = matches!(c.panic_at, Some((ST_RED, _)) | Some((ST_KEY, _)) | Some((ST_CMP, _)) | Some((ST_ID, _)));
        // the operator (and with it the comparator; the key closure twice) is invoked
        // (#survivors - 1) times whatever the grouping
        let reached = if red_panic { c.panic_at.map(|(_, k)| (k as usize) < ex.seq_vals.len()).unwrap_or(false) } else { ex.log.iter().any(|e| Some(*e) == c.panic_at.map(|(s, a)| (s, a))) };
        let fired = if red_panic { r.rec.events.iter().any(|e| e.stage == ST_RED_FIRED) } else { r.rec.events.iter().any(|e| Some((e.stage, e.arg)) == c.panic_at) };
        if fired {
            fails.push("C14:closure-panicked-but-call-returned-a-value".into());
        } else if reached && !c.term.is_find_family() {
            fails.push("C14:panicking-element-never-evaluated".into());
        }
    }

    // ---- ownership (C13, C14): canary ledger after the result has been dropped
    if let Some((created, dropped, live, bad)) = r.ledger {
        if bad > 0 {
            let tag = if c.panic_at.is_some() { "C14" } else { "C13" };
            fails.push(format!("{}:bad-drop(count {}: a value dropped twice or never-initialised memory dropped; created {} dropped {})", tag, bad, created, dropped));
        }
        if c.panic_at.is_none() && !panicked && live > 0 {
            fails.push(format!("C13:leak({} of {} values never dropped)", live, created));
        }
        notes.push(format!("LEDGER created={} dropped={} live={} bad={}", created, dropped, live, bad));
    }

    // ---- closure invocations (C05, C09)
    let chain_stage = |s: u32| (s as usize) < c.ops.len() || s == ST_FOR_EACH || s == ST_PRED;
    let got = multiset(r.rec.events.iter().filter(|e| chain_stage(e.stage)).map(|e| (e.stage, e.arg)));
    let want = multiset(ex.log.iter().copied());
    if c.panic_at.is_none() && !panicked {
        if !c.term.is_find_family() {
            if got != want {
                fails.push(format!("C05:closure-call-multiset-differs(got {} calls, want {})", got.values().sum::<usize>(), want.values().sum::<usize>()));
            }
        } else {
            // at most once per element that reaches the stage: compare with the full evaluation
            let full = multiset(seq_eval(&c.input, &c.ops, &mut |y, log| { log.push((ST_PRED, y)); true }).into_iter());
            for (k, n) in &got {
                if c.src_kind == 'e' {
                    break; // the unbounded source repeats its data: the same argument may legitimately recur
                }
                if full.get(k).copied().unwrap_or(0) < *n {
                    fails.push(format!("C05:closure-called-more-often-than-sequentially(stage {} arg {})", k.0, k.1));
                    break;
                }
            }
        }
        if fp_all_sequential(c) {
            // per-stage order must be the std order; find family: exactly the lazy prefix
            let mut stages: Vec<u32> = want.keys().map(|k| k.0).collect();
            stages.dedup();
            for s in stages {
                let g: Vec<u64> = r.rec.events.iter().filter(|e| e.stage == s).map(|e| e.arg).collect();
                let w: Vec<u64> = ex.log.iter().filter(|e| e.0 == s).map(|e| e.1).collect();
                let ok = if c.term.is_find_family() && c.has_eager() {
                    // stages before an eager site are evaluated completely (known finding C16)
                    true
                } else {
                    g == w
                };
                if !ok {
                    fails.push(format!("C09:stage-{}-argument-order-differs", s));
                    if c.term.is_find_family() {
                        fails.push(format!("C10:sequential-evaluation-beyond-first-match(stage {})", s));
                    }
                    break;
                }
            }
        }
    }
    // sequential mode, short-circuit terminal, instrumented iterator source, one pass over the
    // source: std's lazy find consumes the source exactly up to the element that yields the match
    if fp_all_sequential(c) && c.term.is_find_family() && matches!(c.src_kind, 'k' | 'u' | 'e') && !c.has_eager() && c.panic_at.is_none() && !panicked {
        let matched = !matches!(ex.out, Outcome::Opt(None) | Outcome::OptIdx(None)) && !matches!((&c.term, &ex.out), (TermD::Any(_), Outcome::Bool(false)) | (TermD::All(_), Outcome::Bool(true)));
        let needed = if c.ops.is_empty() {
            // no chain closure: the predicate (or `first`) sees one source element per call
            if matched { ex.log.len().max(1) } else { c.input.len() }
        } else {
            ex.log.iter().filter(|e| e.0 == 0).count()
        };
        let needed = if matched { needed } else { c.input.len() };
        let pulled = r.rec.pulls.len();
        if c.src_kind != 'e' && pulled != needed || c.src_kind == 'e' && pulled > needed {
            fails.push(format!("C10:sequential-mode-consumed-{}-source-elements-where-the-lazy-std-evaluation-consumes-{}", pulled, needed));
        }
    }
    if r.rec.reentrancy > 0 {
        fails.push(format!("C05:source-advanced-concurrently({} times)", r.rec.reentrancy));
    }
    if c.src_kind == 'k' || c.src_kind == 'u' {
        let mut seen: HashMap<u64, usize> = HashMap::new();
        for p in &r.rec.pulls {
            *seen.entry(p.2).or_insert(0) += 1;
        }
        if seen.values().any(|n| *n > 1) {
            fails.push("C05:source-element-yielded-twice".into());
        }
    }

    // ---- threads (C08)
    if let NumThreads::Max(n) = src_params.num_threads {
        let n = n.get();
        if !c.sets.iter().skip(1).flatten().any(|s| matches!(s, SetD::NtUsize(_) | SetD::NtEnum(_))) {
            for (i, run) in r.rec.runs.iter().enumerate() {
                if run.worker_chunks.len() > n {
                    fails.push(format!("C08:run-{}-spawned-{}-workers-for-Max({})", i + 1, run.worker_chunks.len(), n));
                }
                if run.max_live > n {
                    fails.push(format!("C08:run-{}-had-{}-live-workers-for-Max({})", i + 1, run.max_live, n));
                }
            }
            let mut by_stage: HashMap<u32, std::collections::BTreeSet<(u32, u32)>> = HashMap::new();
            for e in &r.rec.events {
                by_stage.entry(e.stage).or_default().insert((if e.actor == 0 { 0 } else { e.run }, e.actor));
            }
            for (s, set) in &by_stage {
                if set.len() > n {
                    if (*s == ST_RED || *s == ST_KEY || *s == ST_CMP) && set.len() == n + 1 && set.contains(&(0, 0)) && n > 1 {
                        notes.push(format!("KNOWN:C08 reduce-op-on-caller:distinct=n+1 (n={})", n));
                    } else {
                        fails.push(format!("C08:stage-{}-ran-on-{}-threads-for-Max({})", s, set.len(), n));
                    }
                }
                if set.iter().any(|a| a.1 == u32::MAX) {
                    fails.push(format!("C08:stage-{}-ran-on-a-foreign-thread", s));
                }
            }
            if n == 1 {
                if !r.rec.runs.is_empty() {
                    fails.push("C08:runner-started-under-Max(1)".into());
                }
                if r.rec.events.iter().any(|e| e.actor != 0) {
                    fails.push("C08:closure-off-the-calling-thread-under-Max(1)".into());
                }
            }
        }
    }

    // ---- exact chunks (C11)
    let obs = if panicked || c.src_kind == 'e' { None } else { observed_assignment(c, &r, &phase_source(c)) };
    if let (ChunkSize::Exact(cz), false) = (fp.chunk_size, later_sets && c.has_eager()) {
        let cz = cz.get();
        if let Some(run) = r.rec.runs.last() {
            if run.worker_chunks.iter().any(|w| *w != cz) {
                fails.push(format!("C11:worker-handed-chunk-{:?}-under-Exact({})", run.worker_chunks, cz));
            }
        }
        if let (Some(a), false) = (&obs, c.term.is_find_family()) {
            let mut owner: HashMap<usize, u32> = HashMap::new();
            for ch in a {
                for i in ch.start..ch.start + ch.len {
                    owner.insert(i, ch.tid);
                }
            }
            for (i, t) in &owner {
                if owner.get(&(i - i % cz)) != Some(t) {
                    fails.push(format!("C11:aligned-block-of-{}-split-between-threads-under-Exact({})", i, cz));
                    break;
                }
            }
        }
        if (c.src_kind == 'k' || c.src_kind == 'u') && !c.has_eager() && !c.term.is_find_family() && !panicked {
            // bursts of next() by one actor: every maximal burst is a multiple of c except the last
            let last_run = r.rec.runs.len() as u32;
            let pulls: Vec<&(u32, u32, u64)> = r.rec.pulls.iter().filter(|p| p.0 == last_run).collect();
            let total = pulls.len();
            let mut i = 0;
            while i < total {
                let mut j = i;
                while j + 1 < total && pulls[j + 1].1 == pulls[i].1 {
                    j += 1;
                }
                let burst = j - i + 1;
                if burst % cz != 0 && j + 1 != total {
                    fails.push(format!("C11:pull-of-{}-elements-under-Exact({})", burst, cz));
                    break;
                }
                i = j + 1;
            }
        }
    }

    // ---- bounded work after a match is known (C10), controlled runs only: the matching
    // evaluation and the skip_to_end that follows happen inside one granted step, so every
    // evaluation logged after it must come out of a chunk that was already held
    if let (Mode::Ctl(_), true, false) = (&c.mode, c.term.is_find_family(), panicked) {
        let negate = matches!(c.term, TermD::All(_));
        let pd = match &c.term {
            TermD::Find(p) | TermD::Any(p) | TermD::All(p) | TermD::FindIdx(p) => Some(*p),
            _ => None,
        };
        if let (Some(pd), Some(stage), Some(run)) = (pd, c.trace_stage(), r.rec.runs.last()) {
            let last_run = r.rec.runs.len() as u32;
            let pub_seq = r.rec.events.iter().filter(|e| e.stage == ST_PRED && e.run == last_run && (pd.test(e.arg) != negate)).map(|e| e.seq).min();
            if let Some(ps) = pub_seq {
                let mut after: HashMap<u32, usize> = HashMap::new();
                for e in r.rec.events.iter().filter(|e| e.stage == stage && e.run == last_run && e.seq > ps) {
                    *after.entry(e.actor).or_insert(0) += 1;
                }
                for (a, n) in after {
                    let cw = run.worker_chunks.get((a as usize).wrapping_sub(1)).copied().unwrap_or(1);
                    if n > cw {
                        fails.push(format!("C10:worker-{}-evaluated-{}-elements-after-the-match-was-published(chunk {})", a, n, cw));
                    }
                }
            }
        }
    }

    // ---- params (C12) and laziness (C16)
    {
        let mut p = params_default_spec();
        let mut want = vec![enc_params(p, is_seq_spec(&p))];
        for (i, ss) in c.sets.iter().enumerate() {
            if i > 0 {
                want.push(enc_params(p, is_seq_spec(&p)));
            }
            for s in ss {
                p = params_after(&[*s], p);
                want.push(enc_params(p, is_seq_spec(&p)));
            }
        }
        let got: Vec<String> = r.params_trace.iter().map(|(p, s)| enc_params(*p, *s)).collect();
        // a panic during construction truncates the trace
        if !panicked && got != want {
            fails.push(format!("C12:params-trace-differs(got {} want {})", got.join("|"), want.join("|")));
        }
    }
    let eager = c.eager_flags();
    {
        // effects_trace has one entry after the source and one after every call; find, per op, the
        // entry right after it
        let calls = c.calls();
        let mut op_i = 0usize;
        let mut prev = (0u64, 0u64);
        for (j, call) in calls.iter().enumerate() {
            let cur = r.effects_trace.get(j + 1).copied();
            let Some(cur) = cur else { break };
            let is_op = OpD::dec(call).is_some();
            if cur != prev {
                let site = if is_op { format!("{}.{}", type_before(c, op_i), op_name(c.ops[op_i])) } else { format!("setter:{}", call) };
                if is_op && eager.get(op_i).copied().unwrap_or(false) {
                    notes.push(format!("KNOWN:C16 eager-site:{}", site));
                } else {
                    fails.push(format!("C16:work-before-terminal-at-{}", site));
                }
            }
            prev = cur;
            if is_op {
                op_i += 1;
            }
        }
        if r.effects_trace.first().map(|e| *e != (0, 0)).unwrap_or(false) {
            fails.push("C16:work-at-source-conversion".into());
        }
    }

    if let Some(k) = known {
        if !fails.is_empty() {
            notes.push(format!("KNOWN:{} ({})", k, fails.join(";")));
            fails.clear();
        }
    }

    // ---- query for the Lean driver
    let (cs_s, asg_s) = match (&obs, r.rec.runs.last()) {
        (Some(a), Some(run)) => (run.worker_chunks.iter().map(|x| x.to_string()).collect::<Vec<_>>().join(","), enc_asg(a)),
        _ => ("-".to_string(), "-".to_string()),
    };
    let calls = c.calls();
    let query = format!(
        "run src={}:{} calls={} term={} cs={} asg={} panic={}",
        match c.src_kind { 'V' => 'v', 'K' => 'k', 'U' | 'e' => 'u', k => k },
        if c.input.is_empty() { "-".to_string() } else { c.input.iter().map(|x| x.to_string()).collect::<Vec<_>>().join(",") },
        if calls.is_empty() { "-".to_string() } else { calls.join(";") },
        c.term.enc(),
        if cs_s.is_empty() { "-".to_string() } else { cs_s },
        asg_s,
        match c.panic_at {
            None => "-".to_string(),
            Some((st, a)) => format!("{}:{}", st, a),
        }
    );
    // digest of the multiset of closure invocations (same function as the Lean driver's evDigest)
    let impl_evd = if c.panic_at.is_some() || panicked || c.src_kind == 'e' {
        "na".to_string()
    } else {
        let mut n = 0u64;
        let mut sum = 0u64;
        for e in r.rec.events.iter().filter(|e| chain_stage(e.stage)) {
            let a = ((e.stage as u64) + 1).wrapping_mul(1u64 << 40).wrapping_add(e.arg);
            sum = sum.wrapping_add(a.wrapping_mul(a).wrapping_add(a.wrapping_mul(12345)));
            n += 1;
        }
        format!("{}:{}", n, sum)
    };
    let impl_params = r.params_trace.iter().map(|(p, s)| enc_params(*p, *s)).collect::<Vec<_>>().join("|");
    let impl_eff = r.effects_trace.iter().map(|e| e.0.to_string()).collect::<Vec<_>>().join(",");
    let nworkers: usize = r.rec.runs.last().map(|x| x.worker_chunks.len()).unwrap_or(0);
    let empty_workers = match &obs {
        Some(a) => nworkers.saturating_sub(a.iter().map(|c| c.tid).collect::<std::collections::BTreeSet<_>>().len()),
        None => 0,
    };
    // by-key selections: ties are unspecified; report the extremal key (membership is checked above)
    let norm = |o: &Outcome| -> Outcome {
        match (&c.term, o) {
            (TermD::MinByKey(k), Outcome::Opt(Some(v))) | (TermD::MaxByKey(k), Outcome::Opt(Some(v))) => Outcome::Opt(Some(v % k)),
            _ => o.clone(),
        }
    };
    let impl_out_n = norm(&r.outcome);
    let oracle_out_n = norm(&ex.out);
    writeln!(
        out,
        "CASE\tgroup={}\tcase={}\tquery={}\timpl_out={}\timpl_params={}\timpl_eff={}\timpl_evd={}\toracle_out={}\tfails={}\tnotes={}\tstats=len:{},kinds:{},term:{},runs:{},workers:{},empty_workers:{},traced:{},mode:{},us:{}",
        group,
        c.enc(),
        query,
        impl_out_n.enc(),
        impl_params,
        impl_eff,
        impl_evd,
        oracle_out_n.enc(),
        if fails.is_empty() { "-".to_string() } else { fails.join("|") },
        if notes.is_empty() { "-".to_string() } else { notes.join("|") },
        c.input.len(),
        if c.ops.is_empty() { "_".to_string() } else { c.kinds() },
        c.term.enc().split(':').next().unwrap_or(""),
        r.rec.runs.len(),
        nworkers,
        empty_workers,
        obs.is_some(),
        match &c.mode { Mode::Free(_) => "free", Mode::Ctl(_) => "ctl" },
        r.wall_us
    )?;
    // ---- L4: the spawner replayed by the model on the has_more() values it saw (controlled runs:
    // the value read by the hook is the one the decision used)
    if let (Mode::Ctl(_), false) = (&c.mode, panicked) {
        let lag = orx_parallel::verif::exports::constants()[0];
        for run in &r.rec.runs {
            let hms: Vec<String> = run
                .points
                .iter()
                .filter(|p| p.0 != 2)
                .map(|p| match p.2 {
                    0 => "no".to_string(),
                    1 => "maybe".to_string(),
                    _ => format!("yes:{}", p.3),
                })
                .collect();
            writeln!(
                out,
                "Q\tspawn {} {} {}:{} {} {}\tworkers={} calls={}",
                match run.len {
                    None => "-".to_string(),
                    Some(n) => n.to_string(),
                },
                run.max_threads,
                if run.exact { "exact" } else { "min" },
                run.chunk,
                lag,
                if hms.is_empty() { "-".to_string() } else { hms.join(";") },
                if run.worker_chunks.is_empty() { "-".to_string() } else { run.worker_chunks.iter().map(|x| x.to_string()).collect::<Vec<_>>().join(",") },
                hms.len()
            )?;
        }
    }
    if verbose {
        for run in &r.rec.runs {
            writeln!(out, "RUNINFO\t{:?}", run)?;
        }
        writeln!(out, "GRANTED\t{:?}", r.granted)?;
        for e in &r.rec.events {
            writeln!(out, "EV\tstage={} arg={} run={} actor={} seq={}", e.stage, e.arg, e.run, e.actor, e.seq)?;
        }
    }
    Ok(Report { fails, notes })
}

fn fp_all_sequential(c: &Case) -> bool {
    // sequential for the whole computation: Max(1) set on the source and never overridden
    let p0 = params_after(c.sets.first().map(|v| v.as_slice()).unwrap_or(&[]), params_default_spec());
    is_seq_spec(&p0) && !c.sets.iter().skip(1).flatten().any(|s| matches!(s, SetD::NtUsize(_) | SetD::NtEnum(_)))
}

fn op_name(o: OpD) -> &'static str {
    match o {
        OpD::Map { .. } => "map",
        OpD::Filter { .. } => "filter",
        OpD::FlatMap { .. } => "flat_map",
        OpD::FilterMap { .. } => "filter_map",
    }
}

fn type_before(c: &Case, op_i: usize) -> &'static str {
    let k: String = c.ops[..op_i].iter().map(|o| o.kind()).collect();
    let t = CHAINS.iter().find(|x| x.0 == k).map(|x| x.1).unwrap_or("?");
    match t {
        "Empty" => "ParEmpty",
        "Map" => "ParMap",
        "Fil" => "ParFilter",
        "MapFil" => "ParMapFilter",
        "FilterMap" => "ParFilterMap",
        "FilterMapFil" => "ParFilterMapFilter",
        "FlatMap" => "ParFlatMap",
        "FlatMapFil" => "ParFlatMapFilter",
        _ => "?",
    }
}

// ------------------------------------------------------------------ generators

pub fn gen_op(rng: &mut Rng, kind: char) -> OpD {
    match kind {
        'M' => OpD::Map { a: rng.range(1, 7), b: rng.range(0, 10) },
        'F' => {
            let k = rng.range(2, 5);
            OpD::Filter { k, r: rng.below(k) }
        }
        'X' => OpD::FlatMap { k: rng.range(1, 4) },
        _ => {
            let k = rng.range(2, 5);
            OpD::FilterMap { k, r: rng.below(k), a: rng.range(0, 9) }
        }
    }
}

pub fn gen_input(rng: &mut Rng, len: usize, distinct: bool) -> Vec<u64> {
    if distinct {
        let mut seen = std::collections::HashSet::new();
        let mut v = Vec::with_capacity(len);
        while v.len() < len {
            let x = rng.below(P);
            if seen.insert(x) {
                v.push(x);
            }
        }
        v
    } else {
        let m = rng.range(1, 12);
        (0..len).map(|_| rng.below(m)).collect()
    }
}

pub fn gen_len(rng: &mut Rng, thorough: bool) -> usize {
    match rng.below(22) {
        0 => 0,
        1 => 1,
        2 => 2,
        // boundaries: powers of two and their neighbours
        20 | 21 => {
            let b = *rng.pick(&[4usize, 8, 16, 32, 64, 128, 256, 512, 1024]);
            let b = if thorough && rng.chance(1, 4) { b * 4 } else { b };
            (b + rng.below(3) as usize).saturating_sub(1)
        }
        3..=12 => rng.range(3, 40) as usize,
        13..=17 => rng.range(41, 70) as usize,
        _ => {
            if thorough {
                rng.range(71, 3000) as usize
            } else {
                rng.range(71, 400) as usize
            }
        }
    }
}

fn nz(n: usize) -> NonZeroUsize {
    NonZeroUsize::new(n.max(1)).expect("nz")
}

pub fn gen_src_sets(rng: &mut Rng, len: usize, force_par: bool) -> Vec<SetD> {
    let mut v = vec![];
    match rng.below(if force_par { 8 } else { 10 }) {
        0 => {}
        1 => v.push(SetD::NtEnum(NumThreads::Auto)),
        2 => v.push(SetD::NtUsize(0)),
        3..=7 => {
            let n = rng.range(2, 9) as usize;
            v.push(if rng.chance(1, 2) { SetD::NtUsize(n) } else { SetD::NtEnum(NumThreads::Max(nz(n))) })
        }
        _ => v.push(SetD::NtUsize(1)),
    }
    match rng.below(10) {
        0 => {}
        1 => v.push(SetD::CsEnum(ChunkSize::Auto)),
        2..=5 => {
            let c = match rng.below(9) {
                0 => 1,
                1 => len.max(1),
                2 => len + 1,
                3 => len.saturating_sub(1).max(1),
                // divisors of the length and their neighbours: the last pull is full / has one
                // element / misses one
                4 => (len / rng.range(2, 4) as usize).max(1),
                5 => (len / rng.range(2, 4) as usize + 1).max(1),
                6 => *rng.pick(&[2usize, 4, 8, 16, 32, 64]),
                _ => rng.range(1, 12) as usize,
            };
            v.push(if rng.chance(1, 2) { SetD::CsUsize(c) } else { SetD::CsEnum(ChunkSize::Exact(nz(c))) })
        }
        6..=8 => {
            let c = match rng.below(5) {
                0 => 1,
                1 => len + 1,
                2 => 1000,
                _ => rng.range(1, 12) as usize,
            };
            v.push(SetD::CsEnum(ChunkSize::Min(nz(c))))
        }
        _ => v.push(SetD::CsEnum(ChunkSize::Exact(nz(1 << 20)))),
    }
    if rng.chance(1, 2) {
        v.reverse();
    }
    v
}

pub fn gen_schedule(rng: &mut Rng, len: usize, max_workers: u32) -> Vec<u32> {
    let n = (3 * len + 20).min(600);
    let w = max_workers.max(1);
    match rng.below(6) {
        // spawner first, then workers in reverse spawn order, round-robin
        0 => {
            let mut v = vec![0; 3 * w as usize + 8];
            for i in 0..n {
                v.push(w - (i as u32 % w));
            }
            v
        }
        // the last worker runs alone for a while, then everybody
        1 => {
            let mut v = vec![0; 3 * w as usize + 8];
            v.extend(std::iter::repeat(w).take(rng.range(1, 6) as usize));
            for _ in 0..n {
                v.push(rng.range(1, w as u64) as u32);
            }
            v
        }
        // one worker starved
        2 => {
            let starved = rng.range(1, w as u64) as u32;
            (0..n).map(|_| rng.range(0, w as u64) as u32).filter(|a| *a != starved).collect()
        }
        // workers race ahead of the spawner
        3 => {
            let mut v = vec![0u32, 0];
            for _ in 0..n {
                v.push(if rng.chance(1, 8) { 0 } else { rng.range(1, w as u64) as u32 });
            }
            v
        }
        _ => (0..n).map(|_| rng.range(0, w as u64) as u32).collect(),
    }
}

fn chains_where(pred: impl Fn(&(&str, &str, bool, bool, &[bool])) -> bool) -> Vec<&'static str> {
    CHAINS.iter().filter(|c| pred(c)).map(|c| c.0).collect()
}

pub struct GenOpts {
    pub thorough: bool,
    pub terms: Vec<TermD>,
    pub allow_eager: bool,
    pub force_par: bool,
    pub force_seq: bool,
    pub ctl_share: u64, // out of 10
    pub distinct_share: u64,
    pub src_kinds: Vec<char>,
    pub mid_setters: bool,
}

pub fn gen_case(rng: &mut Rng, o: &GenOpts) -> Case {
    let term = rng.pick(&o.terms).clone();
    let cands = chains_where(|c| {
        (o.allow_eager || !c.4.iter().any(|e| *e))
            && (c.3 || is_core_terminal(&term) || term.needs_concrete())
            && (!term.needs_concrete() || (c.2 && matches!(c.1, "Empty" | "Map" | "Fil" | "MapFil")))
    });
    let kinds = *rng.pick(&cands);
    let ops: Vec<OpD> = kinds.chars().map(|k| gen_op(rng, k)).collect();
    let len = gen_len(rng, o.thorough);
    let distinct = rng.below(10) < o.distinct_share;
    let input = gen_input(rng, len, distinct);
    let mut sets: Vec<Vec<SetD>> = vec![vec![]; ops.len() + 1];
    sets[0] = gen_src_sets(rng, len, o.force_par);
    if o.force_seq {
        sets[0].retain(|s| !matches!(s, SetD::NtUsize(_) | SetD::NtEnum(_)));
        let s = if rng.chance(1, 2) { SetD::NtUsize(1) } else { SetD::NtEnum(NumThreads::Max(nz(1))) };
        let pos = rng.below(sets[0].len() as u64 + 1) as usize;
        sets[0].insert(pos, s);
    }
    if o.mid_setters && rng.chance(1, 4) && !ops.is_empty() {
        let pos = rng.range(1, ops.len() as u64) as usize;
        sets[pos].push(SetD::CsUsize(rng.range(0, 9) as usize));
    }
    let src_kind = *rng.pick(&o.src_kinds);
    let p = final_params(&Case { src_kind, input: vec![], ops: vec![], sets: sets.clone(), term: TermD::Count, mode: Mode::Free(0), panic_at: None });
    let maxw = match p.num_threads {
        NumThreads::Auto => 8,
        NumThreads::Max(n) => n.get().min(16) as u32,
    };
    let has_eager = CHAINS.iter().find(|c| c.0 == kinds).map(|c| c.4.iter().any(|e| *e)).unwrap_or(false);
    let ctl = !is_seq_spec(&p) && !has_eager && !ops.is_empty() && rng.below(10) < o.ctl_share && len <= 200;
    let mode = if ctl { Mode::Ctl(gen_schedule(rng, len, maxw)) } else { Mode::Free(if rng.chance(2, 3) { rng.next() | 1 } else { 0 }) };
    Case { src_kind, input, ops, sets, term, mode, panic_at: None }
}

/// large inputs and chunk sizes over several orders of magnitude, real threads: thresholds,
/// polling periods and fast paths that only trigger at scale
pub fn gen_large_case(rng: &mut Rng, terms: &[TermD], kinds_pool: &[&str], canary: bool) -> Case {
    let kinds = *rng.pick(kinds_pool);
    let ops: Vec<OpD> = kinds
        .chars()
        .map(|k| match k {
            'X' => OpD::FlatMap { k: rng.range(1, 3) },
            k => gen_op(rng, k),
        })
        .collect();
    let term = rng.pick(terms).clone();
    // the model's ordered bag is quadratic: keep map-only collects moderate
    let map_only_collect = ops.iter().all(|o| matches!(o, OpD::Map { .. })) && matches!(term, TermD::CollectVec | TermD::Collect | TermD::CollectInto(..));
    let len = if map_only_collect || matches!(term, TermD::CollectX | TermD::ForEach) { rng.range(1500, 4000) as usize } else { rng.range(6000, 30000) as usize };
    let input = gen_input(rng, len, true);
    let cz = *rng.pick(&[64usize, 512, 1024, 4096, 4096, 8192, 16384, len / 2 + 1, len / 3 + 1, len / 7 + 1]);
    let nt = rng.range(2, 8) as usize;
    let mut sets = vec![vec![]; ops.len() + 1];
    sets[0] = vec![SetD::NtUsize(nt)];
    match rng.below(5) {
        0 => {}
        1 | 2 => sets[0].push(SetD::CsEnum(ChunkSize::Exact(nz(cz)))),
        _ => sets[0].push(SetD::CsEnum(ChunkSize::Min(nz(cz)))),
    }
    let src_kind = if canary { *rng.pick(&['V', 'K', 'U']) } else { *rng.pick(&['v', 'v', 'k', 'u']) };
    Case { src_kind, input, ops, sets, term, mode: Mode::Free(0), panic_at: None }
}

/// all interleavings of one tiny configuration at the granularity of the deterministic scheduler
/// (spawner decision points, worker start, one step per source element): depth-first over the
/// choice sets recorded by the scheduler, lexicographic order. Returns (#schedules, complete?).
pub fn exhaust(out: &mut dyn Write, group: &str, base: &Case, limit: usize) -> std::io::Result<(usize, bool)> {
    use std::sync::atomic::Ordering;
    EXHAUST.store(true, Ordering::SeqCst);
    let mut prefix: Vec<u32> = vec![];
    let mut n = 0usize;
    let mut complete = false;
    loop {
        let mut c = base.clone();
        c.mode = Mode::Ctl(prefix.clone());
        emit_case(out, group, &c, false)?;
        n += 1;
        let (granted, choices) = LAST_SCHED.lock().unwrap().clone();
        // deepest position with an untried larger alternative
        let mut next = None;
        for i in (0..granted.len().min(choices.len())).rev() {
            if let Some(a) = choices[i].iter().copied().filter(|a| *a > granted[i]).min() {
                next = Some((i, a));
                break;
            }
        }
        match next {
            None => {
                complete = true;
                break;
            }
            Some((i, a)) => {
                prefix = granted[..i].to_vec();
                prefix.push(a);
            }
        }
        if n >= limit {
            break;
        }
    }
    EXHAUST.store(false, Ordering::SeqCst);
    writeln!(out, "EXH\t{}\t{}\t{}\t{}", group, base.enc(), n, complete)?;
    Ok((n, complete))
}

/// workers with DIFFERENT chunk sizes in one run: `Min(c)`/`Auto` chunk on a source of known
/// length, 6..12 threads, and a schedule in which the first four workers get well ahead before
/// the spawner's first lag period ends, so that the workers spawned later are handed grown chunks
pub fn gen_grown_case(rng: &mut Rng, terms: &[TermD], kinds_pool: &[&str], canary: bool) -> Case {
    let kinds = *rng.pick(kinds_pool);
    let ops: Vec<OpD> = kinds.chars().map(|k| gen_op(rng, k)).collect();
    let term = rng.pick(terms).clone();
    let len = rng.range(30, 160) as usize;
    let input = gen_input(rng, len, true);
    let nt = rng.range(6, 12) as usize;
    let mut sets = vec![vec![]; ops.len() + 1];
    sets[0] = vec![SetD::NtUsize(nt)];
    match rng.below(4) {
        0 => {}
        1 => sets[0].push(SetD::CsEnum(ChunkSize::Auto)),
        _ => sets[0].push(SetD::CsEnum(ChunkSize::Min(nz(rng.range(1, 3) as usize)))),
    }
    let src_kind = if canary { *rng.pick(&['V', 'K']) } else { *rng.pick(&['v', 'k']) };
    let mut sch: Vec<u32> = vec![0, 0, 0, 0];
    for _ in 0..rng.range(8, 70) {
        sch.push(rng.range(1, 4) as u32);
    }
    sch.extend(gen_schedule(rng, len, nt as u32));
    Case { src_kind, input, ops, sets, term, mode: Mode::Ctl(sch), panic_at: None }
}

/// shrink a failing case: repeatedly try smaller variants (fewer input elements, fewer setters,
/// free-running instead of a schedule, no jitter) and keep a variant while the oracle still reports
/// a failure with the same tag (`prefix`, e.g. "C01:"); bounded by `budget` runs
pub fn shrink(out: &mut dyn Write, base: &Case, prefix: &str, budget: usize) -> std::io::Result<Case> {
    let mut sink: Vec<u8> = vec![];
    let fails_with = |c: &Case, sink: &mut Vec<u8>| -> bool {
        sink.clear();
        // a variant must stay well-formed: an injected panic has to remain reachable
        match emit_case(sink, "shrink", c, false) {
            Ok(rep) => rep.fails.iter().any(|f| f.starts_with(prefix)),
            Err(_) => false,
        }
    };
    let mut cur = base.clone();
    let mut runs = 0usize;
    // repeat the original a few times: a failure that needs luck is not shrunk
    let mut stable = 0;
    for _ in 0..3 {
        if fails_with(&cur, &mut sink) {
            stable += 1;
        }
        runs += 1;
    }
    if stable < 3 {
        writeln!(out, "SHRUNK\t{}\tnot-shrunk(the failure reproduced in {} of 3 runs)", cur.enc(), stable)?;
        return Ok(cur);
    }
    let mut progress = true;
    while progress && runs < budget {
        progress = false;
        let mut cands: Vec<Case> = vec![];
        let n = cur.input.len();
        if n >= 2 {
            for (a, b) in [(0, n / 2), (n / 2, n), (0, n - 1), (1, n), (n / 4, n - n / 4)] {
                if a < b && b - a < n {
                    let mut c = cur.clone();
                    c.input = cur.input[a..b].to_vec();
                    cands.push(c);
                }
            }
            if n <= 16 {
                for i in 0..n {
                    let mut c = cur.clone();
                    c.input.remove(i);
                    cands.push(c);
                }
            }
        }
        for (i, ss) in cur.sets.iter().enumerate() {
            for j in 0..ss.len() {
                let mut c = cur.clone();
                c.sets[i].remove(j);
                cands.push(c);
            }
        }
        match &cur.mode {
            Mode::Ctl(sch) => {
                let mut c = cur.clone();
                c.mode = Mode::Free(0);
                cands.push(c);
                if sch.len() > 4 {
                    let mut c = cur.clone();
                    c.mode = Mode::Ctl(sch[..sch.len() / 2].to_vec());
                    cands.push(c);
                }
            }
            Mode::Free(j) if *j != 0 => {
                let mut c = cur.clone();
                c.mode = Mode::Free(0);
                cands.push(c);
            }
            _ => {}
        }
        for c in cands {
            if runs >= budget {
                break;
            }
            // keep an injected panic on an invocation that still exists
            if let Some(pa) = c.panic_at {
                if pa.0 < 100 || pa.0 == ST_PRED || pa.0 == ST_FOR_EACH {
                    let ex = expect(&c);
                    let full = seq_eval(&c.input, &c.ops, &mut |y, log| { log.push((ST_PRED, y)); log.push((ST_FOR_EACH, y)); true });
                    if !ex.log.contains(&pa) && !full.contains(&pa) {
                        continue;
                    }
                }
            }
            runs += 2;
            // twice: keep only variants that fail reliably
            if fails_with(&c, &mut sink) && fails_with(&c, &mut sink) {
                cur = c;
                progress = true;
                break;
            }
        }
    }
    writeln!(out, "SHRUNK\t{}\t{} runs", cur.enc(), runs)?;
    Ok(cur)
}

/// tiny inputs over a SLOW iterator source (every `next()` sleeps), several workers, chunk size 1:
/// one worker is inside the source, others have reserved their positions and wait for the handle,
/// and more workers are still being spawned — the windows around `has_more()` / `skip_to_end()`
pub fn gen_tiny_slow_case(rng: &mut Rng, terms: &[TermD], kinds_pool: &[&str]) -> Case {
    let kinds = *rng.pick(kinds_pool);
    let ops: Vec<OpD> = kinds.chars().map(|k| gen_op(rng, k)).collect();
    let term = rng.pick(terms).clone();
    let len = rng.range(2, 9) as usize;
    let input = gen_input(rng, len, true);
    let nt = rng.range(3, 8) as usize;
    let mut sets = vec![vec![]; ops.len() + 1];
    sets[0] = vec![SetD::NtUsize(nt)];
    match rng.below(4) {
        0 => {}
        1 => sets[0].push(SetD::CsEnum(ChunkSize::Min(nz(1)))),
        2 => sets[0].push(SetD::CsUsize(2)),
        _ => sets[0].push(SetD::CsUsize(1)),
    }
    let src_kind = *rng.pick(&['k', 'k', 'u']);
    // jitter bits 1 and 2 set: every pull from the source is slow; bit 3 alone: exactly one slow
    // position, the pulls before it are fast
    let j = if rng.chance(1, 2) { rng.next() | 6 | 1 } else { (rng.next() & !14u64) | 8 | 1 };
    Case { src_kind, input, ops, sets, term, mode: Mode::Free(j), panic_at: None }
}

pub fn gen_pred(rng: &mut Rng) -> PredD {
    let k = *rng.pick(&[1u64, 2, 3, 5, 7, 11, 50, 1000, 1_000_003]);
    PredD { k, r: rng.below(k.min(13)) }
}

/// search helper: variants of one case — same chain shape, closures, terminal and source kind;
/// other inputs, lengths, parameters and schedules
pub fn neighbors(out: &mut dyn Write, base: &Case, seed: u64, count: usize) -> std::io::Result<()> {
    let mut rng = Rng::new(seed ^ 0x5EA2C4);
    writeln!(out, "Q\t{}\tok", crate::l0::consts_line())?;
    for i in 0..count {
        let mut c = base.clone();
        let len = match i % 4 {
            0 => base.input.len(),
            1 => gen_len(&mut rng, false),
            2 => rng.range(0, 12) as usize,
            _ => rng.range(20, 200) as usize,
        };
        let distinct = base.input.iter().collect::<std::collections::HashSet<_>>().len() == base.input.len();
        let dist2 = distinct || rng.chance(1, 2);
        c.input = gen_input(&mut rng, len, dist2);
        if i % 3 != 0 {
            // keep the kinds of setters, vary their values
            for ss in c.sets.iter_mut() {
                for s in ss.iter_mut() {
                    *s = match *s {
                        SetD::NtUsize(n) if n != 1 => SetD::NtUsize(*rng.pick(&[0usize, 2, 3, 4, 7, 16])),
                        SetD::NtEnum(NumThreads::Max(n)) if n.get() != 1 => SetD::NtEnum(NumThreads::Max(nz(rng.range(2, 9) as usize))),
                        SetD::CsUsize(_) => SetD::CsUsize(*rng.pick(&[0usize, 1, 2, 3, 5, 8, len.max(1), len + 1])),
                        SetD::CsEnum(ChunkSize::Exact(_)) => SetD::CsEnum(ChunkSize::Exact(nz(*rng.pick(&[1usize, 2, 3, 5, 8, len.max(1), len + 1])))),
                        SetD::CsEnum(ChunkSize::Min(_)) => SetD::CsEnum(ChunkSize::Min(nz(*rng.pick(&[1usize, 2, 3, 5, 8, len + 1])))),
                        other => other,
                    };
                }
            }
        }
        if i % 5 == 4 {
            // vary the closures too
            c.ops = c.ops.iter().map(|o| gen_op(&mut rng, o.kind())).collect();
        }
        let p = final_params(&c);
        let maxw = match p.num_threads {
            NumThreads::Auto => 8,
            NumThreads::Max(n) => n.get().min(16) as u32,
        };
        c.mode = if !is_seq_spec(&p) && !c.has_eager() && !c.ops.is_empty() && len <= 200 && rng.chance(1, 2) {
            Mode::Ctl(gen_schedule(&mut rng, len, maxw))
        } else {
            Mode::Free(if rng.chance(2, 3) { rng.next() | 1 } else { 0 })
        };
        if let Some((st, _)) = base.panic_at {
            let ex = expect(&c);
            let cand: Vec<(u32, u64)> = ex.log.iter().copied().filter(|e| e.0 == st).collect();
            if cand.is_empty() {
                continue;
            }
            c.panic_at = Some(*rng.pick(&cand));
        }
        writeln!(out, "BEGIN\t{}", c.enc())?;
        out.flush()?;
        emit_case(out, "neighbor", &c, false)?;
    }
    Ok(())
}

pub fn run(out: &mut dyn Write, prop: &str, seed: u64, thorough: bool) -> std::io::Result<()> {
    let mut rng = Rng::new(seed ^ prop.bytes().fold(0u64, |a, b| a.wrapping_mul(131).wrapping_add(b as u64)));
    writeln!(out, "Q\t{}\tok", crate::l0::consts_line())?;
    // ORXH_SCALE shrinks every group (used for the repeated runs under restricted CPU sets)
    let scale: f64 = std::env::var("ORXH_SCALE").ok().and_then(|s| s.parse().ok()).unwrap_or(1.0);
    let n = |q: usize, t: usize| ((((if thorough { t } else { q }) as f64) * scale) as usize).max(1);
    let collects = |rng: &mut Rng| -> Vec<TermD> {
        let mut v = vec![TermD::CollectVec, TermD::Collect];
        for k in ['v', 's', 'f'] {
            v.push(TermD::CollectInto(k, vec![], rng.below(3) as usize * 4));
        }
        v
    };
    let base = |terms: Vec<TermD>| GenOpts {
        thorough,
        terms,
        allow_eager: true,
        force_par: false,
        force_seq: false,
        ctl_share: 5,
        distinct_share: 8,
        src_kinds: vec!['v', 'v', 'k', 'u'],
        mid_setters: true,
    };
    let total_c = std::cell::Cell::new(0usize);
    let go = |out: &mut dyn Write, rng: &mut Rng, group: &str, o: &GenOpts, count: usize| -> std::io::Result<()> {
        for _ in 0..count {
            let c = gen_case(rng, o);
            emit_case(out, group, &c, false)?;
            total_c.set(total_c.get() + 1);
        }
        Ok(())
    };
    match prop {
        "C01" => {
            let t = collects(&mut rng);
            go(out, &mut rng, "collect", &base(t.clone()), n(4000, 30000))?;
            // every branch of the collect dispatch (target kind x length known/unknown x map-only /
            // filtering) with interleaved workers: round-robin schedules under the scheduler
            for kinds in ["M", "MM", "F", "MF", "X", "P"] {
                for src_kind in ['v', 'k', 'u'] {
                    for term in t.iter() {
                        for _ in 0..n(4, 20) {
                            let ops: Vec<OpD> = kinds.chars().map(|k| gen_op(&mut rng, k)).collect();
                            let len = rng.range(6, 40) as usize;
                            let input = gen_input(&mut rng, len, true);
                            let nt = rng.range(2, 5) as usize;
                            let mut sets = vec![vec![]; ops.len() + 1];
                            sets[0] = vec![SetD::NtUsize(nt), SetD::CsUsize(rng.range(1, 3) as usize)];
                            let mut sch: Vec<u32> = vec![0; 3 * nt + 6];
                            for i in 0..(4 * len + 20) {
                                sch.push(if rng.chance(1, 5) { rng.range(1, nt as u64) as u32 } else { (i % nt) as u32 + 1 });
                            }
                            let c = Case { src_kind, input, ops, sets, term: term.clone(), mode: Mode::Ctl(sch), panic_at: None };
                            emit_case(out, "dispatch-branches", &c, false)?;
                            total_c.set(total_c.get() + 1);
                        }
                    }
                }
            }
            for _ in 0..n(60, 600) {
                let c = gen_large_case(&mut rng, &t, &["M", "F", "MF", "P", "PF", "X", "XF", "MM"], false);
                emit_case(out, "large", &c, false)?;
                total_c.set(total_c.get() + 1);
            }
            for _ in 0..n(300, 3000) {
                let c = gen_grown_case(&mut rng, &t, &["M", "F", "MF", "P", "PF", "X", "XF", "MX", "XM", "XX"], false);
                emit_case(out, "grown-chunks", &c, false)?;
                total_c.set(total_c.get() + 1);
            }
            for _ in 0..n(300, 3000) {
                let c = gen_tiny_slow_case(&mut rng, &t, &["M", "F", "MF", "P", "PF", "X", "XF", "MM"]);
                emit_case(out, "tiny-slow-source", &c, false)?;
                total_c.set(total_c.get() + 1);
            }
        }
        "C02" => {
            let mut t = vec![TermD::First, TermD::FirstIdx];
            for _ in 0..12 {
                let p = gen_pred(&mut rng);
                t.extend([TermD::Find(p), TermD::FindIdx(p), TermD::Any(p), TermD::All(p)]);
            }
            let mut o = base(t);
            o.ctl_share = 7;
            go(out, &mut rng, "find", &o, n(4000, 30000))?;
            // large inputs and chunks, sparse predicates: a match deep inside an early chunk and
            // another one at the beginning of a later chunk, real threads
            for _ in 0..n(160, 1600) {
                let kinds = *rng.pick(&["", "M", "F", "MF", "P", "PF", "MM"]);
                let ops: Vec<OpD> = kinds
                    .chars()
                    .map(|k| match k {
                        'F' => OpD::Filter { k: rng.range(7, 13), r: 0 },
                        'P' => OpD::FilterMap { k: rng.range(7, 13), r: 1, a: rng.range(0, 9) },
                        k => gen_op(&mut rng, k),
                    })
                    .collect();
                let len = rng.range(6000, 40000) as usize;
                let input = gen_input(&mut rng, len, true);
                let cz = *rng.pick(&[512usize, 1024, 4096, 4096, 8192, 8192, 16384, len / 2, len / 3 + 1, len / 5 + 1]);
                let nt = rng.range(2, 6) as usize;
                let mut sets = vec![vec![]; ops.len() + 1];
                sets[0] = vec![SetD::NtUsize(nt), if rng.chance(2, 3) { SetD::CsEnum(ChunkSize::Exact(nz(cz))) } else { SetD::CsEnum(ChunkSize::Min(nz(cz))) }];
                let pd = PredD { k: *rng.pick(&[1500u64, 3000, 5000, 9000, 20000]), r: rng.below(1500) };
                let concrete_ok = matches!(kinds, "" | "M" | "F" | "MF" | "MM");
                let full_ok = kinds.len() <= 1;
                let term = match rng.below(5) {
                    1 if full_ok => TermD::Any(pd),
                    2 if full_ok => TermD::All(PredD { k: pd.k, r: pd.r }),
                    3 if concrete_ok => TermD::FindIdx(pd),
                    _ => TermD::Find(pd),
                };
                let src_kind = *rng.pick(&['v', 'v', 'k', 'u']);
                let c = Case { src_kind, input, ops, sets, term, mode: Mode::Free(0), panic_at: None };
                emit_case(out, "large", &c, false)?;
                total_c.set(total_c.get() + 1);
            }
            // the only match sits at position p, for EVERY p up to 130 and around the powers of two
            // up to 4096 (quick: 1025): a probe, a buffer or a poll of any constant size in that range
            // has its boundary hit exactly
            let mut positions: Vec<usize> = (0..=130).collect();
            for k in [256usize, 512, 1024, 2048, 4096] {
                if k <= 1024 || thorough {
                    positions.extend([k - 1, k, k + 1]);
                }
            }
            for (pi, &p) in positions.iter().enumerate() {
                let shapes: [(&str, u8); 4] = [("", 0), ("M", 1), ("F", 2), ("X", 3)];
                let (kinds, sh) = shapes[pi % 4];
                let len = p + 1 + [0usize, 1, 7, p / 2 + 3][(pi / 4) % 4];
                // values: distinct multiples of 4 (never matching), the one at p is ≡ 1 (mod 4) after the chain
                let mut input: Vec<u64> = (0..len as u64).map(|i| 4 * i + 400).collect();
                let ops: Vec<OpD> = match sh {
                    1 => vec![OpD::Map { a: 1, b: 0 }],
                    2 => vec![OpD::Filter { k: 1_000_003, r: 0 }],
                    3 => vec![OpD::FlatMap { k: 2 }],
                    _ => vec![],
                };
                let _ = kinds;
                let pd = PredD { k: 4, r: 1 };
                input[p] = 4 * p as u64 + 401;
                if sh == 3 {
                    // flat_map(2): x ↦ [3x] for odd x, [] for even x: only position p has an expansion, and only
                    // position p produce a value ≡ 1 (mod 4): 3x ≡ 1 needs x ≡ 3 (mod 4)
                    for (i, v) in input.iter_mut().enumerate() {
                        *v = if i == p { 4 * i as u64 + 3 } else { 4 * i as u64 + 4 };
                    }
                }
                let term = match (pi / 2) % 4 {
                    0 => TermD::Find(pd),
                    1 if sh <= 2 => TermD::FindIdx(pd),
                    2 if sh <= 1 => TermD::Any(pd),
                    _ => TermD::Find(pd),
                };
                let nt = 2 + pi % 4;
                let mut sets = vec![vec![]; ops.len() + 1];
                sets[0] = vec![SetD::NtUsize(nt)];
                match pi % 3 {
                    0 => {}
                    1 => sets[0].push(SetD::CsUsize(1 + pi % 7)),
                    _ => sets[0].push(SetD::CsEnum(ChunkSize::Min(nz(1 + pi % 5)))),
                }
                let src_kind = ['v', 'k', 'u'][pi % 3];
                let c = Case { src_kind, input, ops, sets, term, mode: Mode::Free(0), panic_at: None };
                emit_case(out, "match-position", &c, false)?;
                total_c.set(total_c.get() + 1);
            }
        }
        "C02pos" => {}
        "C03" => {
            let mut t = vec![TermD::Sum, TermD::Min, TermD::Max, TermD::MinBy, TermD::MaxBy];
            for r in [RedD::Add, RedD::Xor, RedD::Min, RedD::Max] {
                t.push(TermD::Reduce(r));
                t.push(TermD::Reduce(r));
                t.push(TermD::Fold(r, 7));
            }
            for k in [2, 3, 10] {
                t.push(TermD::MinByKey(k));
                t.push(TermD::MaxByKey(k));
            }
            go(out, &mut rng, "reduce", &base(t.clone()), n(4000, 30000))?;
            let tl: Vec<TermD> = t.iter().filter(|x| is_core_terminal(x)).cloned().collect();
            for _ in 0..n(60, 600) {
                let c = gen_large_case(&mut rng, &tl, &["", "M", "F", "MF", "P", "PF", "X", "XF"], false);
                emit_case(out, "large", &c, false)?;
                total_c.set(total_c.get() + 1);
            }
            for _ in 0..n(300, 3000) {
                let c = gen_grown_case(&mut rng, &tl, &["M", "F", "MF", "P", "PF", "X", "XF", "XM"], false);
                emit_case(out, "grown-chunks", &c, false)?;
                total_c.set(total_c.get() + 1);
            }
            for _ in 0..n(400, 4000) {
                let c = gen_tiny_slow_case(&mut rng, &tl, &["", "M", "F", "MF", "P", "PF", "X", "XF"]);
                emit_case(out, "tiny-slow-source", &c, false)?;
                total_c.set(total_c.get() + 1);
            }
        }
        "C04" => {
            go(out, &mut rng, "count", &base(vec![TermD::Count, TermD::ForEach]), n(4000, 30000))?;
            for _ in 0..n(60, 600) {
                let c = gen_large_case(&mut rng, &[TermD::Count, TermD::Count, TermD::ForEach], &["", "M", "F", "MF", "P", "PF", "X", "XF"], false);
                emit_case(out, "large", &c, false)?;
                total_c.set(total_c.get() + 1);
            }
            for _ in 0..n(300, 3000) {
                let c = gen_grown_case(&mut rng, &[TermD::Count, TermD::Count, TermD::ForEach], &["M", "F", "MF", "P", "PF", "X", "XF"], false);
                emit_case(out, "grown-chunks", &c, false)?;
                total_c.set(total_c.get() + 1);
            }
            for _ in 0..n(300, 3000) {
                let c = gen_tiny_slow_case(&mut rng, &[TermD::Count, TermD::Count, TermD::ForEach], &["", "M", "F", "MF", "P", "PF", "X", "XF"]);
                emit_case(out, "tiny-slow-source", &c, false)?;
                total_c.set(total_c.get() + 1);
            }
        }
        "C07" => {
            let mut o = base(vec![TermD::CollectX]);
            o.distinct_share = 3;
            go(out, &mut rng, "collect_x", &o, n(3000, 20000))?;
            for _ in 0..n(40, 400) {
                let c = gen_large_case(&mut rng, &[TermD::CollectX], &["M", "F", "MF", "P", "PF", "X", "XF"], false);
                emit_case(out, "large", &c, false)?;
                total_c.set(total_c.get() + 1);
            }
            for _ in 0..n(200, 2000) {
                let c = gen_grown_case(&mut rng, &[TermD::CollectX], &["M", "F", "MF", "P", "PF", "X", "XF"], false);
                emit_case(out, "grown-chunks", &c, false)?;
                total_c.set(total_c.get() + 1);
            }
            for _ in 0..n(300, 3000) {
                let c = gen_tiny_slow_case(&mut rng, &[TermD::CollectX], &["M", "F", "MF", "P", "PF", "X", "XF"]);
                emit_case(out, "tiny-slow-source", &c, false)?;
                total_c.set(total_c.get() + 1);
            }
        }
        "C05" => {
            let mut t = collects(&mut rng);
            t.extend([TermD::Count, TermD::ForEach, TermD::CollectX, TermD::Reduce(RedD::Add), TermD::Reduce(RedD::Min), TermD::First]);
            for _ in 0..4 {
                let p = gen_pred(&mut rng);
                t.extend([TermD::Find(p), TermD::Any(p), TermD::All(p)]);
            }
            let mut o = base(t);
            o.src_kinds = vec!['v', 'k', 'u', 'u'];
            go(out, &mut rng, "calls", &o, n(4000, 30000))?;
            let tc: Vec<TermD> = o.terms.iter().filter(|x| is_core_terminal(x)).cloned().collect();
            for _ in 0..n(300, 3000) {
                let c = gen_tiny_slow_case(&mut rng, &tc, &["M", "F", "MF", "P", "PF", "X", "XF"]);
                emit_case(out, "tiny-slow-source", &c, false)?;
                total_c.set(total_c.get() + 1);
            }
        }
        "C06" => {
            let mut t = vec![];
            for k in ['v', 's', 'f'] {
                for pre_len in [0usize, 1, 3, 40, 100] {
                    for cap in [0usize, 5, 200] {
                        let pre: Vec<u64> = (0..pre_len).map(|_| rng.below(P)).collect();
                        t.push(TermD::CollectInto(k, pre, cap));
                    }
                }
            }
            let mut o = base(t);
            o.src_kinds = vec!['v', 'k', 'u', 'u'];
            go(out, &mut rng, "collect_into", &o, n(3000, 24000))?;
            // spare capacity chosen RELATIVE to the input and output lengths: room for fewer elements
            // than the input has, for exactly the input length, for the input but not the output
            // (flat_map), for exactly the output, for more
            for _ in 0..n(1500, 10000) {
                let mut c = gen_case(&mut rng, &o);
                let out_len = seq_chain(&c.input, &c.ops).len();
                let in_len = c.input.len();
                if let TermD::CollectInto(k, pre, _) = c.term.clone() {
                    let cap = *rng.pick(&[in_len.saturating_sub(1), in_len, in_len + 1, out_len.saturating_sub(1), out_len, out_len + 1, (in_len + out_len) / 2, in_len.max(out_len) + 7, in_len / 2]);
                    c.term = TermD::CollectInto(k, pre, cap);
                }
                emit_case(out, "relative-capacity", &c, false)?;
                total_c.set(total_c.get() + 1);
            }
        }
        "C08" => {
            let mut t = collects(&mut rng);
            t.extend([TermD::Count, TermD::ForEach, TermD::CollectX, TermD::Reduce(RedD::Add), TermD::Reduce(RedD::Max), TermD::First, TermD::Sum, TermD::Min]);
            for _ in 0..3 {
                let p = gen_pred(&mut rng);
                t.extend([TermD::Find(p), TermD::Any(p), TermD::All(p), TermD::FindIdx(p)]);
            }
            let o = base(t);
            // Max(n) on the source, nothing later
            for _ in 0..n(4000, 30000) {
                let mut c = gen_case(&mut rng, &o);
                for s in c.sets.iter_mut() {
                    s.retain(|x| !matches!(x, SetD::NtUsize(_) | SetD::NtEnum(_)));
                }
                let nthreads = match rng.below(8) {
                    0 => 1,
                    1 => 2,
                    _ => rng.range(2, 20) as usize,
                };
                c.sets[0].insert(0, SetD::NtUsize(nthreads));
                if let Mode::Ctl(_) = c.mode {
                    c.mode = Mode::Ctl(gen_schedule(&mut rng, c.input.len(), nthreads.min(16) as u32));
                }
                if nthreads == 1 {
                    c.mode = Mode::Free(0);
                }
                emit_case(out, "threads", &c, false)?;
                total_c.set(total_c.get() + 1);
            }
        }
        "C09" => {
            let mut t = collects(&mut rng);
            t.extend([TermD::Count, TermD::ForEach, TermD::First, TermD::FirstIdx, TermD::Sum, TermD::Min, TermD::Max, TermD::MinBy, TermD::MaxBy]);
            for r in [RedD::Add, RedD::Poly, RedD::Sub, RedD::Poly, RedD::Sub] {
                t.push(TermD::Reduce(r));
                t.push(TermD::Fold(r, 3));
            }
            for _ in 0..4 {
                let p = gen_pred(&mut rng);
                t.extend([TermD::Find(p), TermD::Any(p), TermD::All(p), TermD::FindIdx(p)]);
            }
            let mut o = base(t);
            o.force_seq = true;
            go(out, &mut rng, "sequential", &o, n(4000, 30000))?;
            // the same with chunk sizes beyond isize::MAX set after (or before) num_threads(1)
            for _ in 0..n(200, 2000) {
                let mut c = gen_case(&mut rng, &o);
                c.src_kind = 'v';
                for ss in c.sets.iter_mut() {
                    ss.retain(|x| !matches!(x, SetD::CsUsize(_) | SetD::CsEnum(_)));
                }
                let big = *rng.pick(&[SetD::CsUsize(usize::MAX), SetD::CsEnum(ChunkSize::Min(nz(usize::MAX))), SetD::CsEnum(ChunkSize::Exact(nz((1usize << 63) + 7))), SetD::CsUsize((isize::MAX as usize) + 1)]);
                let at = if rng.chance(1, 2) { c.sets[0].len() } else { 0 };
                c.sets[0].insert(at, big);
                emit_case(out, "huge-chunk", &c, false)?;
                total_c.set(total_c.get() + 1);
            }
        }
        "C11" => {
            let mut t = vec![TermD::CollectVec, TermD::Count, TermD::Reduce(RedD::Add), TermD::CollectX, TermD::ForEach];
            t.push(TermD::CollectInto('s', vec![], 0));
            let mut o = base(t);
            o.allow_eager = false;
            o.ctl_share = 7;
            o.distinct_share = 10;
            for _ in 0..n(4000, 30000) {
                let mut c = gen_case(&mut rng, &o);
                for s in c.sets.iter_mut() {
                    s.retain(|x| !matches!(x, SetD::CsUsize(_) | SetD::CsEnum(_)));
                }
                let len = c.input.len();
                let cz = match rng.below(8) {
                    0 => 1,
                    1 => len.max(1),
                    2 => len + 1,
                    3 => rng.range(13, 40) as usize,
                    _ => rng.range(2, 12) as usize,
                };
                let at = rng.below(c.sets.len() as u64) as usize;
                c.sets[at].push(if rng.chance(1, 2) { SetD::CsUsize(cz) } else { SetD::CsEnum(ChunkSize::Exact(nz(cz))) });
                // many threads so that workers are spawned after the first lag period
                if rng.chance(1, 2) {
                    c.sets[0].retain(|x| !matches!(x, SetD::NtUsize(_) | SetD::NtEnum(_)));
                    let nt = rng.range(5, 16) as usize;
                    c.sets[0].push(SetD::NtUsize(nt));
                    if let Mode::Ctl(_) = c.mode {
                        // the first workers make progress before the spawner goes on
                        let mut sch: Vec<u32> = vec![0, 0, 0, 0];
                        for _ in 0..rng.range(0, 30) {
                            sch.push(rng.range(1, 4) as u32);
                        }
                        sch.extend(gen_schedule(&mut rng, len, nt as u32));
                        c.mode = Mode::Ctl(sch);
                    }
                }
                emit_case(out, "exact", &c, false)?;
                total_c.set(total_c.get() + 1);
            }
            // chunk sizes over several orders of magnitude on iterator sources (exact and unknown
            // length): the next() bursts of the instrumented source are the real pull sizes
            for _ in 0..n(60, 600) {
                let mut c = gen_large_case(&mut rng, &[TermD::CollectVec, TermD::Count, TermD::Reduce(RedD::Add), TermD::CollectX, TermD::Collect], &["M", "F", "MF", "P", "PF", "X", "XF", "MM"], false);
                c.src_kind = *rng.pick(&['k', 'u', 'u']);
                let len = c.input.len();
                let cz = *rng.pick(&[64usize, 700, 1024, 1025, 1500, 2048, 3000, 4096, 5000, len / 3 + 1]);
                let nt = rng.range(2, 6) as usize;
                c.sets[0] = vec![SetD::NtUsize(nt), if rng.chance(1, 2) { SetD::CsUsize(cz) } else { SetD::CsEnum(ChunkSize::Exact(nz(cz))) }];
                emit_case(out, "large", &c, false)?;
                total_c.set(total_c.get() + 1);
            }
        }
        "C12" => {
            // exhaustive: every chain of <= 3 transformations x one setter at every position
            let setters = [
                SetD::NtUsize(0),
                SetD::NtUsize(1),
                SetD::NtUsize(7),
                SetD::NtEnum(NumThreads::Auto),
                SetD::NtEnum(NumThreads::Max(nz(2))),
                SetD::CsUsize(0),
                SetD::CsUsize(3),
                SetD::CsEnum(ChunkSize::Auto),
                SetD::CsEnum(ChunkSize::Min(nz(5))),
                SetD::CsEnum(ChunkSize::Exact(nz(2))),
                // values around and beyond the largest constant of the settings code (2^20)
                SetD::CsUsize(1 << 20),
                SetD::CsUsize((1 << 20) + 1),
                SetD::CsEnum(ChunkSize::Min(nz(1 << 40))),
                SetD::CsEnum(ChunkSize::Exact(nz((1 << 32) + 5))),
                SetD::NtUsize((1 << 20) + 1),
                SetD::NtEnum(NumThreads::Max(nz(1 << 40))),
            ];
            let input: Vec<u64> = vec![5, 11, 2, 8, 13];
            for ch in CHAINS.iter() {
                let ops: Vec<OpD> = ch.0.chars().map(|k| gen_op(&mut rng, k)).collect();
                for pos in 0..=ops.len() {
                    for s in setters.iter() {
                        let mut sets = vec![vec![]; ops.len() + 1];
                        sets[pos].push(*s);
                        let c = Case { src_kind: 'v', input: input.clone(), ops: ops.clone(), sets, term: TermD::Count, mode: Mode::Free(0), panic_at: None };
                        emit_case(out, "one-setter", &c, false)?;
                        total_c.set(total_c.get() + 1);
                    }
                }
                // chunk sizes beyond isize::MAX, in sequential mode (the chunk size is never used there)
                for (a, b) in [(SetD::NtUsize(1), SetD::CsUsize(usize::MAX)), (SetD::CsEnum(ChunkSize::Min(nz(usize::MAX))), SetD::NtUsize(1)), (SetD::NtEnum(NumThreads::Max(nz(1))), SetD::CsEnum(ChunkSize::Exact(nz((1usize << 63) + 1))))] {
                    let mut sets = vec![vec![]; ops.len() + 1];
                    sets[0].push(a);
                    let pos = rng.below(ops.len() as u64 + 1) as usize;
                    sets[pos].push(b);
                    let c = Case { src_kind: 'v', input: input.clone(), ops: ops.clone(), sets, term: TermD::Count, mode: Mode::Free(0), panic_at: None };
                    emit_case(out, "huge-chunk-sequential", &c, false)?;
                    total_c.set(total_c.get() + 1);
                }
                // two and three setters at random positions, both kinds, re-set
                for _ in 0..n(6, 40) {
                    let mut sets = vec![vec![]; ops.len() + 1];
                    for _ in 0..rng.range(2, 4) {
                        let pos = rng.below(ops.len() as u64 + 1) as usize;
                        sets[pos].push(*rng.pick(&setters));
                    }
                    // huge chunk sizes allocate per-worker buffers on iterator sources (known finding C15)
                    let huge = sets.iter().flatten().any(|s| matches!(s, SetD::CsUsize(c) if *c > 100_000) || matches!(s, SetD::CsEnum(ChunkSize::Exact(c)) | SetD::CsEnum(ChunkSize::Min(c)) if c.get() > 100_000));
                    let src_kind = if huge { 'v' } else { *rng.pick(&['v', 'k', 'u']) };
                    let c = Case { src_kind, input: input.clone(), ops: ops.clone(), sets, term: TermD::Count, mode: Mode::Free(0), panic_at: None };
                    emit_case(out, "multi-setter", &c, false)?;
                    total_c.set(total_c.get() + 1);
                }
            }
        }
        "C15" => {
            let mut t = collects(&mut rng);
            t.extend([TermD::Count, TermD::ForEach, TermD::CollectX, TermD::Reduce(RedD::Add), TermD::First, TermD::Sum, TermD::Max]);
            let p = gen_pred(&mut rng);
            t.extend([TermD::Find(p), TermD::Any(p), TermD::All(p)]);
            // dense grid on representative pipelines
            let pipes: [&str; 8] = ["", "M", "F", "MF", "P", "X", "XF", "FX"];
            let lens: Vec<usize> = if thorough { (0..=40).collect() } else { vec![0, 1, 2, 3, 4, 5, 7, 8, 9, 15, 16, 17, 31, 33, 40] };
            let nts: Vec<usize> = if thorough { (0..=9).collect() } else { vec![0, 1, 2, 3, 4, 8] };
            for kinds in pipes {
                let ops: Vec<OpD> = kinds.chars().map(|k| gen_op(&mut rng, k)).collect();
                for &len in &lens {
                    let input = gen_input(&mut rng, len, true);
                    for &nt in &nts {
                        let mut css: Vec<ChunkSize> = vec![ChunkSize::Auto];
                        let cvals: Vec<usize> = if thorough { (1..=12).chain([len.max(2) - 1, len.max(1), len + 1, 1000, 1 << 20]).collect() } else { vec![1, 2, 3, 7, len.max(2) - 1, len.max(1), len + 1, 1000, 1 << 20] };
                        for c in cvals {
                            css.push(ChunkSize::Exact(nz(c)));
                            css.push(ChunkSize::Min(nz(c)));
                        }
                        for cs in css {
                            let mut term = rng.pick(&t).clone();
                            while kinds.len() > 1 && !is_core_terminal(&term) {
                                term = rng.pick(&t).clone();
                            }
                            let src_kind = *rng.pick(&['v', 'k', 'u']);
                            // huge chunk sizes allocate per-worker buffers on iterator sources (known finding);
                            // they are exercised only on the slice/vec source
                            let src_kind = if matches!(cs, ChunkSize::Exact(c) | ChunkSize::Min(c) if c.get() > 100_000) { 'v' } else { src_kind };
                            let mut sets = vec![vec![]; ops.len() + 1];
                            sets[0] = vec![SetD::NtUsize(nt), SetD::CsEnum(cs)];
                            let c = Case { src_kind, input: input.clone(), ops: ops.clone(), sets, term, mode: Mode::Free(0), panic_at: None };
                            emit_case(out, "grid", &c, false)?;
                            total_c.set(total_c.get() + 1);
                        }
                    }
                }
            }
            // Min(c) with c*threads beyond usize::MAX on sources of known length (the fix: commit)
            for &c in &[1usize << 62, 1 << 63, usize::MAX / 2 + 7, usize::MAX - 1, usize::MAX] {
                for &nt in &[0usize, 2, 3, 8] {
                    for kind in ['v', 'k'] {
                        for (kinds, term) in [("", TermD::Count), ("M", TermD::CollectVec), ("F", TermD::Reduce(RedD::Add)), ("X", TermD::First)] {
                            let ops: Vec<OpD> = kinds.chars().map(|k| gen_op(&mut rng, k)).collect();
                            let input = gen_input(&mut rng, 10, true);
                            let mut sets = vec![vec![]; ops.len() + 1];
                            sets[0] = vec![SetD::NtUsize(nt), SetD::CsEnum(ChunkSize::Min(nz(c)))];
                            let cse = Case { src_kind: kind, input, ops, sets, term, mode: Mode::Free(0), panic_at: None };
                            emit_case(out, "huge-min", &cse, false)?;
                            total_c.set(total_c.get() + 1);
                        }
                    }
                }
            }
            // the two recorded known findings at the extremes, as fixed cases (they fail fast:
            // a panic, nothing is allocated)
            {
                let input: Vec<u64> = (0..10).map(|i| 100 + i).collect();
                let mut sets = vec![vec![]; 2];
                sets[0] = vec![SetD::NtUsize(2), SetD::CsEnum(ChunkSize::Exact(nz(1 << 63)))];
                let cse = Case { src_kind: 'v', input: input.clone(), ops: vec![OpD::Map { a: 1, b: 0 }], sets: sets.clone(), term: TermD::CollectVec, mode: Mode::Free(0), panic_at: None };
                emit_case_known(out, "known-extreme", &cse, false, Some("C15 chunk-wrap:known-len-source:c>=2^63"))?;
                let cse = Case { src_kind: 'u', input, ops: vec![OpD::Filter { k: 2, r: 0 }], sets, term: TermD::CollectVec, mode: Mode::Free(0), panic_at: None };
                emit_case_known(out, "known-extreme", &cse, false, Some("C15 chunk-alloc:iter-source:c-exceeds-memory"))?;
                total_c.set(total_c.get() + 2);
            }
            let mut o = base(t);
            o.ctl_share = 2;
            go(out, &mut rng, "random", &o, n(500, 8000))?;
        }
        "C16" => {
            // every (type, transformation) site occurs in a chain of depth <= 3; 50 elements
            let input50 = gen_input(&mut rng, 50, true);
            let input4 = gen_input(&mut rng, 4, true);
            for ch in CHAINS.iter() {
                for rep in 0..n(3, 8) {
                    // a materialised stage shorter than the number of threads on every third case
                    let input = if rep % 3 == 2 { input4.clone() } else { input50.clone() };
                    let ops: Vec<OpD> = ch.0.chars().map(|k| gen_op(&mut rng, k)).collect();
                    let mut sets = vec![vec![]; ops.len() + 1];
                    if rep > 0 {
                        for _ in 0..rng.range(1, 4) {
                            let pos = rng.below(ops.len() as u64 + 1) as usize;
                            sets[pos].push(*rng.pick(&[SetD::NtUsize(1), SetD::NtUsize(3), SetD::NtUsize(6), SetD::CsUsize(4), SetD::NtUsize(0), SetD::CsEnum(ChunkSize::Min(nz(2))), SetD::CsUsize(0), SetD::CsEnum(ChunkSize::Auto), SetD::NtEnum(NumThreads::Auto)]));
                        }
                    }
                    let src_kind = *rng.pick(&['v', 'k', 'u']);
                    let term = rng.pick(&[TermD::Count, TermD::CollectVec, TermD::First, TermD::Reduce(RedD::Add)]).clone();
                    let c = Case { src_kind, input: input.clone(), ops, sets, term, mode: Mode::Free(0), panic_at: None };
                    emit_case(out, "sites", &c, false)?;
                    total_c.set(total_c.get() + 1);
                }
            }
        }
        "C10" => {
            let mut t = vec![TermD::First];
            for _ in 0..10 {
                let p = gen_pred(&mut rng);
                t.extend([TermD::Find(p), TermD::Any(p), TermD::All(p), TermD::FindIdx(p)]);
            }
            let mut o = base(t.clone());
            o.ctl_share = 8;
            o.allow_eager = false;
            for i in 0..n(4000, 30000) {
                let mut c = gen_case(&mut rng, &o);
                // a third: sequential mode (lazy prefix); a sixth: unbounded sources
                if i % 3 == 0 {
                    for s in c.sets.iter_mut() {
                        s.retain(|x| !matches!(x, SetD::NtUsize(_) | SetD::NtEnum(_)));
                    }
                    c.sets[0].push(SetD::NtUsize(1));
                    c.mode = Mode::Free(0);
                } else if i % 6 == 1 && !c.input.is_empty() && !c.term.needs_concrete() {
                    // unbounded source: the input repeats for ever; only cases with a match
                    let ex = expect(&c);
                    let has_match = match (&c.term, &ex.out) {
                        (TermD::All(_), Outcome::Bool(b)) => !*b,
                        (_, Outcome::Bool(b)) => *b,
                        (_, Outcome::Opt(o)) => o.is_some(),
                        _ => false,
                    };
                    if !has_match {
                        continue;
                    }
                    c.src_kind = 'e';
                    // chunk sizes far beyond the match would only allocate (known finding C15)
                    for s in c.sets.iter_mut() {
                        s.retain(|x| !matches!(x, SetD::CsEnum(ChunkSize::Exact(z)) | SetD::CsEnum(ChunkSize::Min(z)) if z.get() > 5000));
                    }
                }
                writeln!(out, "BEGIN\t{}", c.enc())?;
                out.flush()?;
                emit_case(out, "short-circuit", &c, false)?;
                total_c.set(total_c.get() + 1);
            }
        }
        "C13" | "C14" => {
            let with_panic = prop == "C14";
            let mut t = collects(&mut rng);
            t.extend([TermD::Count, TermD::ForEach, TermD::CollectX, TermD::Reduce(RedD::Add), TermD::Reduce(RedD::Max), TermD::First, TermD::MinByKey(3), TermD::MaxByKey(4)]);
            for k in ['v', 's', 'f'] {
                let pre: Vec<u64> = (0..rng.range(1, 6)).map(|_| rng.below(P)).collect();
                t.push(TermD::CollectInto(k, pre, rng.below(3) as usize * 5));
            }
            for _ in 0..5 {
                let p = gen_pred(&mut rng);
                t.extend([TermD::Find(p), TermD::Find(p), TermD::Any(p)]);
            }
            // targets with existing contents and no / partial / ample spare capacity
            let mut into_terms = vec![];
            for k in ['v', 's', 'f'] {
                for pre_len in [0usize, 1, 3, 40] {
                    for cap in [0usize, 5, 200] {
                        let pre: Vec<u64> = (0..pre_len).map(|_| rng.below(P)).collect();
                        into_terms.push(TermD::CollectInto(k, pre, cap));
                    }
                }
            }
            for _ in 0..n(4000, 30000) {
                let term = if rng.chance(1, 4) { rng.pick(&into_terms).clone() } else { rng.pick(&t).clone() };
                let full_needed = !is_core_terminal(&term);
                let cands: Vec<&&str> = crate::chains::CANARY_CHAINS.iter().filter(|c| !full_needed || c.len() <= 1).collect();
                let kinds = **rng.pick(&cands);
                let ops: Vec<OpD> = kinds.chars().map(|k| gen_op(&mut rng, k)).collect();
                let len = gen_len(&mut rng, thorough).min(300);
                let input = gen_input(&mut rng, len, true);
                let mut sets: Vec<Vec<SetD>> = vec![vec![]; ops.len() + 1];
                sets[0] = gen_src_sets(&mut rng, len, false);
                // huge chunk sizes allocate per-worker buffers on iterator sources (known finding C15)
                sets[0].retain(|s| !matches!(s, SetD::CsEnum(ChunkSize::Exact(c)) if c.get() > 100_000));
                let src_kind = *rng.pick(&['V', 'V', 'K', 'U']);
                let mut c = Case { src_kind, input, ops, sets, term, mode: Mode::Free(if rng.chance(2, 3) { rng.next() | 1 } else { 0 }), panic_at: None };
                let p = final_params(&c);
                if !is_seq_spec(&p) && !c.has_eager() && !c.ops.is_empty() && rng.chance(1, 3) && len <= 120 {
                    let maxw = match p.num_threads {
                        NumThreads::Auto => 8,
                        NumThreads::Max(n) => n.get().min(16) as u32,
                    };
                    c.mode = Mode::Ctl(gen_schedule(&mut rng, len, maxw));
                }
                if with_panic {
                    // panic at an invocation the sequential evaluation reaches
                    let ex = expect(&c);
                    let mut cand: Vec<(u32, u64)> = ex.log.iter().copied().filter(|e| (e.0 as usize) < c.ops.len() || e.0 == ST_FOR_EACH || e.0 == ST_PRED).collect();
                    if c.term.is_find_family() && rng.chance(1, 3) {
                        // an invocation beyond the first match: a parallel run may or may not reach it;
                        // or (arg + 1) an invocation nobody performs
                        cand = seq_eval(&c.input, &c.ops, &mut |y, log| { log.push((ST_PRED, y)); true });
                        if rng.chance(1, 4) {
                            cand = cand.iter().map(|e| (e.0, e.1 + 1)).collect();
                        }
                    }
                    if matches!(c.term, TermD::Reduce(_)) && rng.chance(1, 2) && ex.seq_vals.len() >= 2 {
                        // the reduce operator itself panics, at its k-th invocation
                        cand = vec![(ST_RED, rng.range(1, ex.seq_vals.len() as u64 - 1))];
                    }
                    if matches!(c.term, TermD::MinByKey(_) | TermD::MaxByKey(_)) && rng.chance(2, 3) && ex.seq_vals.len() >= 2 {
                        // the key-extraction closure panics (it runs inside the reduce operator)
                        cand = vec![(ST_KEY, rng.range(1, ex.seq_vals.len() as u64 - 1))];
                    }
                    if cand.is_empty() {
                        continue;
                    }
                    c.panic_at = Some(*rng.pick(&cand));
                }
                writeln!(out, "BEGIN\t{}", c.enc())?;
                out.flush()?;
                emit_case(out, if with_panic { "panic" } else { "ownership" }, &c, false)?;
                total_c.set(total_c.get() + 1);
            }
            // large owning sources: dropping the untouched remainder takes long, many workers
            for _ in 0..n(40, 400) {
                let mut c = gen_large_case(&mut rng, &[TermD::CollectVec, TermD::Count, TermD::Reduce(RedD::Add), TermD::Reduce(RedD::Max), TermD::First, TermD::CollectX, TermD::Collect], &["M", "F", "MF", "P", "PF", "X", "MM"], true);
                c.input.truncate(rng.range(1500, 6000) as usize);
                if with_panic {
                    let ex = expect(&c);
                    let cand: Vec<(u32, u64)> = ex.log.iter().copied().filter(|e| (e.0 as usize) < c.ops.len()).collect();
                    if cand.is_empty() {
                        continue;
                    }
                    // early, so that most of the input is still untouched when the panic strikes
                    c.panic_at = Some(cand[rng.below((cand.len() as u64 / 8).max(1)) as usize]);
                }
                writeln!(out, "BEGIN\t{}", c.enc())?;
                out.flush()?;
                emit_case(out, "large", &c, false)?;
                total_c.set(total_c.get() + 1);
            }
        }
        _ => {
            writeln!(out, "HARNESS-ERROR\tunknown sweep {}", prop)?;
        }
    }
    // ---- every interleaving of tiny configurations (scheduler granularity)
    for (group, c, limit) in if scale < 1.0 { vec![] } else { exhaust_configs(prop, &mut rng, thorough) } {
        writeln!(out, "BEGIN\t{}", c.enc())?;
        out.flush()?;
        let (k, _) = exhaust(out, &group, &c, limit)?;
        total_c.set(total_c.get() + k);
    }
    writeln!(out, "STAT\tcases\t{}", total_c.get())?;
    Ok(())
}

/// the tiny configurations whose interleavings are enumerated completely, per property:
/// (source kind, threads, chunk size, input length) x (chain, terminal)
fn exhaust_configs(prop: &str, rng: &mut Rng, thorough: bool) -> Vec<(String, Case, usize)> {
    let pd = PredD { k: 2, r: 0 };
    let shapes: Vec<(&str, TermD)> = match prop {
        "C01" => vec![("M", TermD::CollectVec), ("F", TermD::CollectVec), ("X", TermD::Collect), ("P", TermD::CollectInto('f', vec![], 0)), ("MF", TermD::CollectInto('v', vec![], 2))],
        "C02" => vec![("M", TermD::Find(pd)), ("F", TermD::First), ("M", TermD::FindIdx(pd)), ("X", TermD::Find(pd)), ("P", TermD::Any(pd)), ("M", TermD::All(PredD { k: 3, r: 1 }))],
        "C03" => vec![("M", TermD::Reduce(RedD::Add)), ("F", TermD::Reduce(RedD::Xor)), ("X", TermD::Reduce(RedD::Max)), ("P", TermD::Reduce(RedD::Add)), ("M", TermD::MinByKey(2)), ("M", TermD::Fold(RedD::Add, 7))],
        "C04" => vec![("M", TermD::Count), ("F", TermD::Count), ("X", TermD::Count), ("P", TermD::Count), ("PF", TermD::Count), ("M", TermD::ForEach)],
        "C05" => vec![("M", TermD::CollectVec), ("F", TermD::Count), ("P", TermD::Reduce(RedD::Add)), ("X", TermD::CollectX), ("M", TermD::Find(pd))],
        "C06" => vec![("M", TermD::CollectInto('v', vec![7, 8, 9], 0)), ("F", TermD::CollectInto('s', vec![7, 8], 3)), ("X", TermD::CollectInto('f', vec![7], 50)), ("M", TermD::CollectInto('f', vec![7, 8], 50))],
        "C07" => vec![("F", TermD::CollectX), ("X", TermD::CollectX), ("P", TermD::CollectX), ("MF", TermD::CollectX)],
        "C08" => vec![("M", TermD::Count), ("F", TermD::CollectVec), ("M", TermD::Reduce(RedD::Add)), ("M", TermD::Find(pd))],
        "C10" => vec![("M", TermD::Find(pd)), ("F", TermD::First), ("X", TermD::Find(pd)), ("P", TermD::Any(pd))],
        "C11" => vec![("M", TermD::CollectVec), ("F", TermD::Count), ("X", TermD::Reduce(RedD::Add))],
        "C13" => vec![("M", TermD::CollectVec), ("F", TermD::CollectVec), ("F", TermD::Collect), ("M", TermD::Find(pd)), ("X", TermD::First), ("F", TermD::CollectX), ("M", TermD::Reduce(RedD::Max))],
        "C14" => vec![("M", TermD::CollectVec), ("F", TermD::CollectVec), ("F", TermD::Collect), ("M", TermD::Count), ("P", TermD::Reduce(RedD::Add)), ("M", TermD::Find(pd))],
        _ => return vec![],
    };
    // (threads, chunk, len): quick ≈ 120 … 5 000 schedules each
    let mut cfgs: Vec<(usize, usize, usize)> = vec![(2, 1, 4), (2, 2, 5), (3, 1, 3), (3, 2, 4)];
    if thorough {
        cfgs.extend([(3, 1, 4), (3, 1, 5), (3, 2, 6), (4, 1, 3), (2, 1, 7)]);
    }
    let canary = matches!(prop, "C13" | "C14");
    let kinds_src: &[char] = if canary { &['V', 'K', 'U'] } else { &['v', 'k', 'u'] };
    let mut v = vec![];
    let mut i = 0usize;
    for (j, (kinds, term)) in shapes.iter().enumerate() {
        for (q, (nt, cz, len)) in cfgs.iter().copied().enumerate() {
            // quick: each shape with two of the four configurations (alternating between the
            // chunk-size-1 and the chunked code path); thorough: all
            i += 1;
            if !thorough && !(q == j % 2 || q == 2 + (j + 1) % 2) {
                continue;
            }
            // thorough: the larger spaces for the first three shapes only (≈ 15 000 schedules each)
            if thorough && q >= 4 && j >= 3 {
                continue;
            }
            if (term.needs_concrete() || !is_core_terminal(term)) && kinds.len() > 1 {
                continue;
            }
            let ops: Vec<OpD> = kinds.chars().map(|k| match k {
                'X' => OpD::FlatMap { k: 2 },
                'F' => OpD::Filter { k: 2, r: rng.below(2) },
                k => gen_op(rng, k),
            }).collect();
            let input = gen_input(rng, len, true);
            let mut sets = vec![vec![]; ops.len() + 1];
            sets[0] = vec![SetD::NtUsize(nt), SetD::CsUsize(cz)];
            let src_kind = kinds_src[i % kinds_src.len()];
            let mut c = Case { src_kind, input, ops, sets, term: term.clone(), mode: Mode::Ctl(vec![]), panic_at: None };
            if prop == "C14" {
                let ex = expect(&c);
                let cand: Vec<(u32, u64)> = ex.log.iter().copied().filter(|e| (e.0 as usize) < c.ops.len() || e.0 == ST_PRED).collect();
                if cand.is_empty() {
                    continue;
                }
                c.panic_at = Some(*rng.pick(&cand));
            }
            v.push(("exhaustive".to_string(), c, if thorough { 25_000 } else { 20_000 }));
        }
    }
    v
}
