"""Per-property configuration of ./check: which harness sweeps run, which fields of the model's
answer are compared with the implementation, what counts as a non-trivial case."""

TB_COMMON = [
    "Lean 4.33.0 kernel (leanchecker re-check in the thorough tier); axioms per theorem as printed by #print axioms, required ⊆ {propext, Classical.choice, Quot.sound}",
    "hand transcription of orx-parallel into lean/OrxPar/Model/*.lean, validated on every run by the correspondence harness (sampling; exhaustive only where stated)",
    "harness (harness/src/*.rs), its std::iter oracle, the Lean driver's parser (lean/Driver/Main.lean)",
    "dependencies modelled, not verified: orx-concurrent-iter (hands out consecutive blocks, each element once), orx-concurrent-ordered-bag / pinned vectors (positional writes), orx-priority-queue (pop = minimal key), std::thread::scope",
]
ASSUME_COMMON = [
    "closures are functions of their argument",
    "sequentially consistent atomics; weak memory, allocator and OS scheduling are outside the model",
]


def nt_all(f, st):
    return True


def nt_parallel(f, st):
    return st.get("runs", "0") != "0" and int(st.get("len", "0")) >= 2


def nt_len2(f, st):
    return int(st.get("len", "0")) >= 2


RESULT_CMP = ("pred", "spec", "acc", "stream")


def result_prop(sweep, rule, expl, extra_tb=(), nontrivial=nt_parallel, cmp=RESULT_CMP):
    return {
        "modes": [["sweep", sweep, "{seed}", "{tier}"]],
        "compare": cmp,
        "nontrivial": nontrivial,
        "rule": rule,
        "explanation": expl,
        "trusted_base": TB_COMMON + list(extra_tb),
        "assumptions": ASSUME_COMMON,
    }


PROPS = {
    "C12": {
        "modes": [["sweep", "C12", "{seed}", "{tier}"]],
        "compare": ("params",),
        "nontrivial": nt_all,
        "rule": "exhaustive: each of the 85 chains of <=3 transformations (all 32 (type,transformation) sites) x one setter out of 10 (usize 0/1/7, enum Auto/Max/Min/Exact) at every position; plus random 2-4 setters; params() and is_sequential() are read after the source and after EVERY call and compared with the model's Par.build prefix by prefix; distinct = distinct case text",
        "explanation": "C12_params proves, by induction over any op list from the 32 site lemmas + setter lemmas, that params() is the last value set; the run ties Par.applyT's params to the real code on every site x setter position.",
        "trusted_base": TB_COMMON,
        "assumptions": ASSUME_COMMON,
        "exhaustive": True,
    },
    "C15": {
        "modes": [["l0", "{seed}", "{tier}"], ["sweep", "C15", "{seed}", "{tier}"]],
        "compare": ("pred", "spec", "stream"),
        "l0_functions": None,
        "l0_nontrivial": ("chunksize", "numthreads", "runner", "nextchunk", "divceil"),
        "nontrivial": nt_all,
        "rule": "L0: calc_num_threads, calc_chunk_size, Runner::new, do_spawn, next_chunk_size, div_ceil, From<usize> on dense grids (len None/0..70/large, threads 1..20, avail 1..32, every ChunkSize kind with c 1..24(70) and up to usize::MAX), exact equality incl. panics; end-to-end: 8 representative pipelines x len grid x NumThreads {0..9} x {Auto, Exact c, Min c} x random terminal on Vec / exact-size / unknown-size sources, outcome compared with the std oracle (= num_threads(1) result) and with the model; distinct = distinct query / case text",
        "explanation": "C15_* prove positivity/totality of the settings arithmetic for all inputs; results are independent of Params by C01-C07 (proved for every worker set). The run ties the arithmetic functions to the code exactly and checks no-panic + equal results on the grid.",
        "trusted_base": TB_COMMON + ["usize is modelled as Nat; overflow is excluded by C15_in_range's stated bounds; extreme chunk sizes are known findings"],
        "assumptions": ASSUME_COMMON,
    },
    "C11": {
        "modes": [["l0", "{seed}", "{tier}"], ["sweep", "C11", "{seed}", "{tier}"]],
        "compare": ("pred", "spec", "acc", "stream"),
        "l0_functions": ("chunksize", "runner", "nextchunk", "dospawn", "ofnat_cs"),
        "l0_nontrivial": ("chunksize", "runner", "nextchunk"),
        "nontrivial": nt_parallel,
        "rule": "L0 as C15 (functions chunksize/runner/nextchunk/dospawn); end-to-end: random chains without eager sites, Exact(c) with c in {1, 2..12, 13..40, len, len+1} set at a random position, up to 16 threads, 70% under the deterministic scheduler (first workers progress before the spawner continues); oracle: every worker is handed c, every aligned block [kc,(k+1)c) is evaluated by one worker, source next() bursts are multiples of c; non-trivial = a runner ran and len>=2",
        "explanation": "C11_resolved/C11_runner/C11_next_chunk/C11_workers prove that Exact(c) reaches every worker for every has_more stream; the run ties next_chunk_size/calc_chunk_size to the code exactly and observes real pulls.",
        "trusted_base": TB_COMMON,
        "assumptions": ASSUME_COMMON,
    },
    "C08": {
        "modes": [["l0", "{seed}", "{tier}"], ["sweep", "C08", "{seed}", "{tier}"]],
        "compare": ("pred", "spec", "acc", "stream"),
        "l0_functions": ("numthreads", "runner", "dospawn", "ofnat_nt"),
        "l0_nontrivial": ("numthreads", "runner", "dospawn"),
        "nontrivial": nt_len2,
        "rule": "L0 (numthreads/runner/dospawn); end-to-end: random chains (incl. eager sites) x all terminals with num_threads(n), n in 1..20, set on the source only; oracle: workers spawned per runner run <= n, live-worker gauge <= n, every closure stage on <= n distinct threads, no foreign thread, Max(1): no runner and everything on the caller; non-trivial = len>=2",
        "explanation": "C08_max_threads + C08_spawn_bound prove <= n workers for every has_more stream; the run ties do_spawn/calc_num_threads exactly and counts real threads via the worker hooks.",
        "trusted_base": TB_COMMON,
        "assumptions": ASSUME_COMMON,
    },
}
