"""Per-property configuration of ./check: which harness sweeps run, which fields of the model's
answer are compared with the implementation, what counts as a non-trivial case."""

TB_COMMON = [
    "Lean 4.33.0 kernel (leanchecker re-check in the thorough tier); axioms per theorem as printed by #print axioms, required ⊆ {propext, Classical.choice, Quot.sound}",
    "hand transcription of orx-parallel into lean/OrxPar/Model/*.lean, validated on every run by the correspondence harness (sampling; exhaustive only where stated)",
    "harness (harness/src/*.rs), its std::iter oracle, the Lean driver's parser (lean/Driver/Main.lean)",
    "dependencies modelled, not verified: orx-concurrent-iter (hands out consecutive blocks, each element once), orx-concurrent-ordered-bag / pinned vectors (positional writes), orx-priority-queue (pop = minimal key), std::thread::scope",
]
ASSUME_COMMON = [
    "closures are functions of their argument",
    "sequentially consistent atomics; weak memory, allocator and OS scheduling are outside the model",
]


def nt_all(f, st):
    return True


def nt_parallel(f, st):
    return st.get("runs", "0") != "0" and int(st.get("len", "0")) >= 2


def nt_len2(f, st):
    return int(st.get("len", "0")) >= 2


RESULT_CMP = ("pred", "spec", "acc", "stream", "evd", "pan")


def result_prop(sweep, rule, expl, extra_tb=(), nontrivial=nt_parallel, cmp=RESULT_CMP):
    return {
        # the sweep, the source battery, and a scaled-down repeat of the sweep with the process
        # confined to one CPU (available_parallelism() == 1: every runner has a single worker)
        "modes": [["sweep", sweep, "{seed}", "{tier}"]] + ([["sources", "{seed}", sweep]] if sweep in ("C01", "C02", "C03", "C04", "C06", "C07", "C09", "C10", "C13") else []) + ([["taskset=0", "sweep", sweep, "{seed}9", "quick"]] if sweep in ("C01", "C02", "C03", "C04", "C05", "C06", "C07", "C10") else []),
        "compare": cmp,
        "nontrivial": nontrivial,
        "rule": rule,
        "explanation": expl,
        "trusted_base": TB_COMMON + list(extra_tb),
        "assumptions": ASSUME_COMMON,
    }


PROPS = {
    "C12": {
        "modes": [["sweep", "C12", "{seed}", "{tier}"], ["taskset=0", "sweep", "C12", "{seed}9", "quick"]],
        "compare": ("params",),
        "nontrivial": nt_all,
        "rule": "exhaustive: each of the 117 chains (all 85 of <=3 transformations, i.e. all 32 (type,transformation) sites, plus every 8th chain of depth 4) x one setter out of 16 (usize 0/1/7/2^20/2^20+1, enum Auto/Max/Min/Exact incl. Min(2^40), Exact(2^32+5), Max(2^40)) at every position; plus random 2-4 setters; params() and is_sequential() are read after the source and after EVERY call and compared with the model's Par.build prefix by prefix; distinct = distinct case text",
        "explanation": "C12_params proves, by induction over any op list from the 32 site lemmas + setter lemmas, that params() is the last value set; the run ties Par.applyT's params to the real code on every site x setter position.",
        "trusted_base": TB_COMMON,
        "assumptions": ASSUME_COMMON,
        "exhaustive": True,
    },
    "C15": {
        "modes": [["l0", "{seed}", "{tier}"], ["sweep", "C15", "{seed}", "{tier}"], ["taskset=0-2", "sweep", "C15", "{seed}7", "{tier}"], ["taskset=0", "sweep", "C15", "{seed}9", "quick"], ["sources", "{seed}", "C15"]],
        "compare": ("pred", "spec", "stream"),
        "l0_functions": None,
        "l0_nontrivial": ("chunksize", "numthreads", "runner", "nextchunk", "divceil"),
        "nontrivial": nt_all,
        "rule": "L0: calc_num_threads, calc_chunk_size, Runner::new, do_spawn, next_chunk_size, div_ceil, From<usize> on dense grids (len None/0..70/large, threads 1..20, avail 1..32, every ChunkSize kind with c 1..24(70) and up to usize::MAX), exact equality incl. panics; end-to-end: 8 representative pipelines x len grid x NumThreads {0..9} x {Auto, Exact c, Min c} x random terminal on Vec / exact-size / unknown-size sources, outcome compared with the std oracle (= num_threads(1) result) and with the model; the end-to-end part is repeated with the process confined to 3 CPUs and to 1 CPU (taskset), where available_parallelism() caps every computation; distinct = distinct query / case text",
        "explanation": "C15_* prove positivity/totality of the settings arithmetic for all inputs; results are independent of Params by C01-C07 (proved for every worker set). The run ties the arithmetic functions to the code exactly and checks no-panic + equal results on the grid.",
        "trusted_base": TB_COMMON + ["usize is modelled as Nat; overflow is excluded by C15_in_range's stated bounds; extreme chunk sizes are known findings"],
        "assumptions": ASSUME_COMMON,
    },
    "C11": {
        "modes": [["l0", "{seed}", "{tier}"], ["sweep", "C11", "{seed}", "{tier}"], ["taskset=0", "sweep", "C11", "{seed}9", "quick"], ["taskset=0-2", "sweep", "C11", "{seed}7", "quick"]],
        "compare": ("pred", "spec", "acc", "stream"),
        "l0_functions": ("chunksize", "runner", "nextchunk", "ofnat_cs", "spawn"),
        # C11's theorems speak about Exact(c) only: the settings functions are compared on the queries
        # with an exact chunk (a retuned Auto/Min heuristic is C15's business, not an alarm here)
        "l0_filter": (lambda q: q.startswith("ofnat_cs") or "exact:" in q or __import__("re").search(r" e\d+( |$)", q) is not None),
        "l0_nontrivial": ("chunksize", "runner", "nextchunk", "spawn"),
        "nontrivial": nt_parallel,
        "rule": "L0 as C15 (functions chunksize/runner/nextchunk/dospawn); end-to-end: random chains without eager sites, Exact(c) with c in {1, 2..12, 13..40, len, len+1} set at a random position, up to 16 threads, 70% under the deterministic scheduler (first workers progress before the spawner continues); oracle: every worker is handed c, every aligned block [kc,(k+1)c) is evaluated by one worker, source next() bursts are multiples of c; non-trivial = a runner ran and len>=2",
        "explanation": "C11_resolved/C11_runner/C11_next_chunk/C11_workers prove that Exact(c) reaches every worker for every has_more stream; the run ties next_chunk_size/calc_chunk_size to the code exactly and observes real pulls.",
        "trusted_base": TB_COMMON,
        "assumptions": ASSUME_COMMON,
    },
    "C08": {
        "modes": [["l0", "{seed}", "{tier}"], ["sweep", "C08", "{seed}", "{tier}"], ["taskset=0-2", "sweep", "C08", "{seed}7", "quick"], ["sources", "{seed}", "C08"]],
        "compare": ("pred", "spec", "acc", "stream"),
        "l0_functions": ("numthreads", "runner", "dospawn", "ofnat_nt", "spawn"),
        "l0_nontrivial": ("numthreads", "runner", "dospawn", "spawn"),
        "nontrivial": nt_len2,
        "rule": "L0 (numthreads/runner/dospawn); end-to-end: random chains (incl. eager sites) x all terminals with num_threads(n), n in 1..20, set on the source only; oracle: workers spawned per runner run <= n, live-worker gauge <= n, every closure stage on <= n distinct threads, no foreign thread, Max(1): no runner and everything on the caller; non-trivial = len>=2",
        "explanation": "C08_max_threads + C08_spawn_bound prove <= n workers for every has_more stream; the run ties do_spawn/calc_num_threads exactly and counts real threads via the worker hooks.",
        "trusted_base": TB_COMMON,
        "assumptions": ASSUME_COMMON,
    },
    "C01": result_prop("C01",
        "random chains of 0..4 transformations (117 shapes: all 85 of depth <= 3 — all 32 sites incl. eager ones — plus every 8th of depth 4) x {collect_vec, collect, collect_into(empty Vec/SplitVec/FixedVec)} x sources {Vec by value, exact-size iterator, unknown-size iterator} x random setters (NumThreads Auto/1..9, ChunkSize Auto/Exact/Min incl. len-1,len,len+1,2^20) at the source and mid-chain x inputs (len 0,1,2..70, some larger; distinct values 80%, duplicates 20%); half of the parallel single-phase cases run under the deterministic scheduler (families: reverse start order, last-spawned-first, one worker starved, workers ahead of the spawner, random); per case: outcome vs std oracle, outcome vs model prediction on the OBSERVED chunk assignment, Lean spec vs std oracle, observed assignment accepted (tiling + per-thread order); non-trivial = a runner ran and len>=2; distinct = distinct case text",
        "C01_collect proves equality with the sequential chain for every accepted execution (any tiling, assignment, worker count, spawn order, chunk sizes); C01_every_schedule proves every schedule yields an accepted execution. The run validates the model: predicted = real outcome on the real assignment, and real assignments are accepted."),
    "C02": result_prop("C02",
        "as C01 with terminals find/first/any/all/find_with_index/first_with_index, predicates x%k==r with k in {1,2,3,5,7,11,50,1000,P} (0, 1, many matches; same and different chunks); 70% of parallel single-phase cases under the deterministic scheduler incl. the family where the last-spawned worker runs first / holds chunk 0; acceptance = every worker evaluated increasing positions and the evaluated set contains [0, least found position]",
        "C02_find/first/any/all/find_idx prove the least match wins for every accepted find-execution; C02_every_schedule proves every schedule of the early-exit transition system yields one."),
    "C03": result_prop("C03",
        "as C01 with terminals reduce/fold (wrapping add, xor, min, max), sum, min, max, min_by, max_by, min_by_key, max_by_key (keys x%k, ties frequent); by-key outcomes compared on the extremal key, membership checked by the oracle",
        "C03_reduce (assoc+comm operator) and C03_min_by_key/C03_max_by_key (selection operators, no commutativity) for every accepted execution."),
    "C04": result_prop("C04",
        "as C01 with terminals count and for_each (arguments of f compared as sorted multisets)",
        "C04_count and C04_for_each for every accepted execution; C04_nested_loop for the hand-written chunk-1 loop of filtermap_fil_cnt."),
    "C06": result_prop("C06",
        "as C01 with collect_into into Vec/SplitVec/FixedVec holding 0,1,3,40,100 existing elements with spare capacity 0,5,200; half of the sources are iterators (exact and unknown length); map-only pipelines over unknown-length sources are the branch repaired by the fix: commit",
        "C06_collect_into: pre ++ sequential result for all three targets, known/unknown length, sequential/parallel; C06_pinned_defect_witness keeps the pinned behaviour as a refuted alternative."),
    "C07": result_prop("C07",
        "as C01 with collect_x, 70% of the inputs with duplicates (values 0..11); outcomes compared as sorted multisets",
        "C07_collect_x: permutation of the sequential result for every accepted execution; equality in sequential mode."),
    "C05": result_prop("C05",
        "as C01 over all full-visit terminals and the find family, sources biased to instrumented by-value iterators (exact and unknown length); oracle: the multiset of (stage, argument) closure invocations of the whole computation equals the sequential one (find family: no invocation more often than in the full sequential evaluation); the source iterator's next() is never entered concurrently (entry/exit flag) and yields every position at most once",
        "C05_full / C05_short_* prove the event-multiset statements for every chain and accepted execution from the 32 site lemmas; C05_mutex / C05_yield_once prove mutual exclusion and the index contract of the transcribed ticket protocol of the dependency for every interleaving.",
        extra_tb=["the ticket protocol (lean/OrxPar/Model/Ticket.lean) is a hand transcription of orx-concurrent-iter 1.30.0 implementors/iter.rs, tied to the code only by the run-time re-entrancy monitor; relaxed-memory effects are outside the model",
                  "parallel kernels are modelled as evaluating every element's stream completely (Par.parLog); that abstraction is tied to the code by the per-case multiset comparison"]),
    "C09": result_prop("C09",
        "as C01 with num_threads(1) (usize or enum) inserted at a random place among the source's setters and never overridden, chunk sizes swept; all terminals incl. reduce/fold with the non-associative Poly and the non-commutative Sub operator; oracle: exact std value (by-key: extremal key) and, per stage, the exact std order of closure arguments",
        "C09_seq_value (all plain terminals, arbitrary operators), C09_context_irrelevant (chunk size / execution irrelevant), C09_stage_order.",
        nontrivial=nt_len2),
    "C10": result_prop("C10",
        "find/first/any/all/find_with_index on chains without eager sites: 1/3 in sequential mode (oracle: each stage evaluated exactly the lazy std prefix), 1/6 over unbounded sources (the input repeats for ever; a 25 s watchdog turns non-termination into a failing case), the rest parallel with 80% under the deterministic scheduler (oracle: after the first matching evaluation — which publishes skip_to_end within the same granted step — no worker evaluates more elements than its chunk size)",
        "C10_no_pull_after_publication + C10_bounded_work (safety, also for unbounded sources), C10_progress (finite sources), C10_seq (lazy prefix), C10_terminates_fair (fair rounds, unbounded sources)."),
    "C13": result_prop("C13",
        "pipelines over owning sources of a drop-observing item type (id + magic number + global live/dropped table): Vec by value (ConIterOfVec), vec::IntoIter (exact size), filtered IntoIter (unknown size); 33 chain shapes covering all 32 sites; terminals collect*/collect_into (non-empty targets)/collect_x/count/reduce/find/first/for_each/min_by_key/max_by_key/any; random params, a third under the deterministic scheduler; oracle after the result is dropped: live = 0 (no leak), bad = 0 (no double drop, no drop of foreign memory)",
        "C13_merge_ledger / C13_bag_ledger / C13_source_ledger prove linearity of the two unsafe protocols of orx-parallel and of the modelled owning source; everything else is safe Rust and is observed with the canary type.",
        extra_tb=["cell-level behaviour of Vec / ConcurrentOrderedBag / ConIterOfVec is modelled from reading the dependencies, not verified"],
        nontrivial=nt_len2),
    "C14": result_prop("C14",
        "as C13 with a panic injected at a (stage, argument) the sequential evaluation reaches — every closure of the chain, the for_each closure and the predicate; oracle: the call panics (never returns a value) when the closure fired, bad = 0 (leaks allowed), the process neither aborts nor hangs (watchdog, exit status)",
        "C14_bag_unwind_no_bad (guarded unwinding drops nothing) with C14_pinned_defect (the pre-fix behaviour provably drops never-initialised cells); propagation is std behaviour (scope/join), modelled and observed.",
        extra_tb=["std::thread::scope / JoinHandle::join re-raise worker panics: assumed, observed on every case"],
        nontrivial=nt_len2),
    "C16": {
        "modes": [["sweep", "C16", "{seed}", "{tier}"], ["taskset=0", "sweep", "C16", "{seed}9", "quick"]],
        "compare": ("eff", "params", "pred", "spec"),
        "nontrivial": nt_all,
        "rule": "every one of the 117 chains (all 85 of <=3 transformations = all 32 sites, plus 32 of depth 4) on a 50-element and a 4-element source, with and without setters at random positions, Vec / exact / unknown-length sources; closure-call and source-consumption counters are read after the source conversion and after EVERY call; any non-zero increment before the terminal is attributed to its (type, transformation) site: the 8 listed eager sites print KNOWN-FINDING, anything else is a violation; the model's construction-effect counts are compared call by call",
        "explanation": "C16_lazy: chains avoiding the eager sites have no construction effects (induction over the chain from 24 lazy site lemmas); C16_eager_runs_upstream characterises the 8 eager sites.",
        "trusted_base": TB_COMMON,
        "assumptions": ASSUME_COMMON,
    },
}
