//! Supporting search under Miri (thorough tier of C13 / C14 only; never a proof): a fixed battery of
//! tiny pipelines over heap-owning items.  Miri reports use of uninitialised memory, double
//! frees, out-of-bounds accesses and (for the non-panicking half) leaks.
use orx_parallel::*;
use orx_split_vec::{PinnedVec, SplitVec};
use std::panic::{catch_unwind, AssertUnwindSafe};

fn items(n: u64) -> Vec<Box<u64>> {
    (0..n).map(Box::new).collect()
}

fn main() {
    let args: Vec<String> = std::env::args().collect();
    let with_panic = args.get(1).map(|s| s == "panic").unwrap_or(false);
    let boom = |x: u64| {
        if with_panic && x == 3 {
            panic!("injected");
        }
    };
    let mut ran = 0;
    for (nt, cs) in [(2usize, 1usize), (2, 2), (3, 1), (3, 3)] {
        let mut run = |name: &str, f: &dyn Fn()| {
            let r = catch_unwind(AssertUnwindSafe(f));
            if with_panic && r.is_ok() {
                println!("MIRI-FAIL\t{} nt={} cs={}: the closure panicked but the call returned", name, nt, cs);
            }
            if !with_panic && r.is_err() {
                println!("MIRI-FAIL\t{} nt={} cs={}: panicked", name, nt, cs);
            }
            ran += 1;
        };
        run("map collect_vec", &|| {
            let v = items(6).into_par().num_threads(nt).chunk_size(cs).map(|x| { boom(*x); Box::new(*x + 1) }).collect_vec();
            assert_eq!(v.iter().map(|x| **x).collect::<Vec<_>>(), vec![1, 2, 3, 4, 5, 6]);
        });
        run("map collect (SplitVec)", &|| {
            let v = items(6).into_par().num_threads(nt).chunk_size(cs).map(|x| { boom(*x); Box::new(*x + 1) }).collect();
            assert_eq!(v.len(), 6);
        });
        run("map collect_into(non-empty Vec)", &|| {
            let mut t = Vec::with_capacity(3);
            t.push(Box::new(100u64));
            let v = items(6).into_par().num_threads(nt).chunk_size(cs).map(|x| { boom(*x); x }).collect_into(t);
            assert_eq!(v.len(), 7);
        });
        run("filter collect_vec", &|| {
            let v = items(6).into_par().num_threads(nt).chunk_size(cs).filter(|x| { boom(**x); **x % 2 == 1 }).collect_vec();
            assert_eq!(v.iter().map(|x| **x).collect::<Vec<_>>(), vec![1, 3, 5]);
        });
        run("filter collect_into(SplitVec)", &|| {
            let mut t = SplitVec::new();
            t.push(Box::new(7u64));
            let v = items(6).into_par().num_threads(nt).chunk_size(cs).filter(|x| { boom(**x); **x % 2 == 0 }).collect_into(t);
            assert_eq!(v.len(), 4);
        });
        run("flat_map filter collect_vec", &|| {
            let v = items(5).into_par().num_threads(nt).chunk_size(cs).flat_map(|x| { boom(*x); vec![Box::new(*x), Box::new(*x * 10)] }).filter(|x| **x != 20).collect_vec();
            assert_eq!(v.len(), 9);
        });
        run("filter_map collect_x", &|| {
            let v = items(6).into_par().num_threads(nt).chunk_size(cs).filter_map(|x| { boom(*x); if *x % 3 == 0 { None } else { Some(x) } }).collect_x();
            assert_eq!(v.len(), 4);
        });
        run("map reduce", &|| {
            let r = items(6).into_par().num_threads(nt).chunk_size(cs).map(|x| { boom(*x); x }).reduce(|a, b| Box::new(*a + *b));
            assert_eq!(r.map(|x| *x), Some(15));
        });
        run("filter_map filter reduce", &|| {
            let r = items(6).into_par().num_threads(nt).chunk_size(cs).filter_map(|x| { boom(*x); Some(x) }).filter(|x| **x != 1).reduce(|a, b| Box::new(*a + *b));
            assert_eq!(r.map(|x| *x), Some(14));
        });
        run("filter find", &|| {
            let r = items(6).into_par().num_threads(nt).chunk_size(cs).filter(|x| { boom(**x); **x > 0 }).find(|x| **x >= 4);
            assert_eq!(r.map(|x| *x), Some(4));
        });
        run("flat_map first", &|| {
            let r = items(6).into_par().num_threads(nt).chunk_size(cs).flat_map(|x| { boom(*x); if *x < 4 { vec![] } else { vec![x] } }).first();
            assert_eq!(r.map(|x| *x), Some(4));
        });
        run("count / for_each", &|| {
            let n = items(6).into_par().num_threads(nt).chunk_size(cs).filter(|x| { boom(**x); true }).count();
            assert_eq!(n, 6);
            items(4).into_par().num_threads(nt).chunk_size(cs).for_each(|x| boom(*x));
        });
        run("filter collect_into(Vec with ample capacity)", &|| {
            let mut t = Vec::with_capacity(16);
            t.push(Box::new(100u64));
            let v = items(6).into_par().num_threads(nt).chunk_size(cs).filter(|x| { boom(**x); **x % 2 == 0 }).collect_into(t);
            assert_eq!(v.iter().map(|x| **x).collect::<Vec<_>>(), vec![100, 0, 2, 4]);
        });
        run("flat_map collect_into(FixedVec with room)", &|| {
            let mut t = orx_fixed_vec::FixedVec::new(20);
            t.push(Box::new(100u64));
            let v = items(4).into_par().num_threads(nt).chunk_size(cs).flat_map(|x| { boom(*x); vec![Box::new(*x), Box::new(*x)] }).collect_into(t);
            assert_eq!(v.len(), 9);
        });
        run("filter collect_into(Vec with partial capacity), twice", &|| {
            let t: Vec<Box<u64>> = Vec::with_capacity(2);
            let t = items(6).into_par().num_threads(nt).chunk_size(cs).filter(|x| **x % 2 == 0).collect_into(t);
            let v = items(6).into_par().num_threads(nt).chunk_size(cs).filter(|x| { boom(**x); **x % 2 == 1 }).collect_into(t);
            assert_eq!(v.iter().map(|x| **x).collect::<Vec<_>>(), vec![0, 2, 4, 1, 3, 5]);
        });
        run("filter_map reduce, the operator panics when it combines two partial results", &|| {
            // items are powers of ten: a value with more than one non-zero digit is a partial result
            let partial = |x: u64| x.to_string().chars().filter(|c| *c != '0').count() > 1;
            let r = (0..8u32).map(|i| Box::new(10u64.pow(i))).collect::<Vec<_>>().into_par().num_threads(nt).chunk_size(cs).filter_map(|x| if *x == 5 { None } else { Some(x) }).reduce(|a, b| {
                if with_panic && partial(*a) && partial(*b) {
                    panic!("injected in the operator");
                }
                Box::new(*a + *b)
            });
            assert_eq!(r.map(|x| *x), Some(11_111_111));
        });
        run("flat_map reduce, the operator panics when it combines two partial results", &|| {
            let partial = |x: u64| x.to_string().chars().filter(|c| *c != '0').count() > 1;
            let r = (0..8u32).map(|i| Box::new(10u64.pow(i))).collect::<Vec<_>>().into_par().num_threads(nt).chunk_size(cs).flat_map(|x| vec![x]).reduce(|a, b| {
                if with_panic && partial(*a) && partial(*b) {
                    panic!("injected in the operator");
                }
                Box::new(*a + *b)
            });
            assert_eq!(r.map(|x| *x), Some(11_111_111));
        });
        run("map filter reduce, the operator panics when it combines two partial results", &|| {
            let partial = |x: u64| x.to_string().chars().filter(|c| *c != '0').count() > 1;
            let r = (0..8u32).map(|i| Box::new(10u64.pow(i))).collect::<Vec<_>>().into_par().num_threads(nt).chunk_size(cs).map(|x| x).filter(|x| **x != 5).reduce(|a, b| {
                if with_panic && partial(*a) && partial(*b) {
                    panic!("injected in the operator");
                }
                Box::new(*a + *b)
            });
            assert_eq!(r.map(|x| *x), Some(11_111_111));
        });
        run("map min_by_key, the key closure panics", &|| {
            let r = items(6).into_par().num_threads(nt).chunk_size(cs).map(|x| x).min_by_key(|x| { boom(**x); 10 - **x });
            assert_eq!(r.map(|x| *x), Some(5));
        });
        run("unknown-length source map collect_into(Vec)", &|| {
            let mut t = Vec::with_capacity(2);
            t.push(Box::new(9u64));
            let v = items(6).into_iter().filter(|x| **x != 5).par().num_threads(nt).chunk_size(cs).map(|x| { boom(*x); x }).collect_into(t);
            assert_eq!(v.len(), 6);
        });
    }
    println!("MIRI-DONE\t{} pipelines, panic={}", ran, with_panic);
}
