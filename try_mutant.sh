#!/bin/sh
# usage: try_mutant.sh <patch> <prop>...   applies the patch to /repo, runs the checks, reverts
P="$1"; shift
cd /repo && git apply "$P" || exit 9
cd /verif
for p in "$@"; do
  out=$(./check $p 2>&1); rc=$?
  echo "== $p rc=$rc"; echo "$out" | grep -E "^(VIOLATION|KNOWN-FINDING|BUILD-FAILED|HARNESS-ERROR|C[0-9]+:)" | cut -c1-300 | grep -v "^KNOWN" 
done
git -C /repo checkout -- .
