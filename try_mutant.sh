#!/bin/sh
# usage: try_mutant.sh <patch> <prop>...   applies the patch to /repo, runs the checks, reverts.
# The evidence files written while the patch is applied are discarded (evidence must describe the
# unchanged tree).
P="$1"; shift
cd /repo && git apply "$P" || exit 9
cd /verif
mkdir -p .cache/evidence_keep && cp evidence/*.json .cache/evidence_keep/
for p in "$@"; do
  out=$(./check $p 2>&1); rc=$?
  echo "== $p rc=$rc"; echo "$out" | grep -E "^(VIOLATION|KNOWN-FINDING|BUILD-FAILED|HARNESS-ERROR|C[0-9]+:)" | cut -c1-300 | grep -v "^KNOWN" 
done
cp .cache/evidence_keep/*.json evidence/
git -C /repo checkout -- . && git -C /repo clean -fdq src tests
(cd /verif/harness && CARGO_NET_OFFLINE=true cargo build --offline >/dev/null 2>&1)
